// Package c20suite runs the repository's fstest conformance suite against the reference file systems and
// against deviant wrappers around mem.FS that differ from it in exactly one observable behaviour.
package c20suite

import (
	"bytes"
	"errors"
	"fmt"
	"io"
	"path"
	"sort"
	"strings"
	"sync"
	"sync/atomic"
	"syscall"
	"time"

	"github.com/hack-pad/hackpadfs"
	"github.com/hack-pad/hackpadfs/mem"
)

// Deviants lists every single-behaviour deviation: "<operation>:<kind>".
var Deviants = []string{
	"Mkdir:noop", "Mkdir:wrong-perm", "Mkdir:wrong-errkind", "Mkdir:wrong-errpath", "Mkdir:wrong-errtype", "Mkdir:creates-parents",
	"MkdirAll:noop", "MkdirAll:partial", "MkdirAll:wrong-perm", "MkdirAll:wrong-errkind", "MkdirAll:accepts-file-in-path",
	"OpenFile:wrong-perm", "OpenFile:ignore-excl", "OpenFile:ignore-trunc", "OpenFile:ignore-append", "OpenFile:wrong-errkind", "OpenFile:wrong-errpath", "OpenFile:wrong-errtype", "OpenFile:create-without-flag", "OpenFile:dir-writable",
	"Open:wrong-errkind", "Open:wrong-errpath", "Open:wrong-errtype",
	"Remove:noop", "Remove:nonempty-allowed", "Remove:wrong-errkind", "Remove:wrong-errpath", "Remove:wrong-errtype", "Remove:leaves-entry-as-empty-file",
	"Rename:source-left", "Rename:noop", "Rename:wrong-errkind", "Rename:wrong-errpath", "Rename:wrong-errtype", "Rename:wrong-bytes",
	"Stat:wrong-size", "Stat:wrong-mode", "Stat:wrong-name", "Stat:wrong-errkind", "Stat:wrong-errpath", "Stat:wrong-errtype",
	"Chmod:noop", "Chmod:wrong-bits", "Chmod:wrong-errkind", "Chmod:wrong-errpath",
	"Chtimes:noop", "Chtimes:wrong-time", "Chtimes:wrong-errkind",
	"Mkdir:wrong-errop", "OpenFile:wrong-errop", "Open:wrong-errop", "Remove:wrong-errop", "Rename:wrong-errop", "Stat:wrong-errop", "Rename:wrong-errpath-new",
	"Read:no-eof-after-data", "Seek:negative-accepted", "Truncate:negative-accepted", "ReadAt:negative-accepted", "WriteAt:negative-accepted",
	"Read:wrong-bytes", "Read:late-eof", "Read:early-eof", "Read:offset-not-advanced", "Read:drops-byte",
	"ReadAt:wrong-bytes", "ReadAt:ignores-offset", "ReadAt:no-error-on-short", "ReadAt:moves-offset",
	"Write:noop", "Write:twice", "Write:wrong-bytes", "Write:wrong-n", "Write:offset-not-advanced",
	"WriteAt:noop", "WriteAt:ignores-offset", "WriteAt:moves-offset",
	"Seek:wrong-result", "Seek:noop", "Seek:end-from-start",
	"Truncate:noop", "Truncate:off-by-one", "Truncate:grow-garbage",
	"Close:second-close-succeeds", "Close:keeps-handle-usable",
	"FileStat:wrong-size", "FileStat:wrong-mode", "FileStat:stale-size",
	"ReadDir:missing-entry", "ReadDir:duplicate-entry", "ReadDir:wrong-isdir", "ReadDir:no-eof", "ReadDir:ignores-n",
	"ReadDir:duplicate-in-subdir", "Rename:dest-listed-twice-in-subdir", "Mkdir:listed-twice-in-subdir",
	"ReadDir:cursor-stuck", "ReadDir:second-page-empty-nil",
	// "FSReadDir:": the wrapper additionally implements ReadDirFS (listing by name at the FS level)
	"FSReadDir:unclean-root-names", "FSReadDir:unclean-subdir-names", "FSReadDir:unsorted",
	// the error kind of one specific failure is replaced by a neighbouring kind
	"Remove:notempty-as-exist", "Mkdir:exist-as-isdir", "Remove:notexist-as-notdir",
	// "@prefix": run with Constraints.AllowErrPathPrefix (as for file systems whose error paths carry an outer prefix).
	// Every error path gets the prefix "/mnt/root/"; the deviant glues the name on without the separator (a different file).
	"Remove:errpath-glued-prefix@prefix", "Stat:errpath-glued-prefix@prefix", "Open:errpath-glued-prefix@prefix",
	// a successful call returns a non-nil error interface holding a nil pointer (the classic typed-nil mistake)
	"Chtimes:typed-nil-error", "Mkdir:typed-nil-error", "Chmod:typed-nil-error", "Remove:typed-nil-error",
	// an operation that should succeed fails with an "operation not supported" errno that is NOT ErrNotImplemented
	// the correct *PathError wrapped in another error type; io.EOF wrapped in a *PathError on a ReadAt that fills the buffer
	"Mkdir:wrapped-patherror", "Open:wrapped-patherror", "OpenFile:wrapped-patherror", "Remove:wrapped-patherror", "Stat:wrapped-patherror", "Chmod:wrapped-patherror", "Chtimes:wrapped-patherror",
	"ReadAt:wrapped-eof-on-full-read",
	// Name() of an info is the whole path the file was addressed by (visible for nested files only); a positional write
	// beyond the end leaves stale bytes in the gap; a complete handle listing (n <= 0) names every entry twice
	"Stat:name-full-path", "FileStat:name-full-path", "WriteAt:gap-garbage", "ReadDir:all-twice",
	// (the same on a file system that lists correctly by name: only the handle's complete listing is wrong)
	"FSReadDir:handle-lists-all-twice",
	// the error names the right file in another spelling ("foo/", "./foo"): not the name the caller passed
	"Mkdir:errpath-trailing-slash", "OpenFile:errpath-trailing-slash", "Open:errpath-trailing-slash", "Remove:errpath-trailing-slash", "Stat:errpath-trailing-slash", "Rename:errpath-trailing-slash", "Chmod:errpath-trailing-slash",
	"Mkdir:errpath-dot-slash", "OpenFile:errpath-dot-slash", "Open:errpath-dot-slash", "Remove:errpath-dot-slash", "Stat:errpath-dot-slash", "Rename:errpath-dot-slash",
	// a file system that lists correctly by name, while the entries its directory HANDLES return say "not a directory" of
	// sub-directories (their Info() is right); a removed name that stays in its parent's listing as an entry whose
	// Info() answers "does not exist"
	"FSReadDir:handle-entries-deny-isdir", "Remove:leaves-ghost-entry", "FSReadDir:remove-leaves-ghost-entry",
	"Rename:fails-eopnotsupp", "Rename:cross-dir-fails-enotsup", "Mkdir:fails-eopnotsupp", "MkdirAll:fails-enotsup", "Remove:fails-eopnotsupp", "Chmod:fails-enotsup", "Chtimes:fails-eopnotsupp", "OpenFile:create-fails-eopnotsupp",
}

// unsupported reports whether the deviant in effect makes 'op' fail with a not-supported errno, and which.
func (d *DevFS) unsupported(op string) error {
	switch d.Dev {
	case op + ":fails-eopnotsupp":
		d.fire()
		return syscall.EOPNOTSUPP
	case op + ":fails-enotsup":
		d.fire()
		return syscall.ENOTSUP
	}
	return nil
}

// DevFS wraps a fresh mem.FS; Dev names the one behaviour that differs ("" = none).
type DevFS struct {
	inner *mem.FS
	Dev   string
	Fired *int64
	// Prefixed: error paths carry the outer prefix "/mnt/root/" (the suite then runs with AllowErrPathPrefix)
	Prefixed bool
	twice    sync.Map // directory -> base name that this directory lists twice (…-listed-twice-in-subdir)
	ghostMu  sync.Mutex
	ghosts   map[string][]string // directory -> names removed from it that its listing still shows (…leaves-ghost-entry)
}

// ghostEntry is a listed name that is not there: Info() says so.
type ghostEntry struct{ name string }

func (g ghostEntry) Name() string             { return g.name }
func (g ghostEntry) IsDir() bool              { return false }
func (g ghostEntry) Type() hackpadfs.FileMode { return 0 }
func (g ghostEntry) Info() (hackpadfs.FileInfo, error) {
	return nil, &hackpadfs.PathError{Op: "stat", Path: g.name, Err: hackpadfs.ErrNotExist}
}

func (d *DevFS) leavesGhosts() bool {
	return d.is("Remove:leaves-ghost-entry") || d.is("FSReadDir:remove-leaves-ghost-entry")
}

// withGhosts adds the removed names of dir that have not been created again since.
func (d *DevFS) withGhosts(dir string, entries []hackpadfs.DirEntry) []hackpadfs.DirEntry {
	if !d.leavesGhosts() {
		return entries
	}
	d.ghostMu.Lock()
	defer d.ghostMu.Unlock()
	for _, g := range d.ghosts[path.Clean(dir)] {
		present := false
		for _, e := range entries {
			present = present || e.Name() == g
		}
		if _, err := d.inner.Stat(path.Join(dir, g)); err == nil || present {
			continue
		}
		d.fire()
		entries = append(entries, ghostEntry{g})
	}
	return entries
}

// DevFSRD is a DevFS that also lists directories by name (ReadDirFS); used for the "FSReadDir:" deviants and their baseline.
type DevFSRD struct{ *DevFS }

type renamedEntry struct {
	hackpadfs.DirEntry
	name string
}

func (r renamedEntry) Name() string { return r.name }

func (d DevFSRD) ReadDir(name string) ([]hackpadfs.DirEntry, error) {
	f, err := d.inner.Open(name)
	if err != nil {
		return nil, d.errDev("Open", err)
	}
	defer func() { _ = f.Close() }()
	entries, err := hackpadfs.ReadDirFile(f, -1)
	if err != nil {
		return nil, err
	}
	entries = d.withGhosts(name, entries)
	sort.Slice(entries, func(i, j int) bool { return entries[i].Name() < entries[j].Name() })
	switch {
	case d.is("FSReadDir:unclean-root-names") && name == ".", d.is("FSReadDir:unclean-subdir-names") && name != ".":
		for i, e := range entries {
			d.fire()
			entries[i] = renamedEntry{e, "./" + e.Name()} // cleans to a valid name, but is not one
		}
	case d.is("FSReadDir:unsorted") && len(entries) > 1:
		d.fire()
		entries[0], entries[len(entries)-1] = entries[len(entries)-1], entries[0]
	}
	return entries, nil
}

// NewFS returns the deviant as the interface value the suite gets: with or without the FS-level ReadDir.
func NewFS(dev string, fired *int64) interface {
	hackpadfs.FS
	hackpadfs.MkdirFS
	hackpadfs.OpenFileFS
} {
	d := New(dev, fired)
	if strings.HasPrefix(dev, "FSReadDir:") {
		return DevFSRD{d}
	}
	return d
}

// New returns a deviant file system.
func New(dev string, fired *int64) *DevFS {
	m, err := mem.NewFS()
	if err != nil {
		panic(err)
	}
	return &DevFS{inner: m, Dev: dev, Fired: fired, Prefixed: strings.HasSuffix(dev, "@prefix") || dev == "@prefix"}
}

func (d *DevFS) is(dev string) bool { return d.Dev == dev }

func (d *DevFS) fire() { atomic.AddInt64(d.Fired, 1) }

// devErr is the error type behind the typed-nil deviants.
type devErr struct{}

func (*devErr) Error() string { return "dev error" }

// WithPathPrefix: every error path is reported below "/mnt/root/" (what AllowErrPathPrefix permits).
const errPathPrefix = "/mnt/root/"

// errDev applies the error deviations of operation op to err.
func (d *DevFS) errDev(op string, err error) error {
	if err == nil {
		if d.Dev == op+":typed-nil-error" {
			d.fire()
			var e *devErr
			return e // non-nil interface, nil pointer
		}
		return nil
	}
	if d.Prefixed && !errors.Is(err, hackpadfs.ErrInvalid) { // (invalid names are refused as given, before any path translation)
		glue := errPathPrefix
		if d.Dev == op+":errpath-glued-prefix@prefix" {
			d.fire()
			glue = strings.TrimSuffix(errPathPrefix, "/") // "/mnt/root" + "foo": names another file
		}
		switch e := err.(type) {
		case *hackpadfs.PathError:
			return &hackpadfs.PathError{Op: e.Op, Path: glue + e.Path, Err: e.Err}
		case *hackpadfs.LinkError:
			return &hackpadfs.LinkError{Op: e.Op, Old: glue + e.Old, New: glue + e.New, Err: e.Err}
		}
		return err
	}
	if alt, ok := map[string][2]error{
		"Remove:notempty-as-exist":  {hackpadfs.ErrNotEmpty, hackpadfs.ErrExist},
		"Mkdir:exist-as-isdir":      {hackpadfs.ErrExist, hackpadfs.ErrIsDir},
		"Remove:notexist-as-notdir": {hackpadfs.ErrNotExist, hackpadfs.ErrNotDir},
	}[d.Dev]; ok && strings.HasPrefix(d.Dev, op+":") && errors.Is(err, alt[0]) {
		d.fire()
		switch e := err.(type) {
		case *hackpadfs.PathError:
			return &hackpadfs.PathError{Op: e.Op, Path: e.Path, Err: alt[1]}
		case *hackpadfs.LinkError:
			return &hackpadfs.LinkError{Op: e.Op, Old: e.Old, New: e.New, Err: alt[1]}
		}
		return alt[1]
	}
	switch d.Dev {
	case op + ":wrong-errkind":
		d.fire()
		swap := func(e error) error {
			switch {
			case errors.Is(e, hackpadfs.ErrNotExist):
				return hackpadfs.ErrExist
			case errors.Is(e, hackpadfs.ErrExist):
				return hackpadfs.ErrNotExist
			case errors.Is(e, hackpadfs.ErrNotEmpty):
				return hackpadfs.ErrNotDir
			case errors.Is(e, hackpadfs.ErrIsDir):
				return hackpadfs.ErrNotDir
			case errors.Is(e, hackpadfs.ErrNotDir):
				return hackpadfs.ErrIsDir
			}
			return hackpadfs.ErrPermission
		}
		switch e := err.(type) {
		case *hackpadfs.PathError:
			return &hackpadfs.PathError{Op: e.Op, Path: e.Path, Err: swap(e.Err)}
		case *hackpadfs.LinkError:
			return &hackpadfs.LinkError{Op: e.Op, Old: e.Old, New: e.New, Err: swap(e.Err)}
		}
		return swap(err)
	case op + ":wrong-errpath":
		switch e := err.(type) {
		case *hackpadfs.PathError:
			d.fire()
			return &hackpadfs.PathError{Op: e.Op, Path: "inner/" + e.Path, Err: e.Err}
		case *hackpadfs.LinkError:
			d.fire()
			return &hackpadfs.LinkError{Op: e.Op, Old: "inner/" + e.Old, New: e.New, Err: e.Err}
		}
	case op + ":errpath-trailing-slash", op + ":errpath-dot-slash":
		respell := func(p string) string {
			if strings.HasSuffix(d.Dev, "trailing-slash") {
				return p + "/"
			}
			return "./" + p
		}
		switch e := err.(type) {
		case *hackpadfs.PathError:
			d.fire()
			return &hackpadfs.PathError{Op: e.Op, Path: respell(e.Path), Err: e.Err}
		case *hackpadfs.LinkError:
			d.fire()
			return &hackpadfs.LinkError{Op: e.Op, Old: respell(e.Old), New: respell(e.New), Err: e.Err}
		}
	case op + ":wrong-errop":
		switch e := err.(type) {
		case *hackpadfs.PathError:
			d.fire()
			return &hackpadfs.PathError{Op: e.Op + "x", Path: e.Path, Err: e.Err}
		case *hackpadfs.LinkError:
			d.fire()
			return &hackpadfs.LinkError{Op: e.Op + "x", Old: e.Old, New: e.New, Err: e.Err}
		}
	case op + ":wrong-errpath-new":
		if e, ok := err.(*hackpadfs.LinkError); ok {
			d.fire()
			return &hackpadfs.LinkError{Op: e.Op, Old: e.Old, New: e.Old, Err: e.Err}
		}
	case op + ":wrapped-patherror":
		// the right *PathError, but inside another error: callers (and the documentation) promise the type itself
		if _, ok := err.(*hackpadfs.PathError); ok {
			d.fire()
			return fmt.Errorf("while working: %w", err)
		}
	case op + ":wrong-errtype":
		switch e := err.(type) {
		case *hackpadfs.PathError:
			d.fire()
			return e.Err
		case *hackpadfs.LinkError:
			d.fire()
			return e.Err
		}
	}
	return err
}

func (d *DevFS) Open(name string) (hackpadfs.File, error) {
	f, err := d.inner.Open(name)
	return d.wrapFile(f, name), d.errDev("Open", err)
}

func (d *DevFS) OpenFile(name string, flag int, perm hackpadfs.FileMode) (hackpadfs.File, error) {
	if d.is("OpenFile:create-fails-eopnotsupp") && flag&hackpadfs.FlagCreate != 0 {
		d.fire()
		return nil, &hackpadfs.PathError{Op: "open", Path: name, Err: syscall.EOPNOTSUPP}
	}
	switch {
	case d.is("OpenFile:wrong-perm") && flag&hackpadfs.FlagCreate != 0:
		d.fire()
		perm ^= 0o040
	case d.is("OpenFile:ignore-excl") && flag&hackpadfs.FlagExclusive != 0:
		d.fire()
		flag &^= hackpadfs.FlagExclusive
	case d.is("OpenFile:ignore-trunc") && flag&hackpadfs.FlagTruncate != 0:
		d.fire()
		flag &^= hackpadfs.FlagTruncate
	case d.is("OpenFile:ignore-append") && flag&hackpadfs.FlagAppend != 0:
		d.fire()
		flag &^= hackpadfs.FlagAppend
	case d.is("OpenFile:create-without-flag") && flag&hackpadfs.FlagCreate == 0 && flag&(hackpadfs.FlagWriteOnly|hackpadfs.FlagReadWrite) != 0:
		if _, err := d.inner.Stat(name); errors.Is(err, hackpadfs.ErrNotExist) {
			d.fire()
			flag |= hackpadfs.FlagCreate
		}
	case d.is("OpenFile:dir-writable") && flag&(hackpadfs.FlagWriteOnly|hackpadfs.FlagReadWrite) != 0:
		if info, err := d.inner.Stat(name); err == nil && info.IsDir() {
			d.fire()
			f, err := d.inner.Open(name)
			return d.wrapFile(f, name), err
		}
	}
	f, err := d.inner.OpenFile(name, flag, perm)
	return d.wrapFile(f, name), d.errDev("OpenFile", err)
}

func (d *DevFS) Mkdir(name string, perm hackpadfs.FileMode) error {
	if e := d.unsupported("Mkdir"); e != nil {
		return &hackpadfs.PathError{Op: "mkdir", Path: name, Err: e}
	}
	switch {
	case d.is("Mkdir:noop"):
		if _, err := d.inner.Stat(name); err != nil {
			if _, perr := d.inner.Stat(parentOf(name)); perr == nil {
				d.fire()
				return nil
			}
		}
	case d.is("Mkdir:wrong-perm"):
		d.fire()
		perm ^= 0o040
	case d.is("Mkdir:creates-parents"):
		if _, perr := d.inner.Stat(parentOf(name)); perr != nil {
			d.fire()
			return d.inner.MkdirAll(name, perm)
		}
	}
	err := d.inner.Mkdir(name, perm)
	if err == nil && d.is("Mkdir:listed-twice-in-subdir") && parentOf(name) != "." {
		d.twice.Store(parentOf(name), name[strings.LastIndex(name, "/")+1:])
	}
	return d.errDev("Mkdir", err)
}

func parentOf(name string) string {
	if i := strings.LastIndex(name, "/"); i > 0 {
		return name[:i]
	}
	return "."
}

func (d *DevFS) MkdirAll(path string, perm hackpadfs.FileMode) error {
	if e := d.unsupported("MkdirAll"); e != nil {
		return &hackpadfs.PathError{Op: "mkdir", Path: path, Err: e}
	}
	switch {
	case d.is("MkdirAll:noop"):
		if _, err := d.inner.Stat(path); err != nil {
			d.fire()
			return nil
		}
	case d.is("MkdirAll:partial"):
		if i := strings.Index(path, "/"); i > 0 {
			if _, err := d.inner.Stat(path); err != nil {
				d.fire()
				return d.inner.MkdirAll(path[:i], perm)
			}
		}
	case d.is("MkdirAll:wrong-perm"):
		d.fire()
		perm ^= 0o040
	case d.is("MkdirAll:accepts-file-in-path"):
		if err := d.inner.MkdirAll(path, perm); err != nil && errors.Is(err, hackpadfs.ErrNotDir) {
			d.fire()
			return nil
		} else {
			return err
		}
	}
	return d.errDev("MkdirAll", d.inner.MkdirAll(path, perm))
}

func (d *DevFS) Remove(name string) error {
	if e := d.unsupported("Remove"); e != nil {
		return &hackpadfs.PathError{Op: "remove", Path: name, Err: e}
	}
	switch {
	case d.is("Remove:noop"):
		if _, err := d.inner.Stat(name); err == nil {
			if err := d.probeRemovable(name); err == nil {
				d.fire()
				return nil
			}
		}
	case d.is("Remove:nonempty-allowed"):
		if err := d.inner.Remove(name); err != nil && errors.Is(err, hackpadfs.ErrNotEmpty) {
			d.fire()
			return hackpadfs.RemoveAll(d.inner, name)
		} else {
			return err
		}
	case d.is("Remove:leaves-entry-as-empty-file"):
		if info, err := d.inner.Stat(name); err == nil && !info.IsDir() {
			d.fire()
			f, err := d.inner.OpenFile(name, hackpadfs.FlagWriteOnly|hackpadfs.FlagTruncate, 0)
			if err == nil {
				_ = f.Close()
			}
			return nil
		}
	}
	err := d.inner.Remove(name)
	if err == nil && d.leavesGhosts() {
		d.ghostMu.Lock()
		if d.ghosts == nil {
			d.ghosts = map[string][]string{}
		}
		dir := path.Dir(path.Clean(name))
		d.ghosts[dir] = append(d.ghosts[dir], path.Base(name))
		d.ghostMu.Unlock()
	}
	return d.errDev("Remove", err)
}

// probeRemovable reports the error a real Remove would give, without removing.
func (d *DevFS) probeRemovable(name string) error {
	info, err := d.inner.Stat(name)
	if err != nil {
		return err
	}
	if info.IsDir() {
		entries, err := hackpadfs.ReadDir(d.inner, name)
		if err != nil {
			return err
		}
		if len(entries) > 0 {
			return hackpadfs.ErrNotEmpty
		}
	}
	return nil
}

func (d *DevFS) Rename(oldname, newname string) error {
	if e := d.unsupported("Rename"); e != nil {
		return &hackpadfs.LinkError{Op: "rename", Old: oldname, New: newname, Err: e}
	}
	if d.is("Rename:cross-dir-fails-enotsup") && parentOf(oldname) != parentOf(newname) {
		d.fire()
		return &hackpadfs.LinkError{Op: "rename", Old: oldname, New: newname, Err: syscall.ENOTSUP}
	}
	switch {
	case d.is("Rename:source-left"):
		if info, err := d.inner.Stat(oldname); err == nil && !info.IsDir() {
			data, _ := hackpadfs.ReadFile(d.inner, oldname)
			if err := d.inner.Rename(oldname, newname); err != nil {
				return err
			}
			d.fire()
			return hackpadfs.WriteFullFile(d.inner, oldname, data, info.Mode())
		}
	case d.is("Rename:noop"):
		if _, err := d.inner.Stat(oldname); err == nil {
			if _, perr := d.inner.Stat(parentOf(newname)); perr == nil && oldname != newname {
				if info, nerr := d.inner.Stat(newname); nerr != nil || !info.IsDir() {
					d.fire()
					return nil
				}
			}
		}
	case d.is("Rename:wrong-bytes"):
		if info, err := d.inner.Stat(oldname); err == nil && !info.IsDir() && info.Size() > 0 {
			if err := d.inner.Rename(oldname, newname); err != nil {
				return err
			}
			d.fire()
			data, _ := hackpadfs.ReadFile(d.inner, newname)
			data[0] ^= 0x20
			return hackpadfs.WriteFullFile(d.inner, newname, data, info.Mode())
		}
	}
	err := d.inner.Rename(oldname, newname)
	if err == nil && d.is("Rename:dest-listed-twice-in-subdir") && parentOf(newname) != "." {
		d.twice.Store(parentOf(newname), newname[strings.LastIndex(newname, "/")+1:])
	}
	return d.errDev("Rename", err)
}

type devInfo struct {
	hackpadfs.FileInfo
	size *int64
	mode *hackpadfs.FileMode
	name string
}

func (i devInfo) Size() int64 {
	if i.size != nil {
		return *i.size
	}
	return i.FileInfo.Size()
}
func (i devInfo) Mode() hackpadfs.FileMode {
	if i.mode != nil {
		return *i.mode
	}
	return i.FileInfo.Mode()
}
func (i devInfo) Name() string {
	if i.name != "" {
		return i.name
	}
	return i.FileInfo.Name()
}

func (d *DevFS) Stat(name string) (hackpadfs.FileInfo, error) {
	info, err := d.inner.Stat(name)
	if err != nil {
		return nil, d.errDev("Stat", err)
	}
	switch {
	case d.is("Stat:wrong-size") && !info.IsDir():
		d.fire()
		s := info.Size() + 1
		return devInfo{FileInfo: info, size: &s}, nil
	case d.is("Stat:wrong-mode"):
		d.fire()
		m := info.Mode() ^ 0o040
		return devInfo{FileInfo: info, mode: &m}, nil
	case d.is("Stat:wrong-name"):
		d.fire()
		return devInfo{FileInfo: info, name: info.Name() + "~"}, nil
	case d.is("Stat:name-full-path") && strings.Contains(name, "/"):
		d.fire()
		return devInfo{FileInfo: info, name: name}, nil
	}
	return info, nil
}

func (d *DevFS) Chmod(name string, mode hackpadfs.FileMode) error {
	if e := d.unsupported("Chmod"); e != nil {
		return &hackpadfs.PathError{Op: "chmod", Path: name, Err: e}
	}
	switch {
	case d.is("Chmod:noop"):
		if _, err := d.inner.Stat(name); err == nil {
			d.fire()
			return nil
		}
	case d.is("Chmod:wrong-bits"):
		d.fire()
		mode ^= 0o040
	}
	return d.errDev("Chmod", d.inner.Chmod(name, mode))
}

func (d *DevFS) Chtimes(name string, atime, mtime time.Time) error {
	if e := d.unsupported("Chtimes"); e != nil {
		return &hackpadfs.PathError{Op: "chtimes", Path: name, Err: e}
	}
	switch {
	case d.is("Chtimes:noop"):
		if _, err := d.inner.Stat(name); err == nil {
			d.fire()
			return nil
		}
	case d.is("Chtimes:wrong-time"):
		d.fire()
		mtime = mtime.Add(time.Hour)
	}
	return d.errDev("Chtimes", d.inner.Chtimes(name, atime, mtime))
}

// ---- files

type devFile struct {
	d         *DevFS
	f         hackpadfs.File
	name      string
	closed    bool
	lateEOF   int
	pages     int
	openSize  int64
	delivered bool
}

// The three wrapper shapes keep the method set of the handle kind they wrap.
type devFileRW struct{ *devFile }
type devFileRO struct{ *devFile }
type devFileWO struct{ *devFile }

func (d *DevFS) wrapFile(f hackpadfs.File, name string) hackpadfs.File {
	if f == nil {
		return nil
	}
	df := &devFile{d: d, f: f, name: name}
	if info, err := f.Stat(); err == nil {
		df.openSize = info.Size()
	}
	_, canWrite := f.(io.Writer)
	_, canReadAt := f.(io.ReaderAt)
	switch {
	case canWrite && canReadAt:
		return devFileRW{df}
	case canWrite:
		return devFileWO{df}
	}
	return devFileRO{df}
}

func (f *devFile) Stat() (hackpadfs.FileInfo, error) {
	info, err := f.f.Stat()
	if err != nil {
		return nil, err
	}
	d := f.d
	switch {
	case d.is("FileStat:wrong-size") && !info.IsDir():
		d.fire()
		s := info.Size() + 1
		return devInfo{FileInfo: info, size: &s}, nil
	case d.is("FileStat:stale-size") && !info.IsDir() && info.Size() != f.openSize:
		d.fire()
		return devInfo{FileInfo: info, size: &f.openSize}, nil
	case d.is("FileStat:wrong-mode"):
		d.fire()
		m := info.Mode() ^ 0o040
		return devInfo{FileInfo: info, mode: &m}, nil
	case d.is("FileStat:name-full-path") && strings.Contains(f.name, "/"):
		d.fire()
		return devInfo{FileInfo: info, name: f.name}, nil
	}
	return info, nil
}

func (f *devFile) Close() error {
	d := f.d
	if f.closed {
		if d.is("Close:second-close-succeeds") {
			d.fire()
			return nil
		}
		return f.f.Close()
	}
	f.closed = true
	if d.is("Close:keeps-handle-usable") {
		d.fire()
		return nil // reports success but never closes the underlying handle
	}
	return f.f.Close()
}

func (f *devFile) Read(p []byte) (int, error) {
	d := f.d
	switch {
	case d.is("Read:offset-not-advanced") && len(p) > 0:
		if s, ok := f.f.(io.Seeker); ok {
			pos, _ := s.Seek(0, io.SeekCurrent)
			n, err := f.f.Read(p)
			if n > 0 {
				d.fire()
				_, _ = s.Seek(pos, io.SeekStart)
			}
			return n, err
		}
	}
	n, err := f.f.Read(p)
	if n > 0 {
		f.delivered = true
	}
	switch {
	case d.is("Read:wrong-bytes") && n > 0:
		d.fire()
		p[n-1] ^= 0x01
	case d.is("Read:late-eof") && err == io.EOF && f.lateEOF < 2:
		d.fire()
		f.lateEOF++
		return n, nil
	case d.is("Read:no-eof-after-data") && err == io.EOF && f.delivered && f.lateEOF < 200:
		d.fire()
		f.lateEOF++
		return n, nil
	case d.is("Read:early-eof") && n > 1 && err == nil:
		d.fire()
		return n, io.EOF
	case d.is("Read:drops-byte") && n > 1:
		d.fire()
		return n - 1, err
	}
	return n, err
}

func (f *devFile) ReadDir(n int) ([]hackpadfs.DirEntry, error) {
	d := f.d
	if d.is("ReadDir:cursor-stuck") && n > 0 {
		// every page is read from a fresh handle: the cursor never advances, io.EOF is never reached on a non-empty directory
		if g, err := d.inner.Open(f.name); err == nil {
			defer func() { _ = g.Close() }()
			// (the complete listing, sorted, cut to n: the order of a fresh handle's pages is not fixed, the deviation must be)
			entries, err := hackpadfs.ReadDirFile(g, -1)
			sort.Slice(entries, func(i, j int) bool { return entries[i].Name() < entries[j].Name() })
			if len(entries) > n {
				entries = entries[:n]
			}
			if f.pages > 0 && len(entries) > 0 {
				d.fire()
			}
			f.pages++
			if len(entries) == 0 && err == nil {
				err = io.EOF
			}
			return entries, err
		}
	}
	if d.is("ReadDir:second-page-empty-nil") && n > 0 && f.pages > 0 {
		f.pages++
		d.fire()
		return nil, nil
	}
	f.pages++
	if d.is("ReadDir:ignores-n") && n > 0 {
		d.fire()
		n = -1
	}
	entries, err := hackpadfs.ReadDirFile(f.f, n)
	if f.pages == 1 && (err == nil || err == io.EOF) {
		if with := d.withGhosts(f.name, entries); len(with) > len(entries) {
			entries, err = with, nil
		}
	}
	switch {
	case d.is("FSReadDir:handle-entries-deny-isdir"):
		for i, e := range entries {
			if e.IsDir() {
				d.fire()
				entries[i] = flippedEntry{e}
			}
		}
	case d.is("ReadDir:missing-entry") && len(entries) > 1:
		d.fire()
		sort.Slice(entries, func(i, j int) bool { return entries[i].Name() < entries[j].Name() })
		entries = entries[:len(entries)-1]
	case d.is("ReadDir:duplicate-entry") && len(entries) > 0:
		d.fire()
		entries = append(entries, entries[0])
	case (d.is("ReadDir:all-twice") || d.is("FSReadDir:handle-lists-all-twice")) && n <= 0 && len(entries) > 0:
		d.fire()
		entries = append(entries, entries...)
	case d.is("Rename:dest-listed-twice-in-subdir") || d.is("Mkdir:listed-twice-in-subdir"):
		if base, ok := d.twice.Load(f.name); ok {
			for _, e := range entries {
				if e.Name() == base.(string) {
					d.fire()
					entries = append(entries, e)
					break
				}
			}
		}
	case d.is("ReadDir:duplicate-in-subdir") && len(entries) > 0 && f.name != "." && f.name != "":
		d.fire()
		entries = append(entries, entries[len(entries)-1])
	case d.is("ReadDir:wrong-isdir") && len(entries) > 0:
		d.fire()
		entries[0] = flippedEntry{entries[0]}
	case d.is("ReadDir:no-eof") && err == io.EOF:
		d.fire()
		return entries, nil
	}
	return entries, err
}

type flippedEntry struct{ hackpadfs.DirEntry }

func (e flippedEntry) IsDir() bool { return !e.DirEntry.IsDir() }
func (e flippedEntry) Type() hackpadfs.FileMode {
	return e.DirEntry.Type() ^ hackpadfs.ModeDir
}

func (f *devFile) Seek(offset int64, whence int) (int64, error) {
	d := f.d
	switch {
	case d.is("Seek:noop"):
		if s, ok := f.f.(io.Seeker); ok {
			pos, _ := s.Seek(0, io.SeekCurrent)
			want, err := s.Seek(offset, whence)
			if err == nil && want != pos {
				d.fire()
				_, _ = s.Seek(pos, io.SeekStart)
			}
			return want, err
		}
	case d.is("Seek:negative-accepted") && whence == io.SeekStart && offset < 0:
		d.fire()
		return 0, nil
	case d.is("Seek:end-from-start") && whence == io.SeekEnd && offset != 0:
		d.fire()
		whence = io.SeekStart
		if offset < 0 {
			offset = -offset
		}
	}
	n, err := hackpadfs.SeekFile(f.f, offset, whence)
	if d.is("Seek:wrong-result") && err == nil {
		d.fire()
		n++
	}
	return n, err
}

func (f *devFile) Truncate(size int64) error {
	d := f.d
	switch {
	case d.is("Truncate:noop") && size >= 0:
		if info, err := f.f.Stat(); err == nil && info.Size() != size {
			d.fire()
			return nil
		}
	case d.is("Truncate:negative-accepted") && size < 0:
		d.fire()
		return nil
	case d.is("Truncate:off-by-one") && size > 0:
		d.fire()
		size--
	case d.is("Truncate:grow-garbage") && size > 0:
		if info, err := f.f.Stat(); err == nil && info.Size() < size {
			old := info.Size()
			if err := hackpadfs.TruncateFile(f.f, size); err != nil {
				return err
			}
			d.fire()
			_, _ = hackpadfs.WriteAtFile(f.f, []byte{'#'}, old)
			return nil
		}
	}
	return hackpadfs.TruncateFile(f.f, size)
}

func (f *devFile) Chmod(mode hackpadfs.FileMode) error { return hackpadfs.ChmodFile(f.f, mode) }

func (f *devFile) readAt(p []byte, off int64) (int, error) {
	d := f.d
	if d.is("ReadAt:negative-accepted") && off < 0 {
		d.fire()
		off = 0
	}
	if d.is("ReadAt:ignores-offset") && off > 0 {
		d.fire()
		off = 0
	}
	if d.is("ReadAt:moves-offset") && len(p) > 0 {
		if s, ok := f.f.(io.Seeker); ok {
			n, err := hackpadfs.ReadAtFile(f.f, p, off)
			d.fire()
			_, _ = s.Seek(off+int64(n), io.SeekStart)
			return n, err
		}
	}
	n, err := hackpadfs.ReadAtFile(f.f, p, off)
	switch {
	case d.is("ReadAt:wrapped-eof-on-full-read") && n == len(p) && n > 0 && (err == nil || err == io.EOF):
		if info, serr := f.f.Stat(); serr == nil && off+int64(n) == info.Size() {
			d.fire()
			return n, &hackpadfs.PathError{Op: "readat", Path: info.Name(), Err: io.EOF} // io.ReaderAt promises io.EOF itself
		}
	case d.is("ReadAt:wrong-bytes") && n > 0:
		d.fire()
		p[0] ^= 0x01
	case d.is("ReadAt:no-error-on-short") && n < len(p) && err == io.EOF:
		d.fire()
		return n, nil
	}
	return n, err
}

func (f *devFile) write(p []byte) (int, error) {
	d := f.d
	switch {
	case d.is("Write:noop") && len(p) > 0:
		d.fire()
		return len(p), nil
	case d.is("Write:twice") && len(p) > 0:
		d.fire()
		_, _ = hackpadfs.WriteFile(f.f, p)
	case d.is("Write:wrong-bytes") && len(p) > 0:
		d.fire()
		q := append([]byte(nil), p...)
		q[len(q)-1] ^= 0x01
		return hackpadfs.WriteFile(f.f, q)
	case d.is("Write:offset-not-advanced") && len(p) > 0:
		if s, ok := f.f.(io.Seeker); ok {
			pos, _ := s.Seek(0, io.SeekCurrent)
			n, err := hackpadfs.WriteFile(f.f, p)
			d.fire()
			_, _ = s.Seek(pos, io.SeekStart)
			return n, err
		}
	}
	n, err := hackpadfs.WriteFile(f.f, p)
	if d.is("Write:wrong-n") && n > 0 {
		d.fire()
		n--
	}
	return n, err
}

func (f *devFile) writeAt(p []byte, off int64) (int, error) {
	d := f.d
	switch {
	case d.is("WriteAt:noop") && len(p) > 0 && off >= 0:
		d.fire()
		return len(p), nil
	case d.is("WriteAt:negative-accepted") && off < 0:
		d.fire()
		off = 0
	case d.is("WriteAt:ignores-offset") && off > 0:
		d.fire()
		off = 0
	case d.is("WriteAt:moves-offset") && len(p) > 0:
		if s, ok := f.f.(io.Seeker); ok {
			n, err := hackpadfs.WriteAtFile(f.f, p, off)
			if err == nil {
				d.fire()
				_, _ = s.Seek(off+int64(n), io.SeekStart)
			}
			return n, err
		}
	}
	if d.is("WriteAt:gap-garbage") && len(p) > 0 {
		if info, err := f.f.Stat(); err == nil && off > info.Size() {
			size := info.Size() // (the info may be a live view of the file: read the size before writing)
			n, werr := hackpadfs.WriteAtFile(f.f, p, off)
			if werr == nil {
				d.fire()
				_, _ = hackpadfs.WriteAtFile(f.f, bytes.Repeat([]byte{0xAA}, int(off-size)), size) // what "was there" instead of zeros
			}
			return n, werr
		}
	}
	return hackpadfs.WriteAtFile(f.f, p, off)
}

func (f devFileRW) ReadAt(p []byte, off int64) (int, error)  { return f.readAt(p, off) }
func (f devFileRW) Write(p []byte) (int, error)              { return f.write(p) }
func (f devFileRW) WriteAt(p []byte, off int64) (int, error) { return f.writeAt(p, off) }
func (f devFileRO) ReadAt(p []byte, off int64) (int, error)  { return f.readAt(p, off) }
func (f devFileWO) Write(p []byte) (int, error)              { return f.write(p) }
func (f devFileWO) WriteAt(p []byte, off int64) (int, error) { return f.writeAt(p, off) }
