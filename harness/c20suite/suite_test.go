package c20suite

import (
	"fmt"
	"os"
	"strconv"
	"strings"
	"syscall"
	"testing"
	"time"

	"github.com/hack-pad/hackpadfs"
	"github.com/hack-pad/hackpadfs/fstest"
	"github.com/hack-pad/hackpadfs/mem"
	hpos "github.com/hack-pad/hackpadfs/os"
)

// TestMain clears the process umask, as the repository's own os tests do: the suite compares exact permission bits.
func TestMain(m *testing.M) {
	syscall.Umask(0)
	if h, err := strconv.Atoi(os.Getenv("C20_TZ_SHIFT")); err == nil && h != 0 {
		// the verdict on a file system must not depend on the zone the test process happens to run in
		time.Local = time.FixedZone(fmt.Sprintf("C20%+d", h), h*3600)
	}
	os.Exit(m.Run())
}

func memOptions(name string) fstest.FSOptions {
	return fstest.FSOptions{
		Name: name,
		TestFS: func(tb testing.TB) fstest.SetupFS {
			m, err := mem.NewFS()
			if err != nil {
				tb.Fatal(err)
			}
			return m
		},
	}
}

func osOptions(name string) fstest.FSOptions {
	return fstest.FSOptions{
		Name: name,
		TestFS: func(tb testing.TB) fstest.SetupFS {
			dir := tb.TempDir()
			fsys, err := hpos.NewFS().Sub(strings.TrimPrefix(dir, "/"))
			if err != nil {
				tb.Fatal(err)
			}
			return fsys.(fstest.SetupFS)
		},
	}
}

// TestC20Ref: the suite must accept both reference implementations.
func TestC20Ref(t *testing.T) {
	for _, ref := range []struct {
		name string
		opts func(string) fstest.FSOptions
	}{{"mem", memOptions}, {"os", osOptions}} {
		ref := ref
		t.Run(ref.name, func(t *testing.T) {
			d1 := fstest.FS(t, ref.opts(ref.name))
			d2 := fstest.File(t, ref.opts(ref.name))
			fmt.Printf("C20SKIPS %s %d %d\n", ref.name, len(d1.Skips), len(d2.Skips))
		})
	}
}

// TestC20Baseline: the wrapper without any deviation must be accepted (otherwise the wrapper, not the suite, is at fault).
func TestC20Baseline(t *testing.T) {
	var fired int64
	opts := fstest.FSOptions{Name: "baseline", TestFS: func(tb testing.TB) fstest.SetupFS { return New("", &fired) }}
	fstest.FS(t, opts)
	fstest.File(t, opts)
	// the wrapper that also lists by name at the FS level, without deviation
	t.Run("fs-readdir", func(t *testing.T) {
		ropts := fstest.FSOptions{Name: "baseline-fsreaddir", TestFS: func(tb testing.TB) fstest.SetupFS { return NewFS("FSReadDir:none", &fired).(fstest.SetupFS) }}
		fstest.FS(t, ropts)
		fstest.File(t, ropts)
	})
	// the same with prefixed error paths under AllowErrPathPrefix: must be accepted as well
	t.Run("prefixed", func(t *testing.T) {
		popts := fstest.FSOptions{Name: "baseline-prefixed", Constraints: fstest.Constraints{AllowErrPathPrefix: true}, TestFS: func(tb testing.TB) fstest.SetupFS { return New("@prefix", &fired) }}
		fstest.FS(t, popts)
		fstest.File(t, popts)
	})
}

// TestC20Deviants: one subtest per deviant; the suite must report at least one failure for each deviant whose
// deviating branch was actually reached by the suite's own scenarios.
func TestC20Deviants(t *testing.T) {
	only := os.Getenv("C20_ONLY")
	for _, dev := range Deviants {
		dev := dev
		if only != "" && !strings.Contains(","+only+",", ","+dev+",") {
			continue
		}
		t.Run(strings.ReplaceAll(dev, ":", "."), func(t *testing.T) {
			fired := new(int64)
			t.Cleanup(func() { fmt.Printf("C20FIRED %s %d\n", dev, *fired) })
			opts := fstest.FSOptions{Name: "dev", TestFS: func(tb testing.TB) fstest.SetupFS { return NewFS(dev, fired).(fstest.SetupFS) }}
			if strings.HasSuffix(dev, "@prefix") {
				opts.Constraints.AllowErrPathPrefix = true
			}
			fstest.FS(t, opts)
			fstest.File(t, opts)
		})
	}
}

// TestC20List prints the deviant catalogue for the driver.
func TestC20List(t *testing.T) {
	for _, d := range Deviants {
		fmt.Printf("C20DEV %s\n", d)
	}
}

var _ hackpadfs.FS = (*DevFS)(nil)
