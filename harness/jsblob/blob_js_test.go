//go:build js && wasm

// Package jsblob runs the shared blob programs (internal/blobprog) against the typed-array blob under GOOS=js (node).
package jsblob

import (
	"fmt"
	"math/rand"
	"os"
	"strconv"
	"testing"

	"hpverif/internal/blobprog"

	"github.com/hack-pad/hackpadfs/indexeddb/idbblob"
	"github.com/hack-pad/hackpadfs/keyvalue/blob"
)

func TestBlobPrograms(t *testing.T) {
	seed, _ := strconv.ParseInt(os.Getenv("VERIF_SEED"), 10, 64)
	nRandom, _ := strconv.Atoi(os.Getenv("C19_JS_RANDOM"))
	if nRandom == 0 {
		nRandom = 3000
	}
	opt := blobprog.Options{Impl: "idbblob", StrictErr: false, New: func(b []byte) blob.Blob {
		return idbblob.FromBlob(blob.NewBytes(append([]byte(nil), b...)))
	}}
	var st blobprog.Stats
	programs := 0
	seen := map[string]bool{}
	run := func(p blobprog.Program) {
		programs++
		for _, is := range blobprog.Exec(p, opt, &st) {
			if !seen[is.Sig] {
				seen[is.Sig] = true
				fmt.Printf("C19ISSUE %s\t%s\n", is.Sig, is.Detail)
			}
		}
	}
	for _, p := range blobprog.SingleCall(6) {
		run(p)
	}
	two := blobprog.TwoCall(2)
	for _, p := range two {
		run(p)
	}
	r := rand.New(rand.NewSource(seed*31 + 7))
	for i := 0; i < nRandom; i++ {
		run(blobprog.Random(r, 48, 12))
	}
	fmt.Printf("C19JS programs=%d calls=%d in_range=%d bad_args=%d self_sets=%d content_checks=%d\n", programs, st.Calls, st.InRange, st.BadArgs, st.SelfSets, st.ContentChecks)
}
