module hpverif

go 1.23

require (
	github.com/anishathalye/porcupine v1.3.0
	github.com/hack-pad/hackpadfs v0.0.0
)

replace github.com/hack-pad/hackpadfs => /repo
