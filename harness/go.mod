module hpverif

go 1.23

require (
	github.com/anishathalye/porcupine v1.3.0
	github.com/hack-pad/hackpadfs v0.0.0
)

require github.com/hack-pad/safejs v0.1.0 // indirect

replace github.com/hack-pad/hackpadfs => /repo
