// Command hpverif runs the runtime monitors for the hackpadfs properties C01..C20.
package main

import (
	"hpverif/internal/core"

	_ "hpverif/internal/props"
)

func main() { core.Main() }
