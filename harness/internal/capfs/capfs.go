// Package capfs wraps a file system so that it exposes exactly a chosen subset of the optional
// hackpadfs interfaces (and its files exactly a chosen subset of the optional file interfaces),
// logs every primitive the package helpers call on it, and can fail the k-th primitive call.
package capfs

import (
	"errors"
	"fmt"
	"sync"
	"time"

	"github.com/hack-pad/hackpadfs"
)

// ErrInjected is returned by the primitive chosen for fault injection.
var ErrInjected = errors.New("injected primitive failure")

// Base is shared by all generated wrapper types of one wrapped file system.
type Base struct {
	Inner     hackpadfs.FS
	FileMask  uint32 // file interfaces exposed on handles this FS returns
	mu        sync.Mutex
	Calls     []string // primitives called, in order
	FailAt    int      // index of the primitive call to fail (-1: none)
	Fired     bool
	Partial   bool // the failing file.Read / file.Write / file.ReadDir delivers part of its result together with the error
	Unwrapped int  // handles returned without a wrapper
}

// FSBit returns the bit of an FS interface name.
func FSBit(name string) uint32 {
	for i, n := range FSInterfaces {
		if n == name {
			return 1 << uint(i)
		}
	}
	panic("capfs: unknown FS interface " + name)
}

// FileBit returns the bit of a file interface name.
func FileBit(name string) uint32 {
	for i, n := range FileInterfaces {
		if n == name {
			return 1 << uint(i)
		}
	}
	panic("capfs: unknown file interface " + name)
}

// AllFS / AllFile are the masks with everything exposed.
var (
	AllFS   = uint32(1)<<uint(len(FSInterfaces)) - 1
	AllFile = uint32(1)<<uint(len(FileInterfaces)) - 1
)

// Native returns the mask of optional interfaces the file system implements itself.
func Native(fsys hackpadfs.FS) uint32 {
	var m uint32
	set := func(ok bool, name string) {
		if ok {
			m |= FSBit(name)
		}
	}
	_, ok := fsys.(hackpadfs.SubFS)
	set(ok, "Sub")
	_, ok = fsys.(hackpadfs.OpenFileFS)
	set(ok, "OpenFile")
	_, ok = fsys.(hackpadfs.CreateFS)
	set(ok, "Create")
	_, ok = fsys.(hackpadfs.MkdirFS)
	set(ok, "Mkdir")
	_, ok = fsys.(hackpadfs.MkdirAllFS)
	set(ok, "MkdirAll")
	_, ok = fsys.(hackpadfs.RemoveFS)
	set(ok, "Remove")
	_, ok = fsys.(hackpadfs.RemoveAllFS)
	set(ok, "RemoveAll")
	_, ok = fsys.(hackpadfs.RenameFS)
	set(ok, "Rename")
	_, ok = fsys.(hackpadfs.StatFS)
	set(ok, "Stat")
	_, ok = fsys.(hackpadfs.LstatFS)
	set(ok, "Lstat")
	_, ok = fsys.(hackpadfs.ChmodFS)
	set(ok, "Chmod")
	_, ok = fsys.(hackpadfs.ChownFS)
	set(ok, "Chown")
	_, ok = fsys.(hackpadfs.ChtimesFS)
	set(ok, "Chtimes")
	_, ok = fsys.(hackpadfs.ReadDirFS)
	set(ok, "ReadDir")
	_, ok = fsys.(hackpadfs.ReadFileFS)
	set(ok, "ReadFile")
	_, ok = fsys.(hackpadfs.WriteFileFS)
	set(ok, "WriteFile")
	_, ok = fsys.(hackpadfs.SymlinkFS)
	set(ok, "Symlink")
	_, ok = fsys.(hackpadfs.MountFS)
	set(ok, "Mount")
	return m
}

// New wraps inner exposing exactly 'mask' (which must be a subset of Native(inner)).
func New(inner hackpadfs.FS, mask, fileMask uint32) (hackpadfs.FS, *Base, error) {
	if mask&^Native(inner) != 0 {
		return nil, nil, fmt.Errorf("capfs: mask %#x asks for interfaces the inner FS lacks", mask)
	}
	ctor, ok := fsCtors[mask]
	if !ok {
		return nil, nil, fmt.Errorf("capfs: no generated wrapper type for mask %#x (regenerate with tools/gen_capfs.py)", mask)
	}
	b := &Base{Inner: inner, FileMask: fileMask, FailAt: -1}
	return ctor(b), b, nil
}

// HasMask reports whether a wrapper type was generated for mask.
func HasMask(mask uint32) bool { _, ok := fsCtors[mask]; return ok }

// MaskString lists the exposed interfaces.
func MaskString(mask uint32, names []string) string {
	s := ""
	for i, n := range names {
		if mask&(1<<uint(i)) != 0 {
			if s != "" {
				s += "+"
			}
			s += n
		}
	}
	if s == "" {
		return "none"
	}
	return s
}

// call logs a primitive and decides whether to fail it.
func (b *Base) call(name string) error {
	b.mu.Lock()
	defer b.mu.Unlock()
	idx := len(b.Calls)
	b.Calls = append(b.Calls, name)
	if idx == b.FailAt {
		b.Fired = true
		return ErrInjected
	}
	return nil
}

// Reset clears the call log.
func (b *Base) Reset(failAt int) {
	b.mu.Lock()
	b.Calls, b.FailAt, b.Fired, b.Partial = nil, failAt, false, false
	b.mu.Unlock()
}

func (b *Base) wrapFile(f hackpadfs.File, err error, name string) (hackpadfs.File, error) {
	if err != nil || f == nil {
		return f, err
	}
	fb := &fileBase{inner: f, b: b, name: name}
	m := b.FileMask & nativeFile(f)
	ctor, ok := fileCtors[m]
	if !ok {
		b.mu.Lock()
		b.Unwrapped++ // no generated type for this subset: the handle is passed through (counted, never silent)
		b.mu.Unlock()
		return f, nil
	}
	return ctor(fb), nil
}

func nativeFile(f hackpadfs.File) uint32 {
	var m uint32
	if _, ok := f.(hackpadfs.ReadWriterFile); ok {
		m |= FileBit("Write")
	}
	if _, ok := f.(hackpadfs.ReaderAtFile); ok {
		m |= FileBit("ReadAt")
	}
	if _, ok := f.(hackpadfs.WriterAtFile); ok {
		m |= FileBit("WriteAt")
	}
	if _, ok := f.(hackpadfs.DirReaderFile); ok {
		m |= FileBit("ReadDir")
	}
	if _, ok := f.(hackpadfs.SeekerFile); ok {
		m |= FileBit("Seek")
	}
	if _, ok := f.(hackpadfs.SyncerFile); ok {
		m |= FileBit("Sync")
	}
	if _, ok := f.(hackpadfs.TruncaterFile); ok {
		m |= FileBit("Truncate")
	}
	if _, ok := f.(hackpadfs.ChmoderFile); ok {
		m |= FileBit("Chmod")
	}
	if _, ok := f.(hackpadfs.ChownerFile); ok {
		m |= FileBit("Chown")
	}
	if _, ok := f.(hackpadfs.ChtimeserFile); ok {
		m |= FileBit("Chtimes")
	}
	return m
}

func (b *Base) open(name string) (hackpadfs.File, error) {
	if err := b.call("Open"); err != nil {
		return nil, &hackpadfs.PathError{Op: "open", Path: name, Err: err}
	}
	f, err := b.Inner.Open(name)
	return b.wrapFile(f, err, name)
}
func (b *Base) sub(dir string) (hackpadfs.FS, error) {
	if err := b.call("Sub"); err != nil {
		return nil, &hackpadfs.PathError{Op: "sub", Path: dir, Err: err}
	}
	return b.Inner.(hackpadfs.SubFS).Sub(dir)
}
func (b *Base) openFile(name string, flag int, perm hackpadfs.FileMode) (hackpadfs.File, error) {
	if err := b.call("OpenFile"); err != nil {
		return nil, &hackpadfs.PathError{Op: "open", Path: name, Err: err}
	}
	f, err := b.Inner.(hackpadfs.OpenFileFS).OpenFile(name, flag, perm)
	return b.wrapFile(f, err, name)
}
func (b *Base) create(name string) (hackpadfs.File, error) {
	if err := b.call("Create"); err != nil {
		return nil, &hackpadfs.PathError{Op: "create", Path: name, Err: err}
	}
	f, err := b.Inner.(hackpadfs.CreateFS).Create(name)
	return b.wrapFile(f, err, name)
}
func (b *Base) mkdir(name string, perm hackpadfs.FileMode) error {
	if err := b.call("Mkdir"); err != nil {
		return &hackpadfs.PathError{Op: "mkdir", Path: name, Err: err}
	}
	return b.Inner.(hackpadfs.MkdirFS).Mkdir(name, perm)
}
func (b *Base) mkdirAll(path string, perm hackpadfs.FileMode) error {
	if err := b.call("MkdirAll"); err != nil {
		return &hackpadfs.PathError{Op: "mkdirall", Path: path, Err: err}
	}
	return b.Inner.(hackpadfs.MkdirAllFS).MkdirAll(path, perm)
}
func (b *Base) remove(name string) error {
	if err := b.call("Remove"); err != nil {
		return &hackpadfs.PathError{Op: "remove", Path: name, Err: err}
	}
	return b.Inner.(hackpadfs.RemoveFS).Remove(name)
}
func (b *Base) removeAll(name string) error {
	if err := b.call("RemoveAll"); err != nil {
		return &hackpadfs.PathError{Op: "removeall", Path: name, Err: err}
	}
	return b.Inner.(hackpadfs.RemoveAllFS).RemoveAll(name)
}
func (b *Base) rename(oldname, newname string) error {
	if err := b.call("Rename"); err != nil {
		if b.Partial { // (second fault flavour for Rename: a bare error, as a store failure passed through unwrapped)
			return err
		}
		return &hackpadfs.LinkError{Op: "rename", Old: oldname, New: newname, Err: err}
	}
	return b.Inner.(hackpadfs.RenameFS).Rename(oldname, newname)
}
func (b *Base) stat(name string) (hackpadfs.FileInfo, error) {
	if err := b.call("Stat"); err != nil {
		return nil, &hackpadfs.PathError{Op: "stat", Path: name, Err: err}
	}
	return b.Inner.(hackpadfs.StatFS).Stat(name)
}
func (b *Base) lstat(name string) (hackpadfs.FileInfo, error) {
	if err := b.call("Lstat"); err != nil {
		return nil, &hackpadfs.PathError{Op: "lstat", Path: name, Err: err}
	}
	return b.Inner.(hackpadfs.LstatFS).Lstat(name)
}
func (b *Base) chmod(name string, mode hackpadfs.FileMode) error {
	if err := b.call("Chmod"); err != nil {
		return &hackpadfs.PathError{Op: "chmod", Path: name, Err: err}
	}
	return b.Inner.(hackpadfs.ChmodFS).Chmod(name, mode)
}
func (b *Base) chown(name string, uid, gid int) error {
	if err := b.call("Chown"); err != nil {
		return &hackpadfs.PathError{Op: "chown", Path: name, Err: err}
	}
	return b.Inner.(hackpadfs.ChownFS).Chown(name, uid, gid)
}
func (b *Base) chtimes(name string, atime, mtime time.Time) error {
	if err := b.call("Chtimes"); err != nil {
		return &hackpadfs.PathError{Op: "chtimes", Path: name, Err: err}
	}
	return b.Inner.(hackpadfs.ChtimesFS).Chtimes(name, atime, mtime)
}
func (b *Base) readDir(name string) ([]hackpadfs.DirEntry, error) {
	if err := b.call("ReadDir"); err != nil {
		return nil, &hackpadfs.PathError{Op: "readdir", Path: name, Err: err}
	}
	return b.Inner.(hackpadfs.ReadDirFS).ReadDir(name)
}
func (b *Base) readFile(name string) ([]byte, error) {
	if err := b.call("ReadFile"); err != nil {
		return nil, &hackpadfs.PathError{Op: "readfile", Path: name, Err: err}
	}
	return b.Inner.(hackpadfs.ReadFileFS).ReadFile(name)
}
func (b *Base) writeFile(name string, data []byte, perm hackpadfs.FileMode) error {
	if err := b.call("WriteFile"); err != nil {
		return &hackpadfs.PathError{Op: "writefile", Path: name, Err: err}
	}
	return b.Inner.(hackpadfs.WriteFileFS).WriteFile(name, data, perm)
}
func (b *Base) symlink(oldname, newname string) error {
	if err := b.call("Symlink"); err != nil {
		return &hackpadfs.LinkError{Op: "symlink", Old: oldname, New: newname, Err: err}
	}
	return b.Inner.(hackpadfs.SymlinkFS).Symlink(oldname, newname)
}
func (b *Base) mount(name string) (hackpadfs.FS, string) {
	_ = b.call("Mount")
	return b.Inner.(hackpadfs.MountFS).Mount(name)
}

// fileBase is shared by the generated file wrapper types.
type fileBase struct {
	inner hackpadfs.File
	b     *Base
	name  string
}

func (f *fileBase) perr(op string, err error) error {
	return &hackpadfs.PathError{Op: op, Path: f.name, Err: err}
}

func (f *fileBase) read(p []byte) (int, error) {
	if err := f.b.call("file.Read"); err != nil {
		if f.b.Partial && len(p) > 1 {
			n, _ := f.inner.Read(p[:len(p)/2])
			return n, f.perr("read", err)
		}
		return 0, f.perr("read", err)
	}
	return f.inner.Read(p)
}
func (f *fileBase) stat() (hackpadfs.FileInfo, error) {
	if err := f.b.call("file.Stat"); err != nil {
		return nil, f.perr("stat", err)
	}
	return f.inner.Stat()
}
func (f *fileBase) close() error {
	if err := f.b.call("file.Close"); err != nil {
		_ = f.inner.Close()
		return f.perr("close", err)
	}
	return f.inner.Close()
}
func (f *fileBase) write(p []byte) (int, error) {
	if err := f.b.call("file.Write"); err != nil {
		if f.b.Partial && len(p) > 1 {
			n, _ := f.inner.(hackpadfs.ReadWriterFile).Write(p[:len(p)/2])
			return n, f.perr("write", err)
		}
		return 0, f.perr("write", err)
	}
	return f.inner.(hackpadfs.ReadWriterFile).Write(p)
}
func (f *fileBase) readAt(p []byte, off int64) (int, error) {
	if err := f.b.call("file.ReadAt"); err != nil {
		return 0, f.perr("readat", err)
	}
	return f.inner.(hackpadfs.ReaderAtFile).ReadAt(p, off)
}
func (f *fileBase) writeAt(p []byte, off int64) (int, error) {
	if err := f.b.call("file.WriteAt"); err != nil {
		return 0, f.perr("writeat", err)
	}
	return f.inner.(hackpadfs.WriterAtFile).WriteAt(p, off)
}
func (f *fileBase) readDir(n int) ([]hackpadfs.DirEntry, error) {
	if err := f.b.call("file.ReadDir"); err != nil {
		if f.b.Partial {
			// a listing that fails part-way: the entries read so far come back together with the error
			if entries, _ := f.inner.(hackpadfs.DirReaderFile).ReadDir(n); len(entries) > 1 {
				return entries[:len(entries)/2], f.perr("readdir", err)
			}
		}
		return nil, f.perr("readdir", err)
	}
	return f.inner.(hackpadfs.DirReaderFile).ReadDir(n)
}
func (f *fileBase) seek(offset int64, whence int) (int64, error) {
	if err := f.b.call("file.Seek"); err != nil {
		return 0, f.perr("seek", err)
	}
	return f.inner.(hackpadfs.SeekerFile).Seek(offset, whence)
}
func (f *fileBase) sync() error {
	if err := f.b.call("file.Sync"); err != nil {
		return f.perr("sync", err)
	}
	return f.inner.(hackpadfs.SyncerFile).Sync()
}
func (f *fileBase) truncate(size int64) error {
	if err := f.b.call("file.Truncate"); err != nil {
		return f.perr("truncate", err)
	}
	return f.inner.(hackpadfs.TruncaterFile).Truncate(size)
}
func (f *fileBase) chmod(mode hackpadfs.FileMode) error {
	if err := f.b.call("file.Chmod"); err != nil {
		return f.perr("chmod", err)
	}
	return f.inner.(hackpadfs.ChmoderFile).Chmod(mode)
}
func (f *fileBase) chown(uid, gid int) error {
	if err := f.b.call("file.Chown"); err != nil {
		return f.perr("chown", err)
	}
	return f.inner.(hackpadfs.ChownerFile).Chown(uid, gid)
}
func (f *fileBase) chtimes(atime, mtime time.Time) error {
	if err := f.b.call("file.Chtimes"); err != nil {
		return f.perr("chtimes", err)
	}
	return f.inner.(hackpadfs.ChtimeserFile).Chtimes(atime, mtime)
}
