// Package core is the common machinery of the hackpadfs runtime monitors:
// case enumeration, child-process isolation, verdict aggregation, known-finding
// matching, evidence and replay files.
package core

import (
	"bufio"
	"crypto/sha256"
	"encoding/hex"
	"encoding/json"
	"fmt"
	"os"
	"os/exec"
	"os/signal"
	"path/filepath"
	"runtime"
	"runtime/debug"
	"sort"
	"strconv"
	"strings"
	"sync"
	"syscall"
	"time"
)

// Violation is one decided refutation of a property.
type Violation struct {
	Sig     string `json:"sig"`    // property|operation|situation|got->want
	Detail  string `json:"detail"` // human readable
	Witness any    `json:"witness,omitempty"`
}

// CaseResult is what one executed case reports to the parent.
type CaseResult struct {
	Idx          int                 `json:"idx"`
	Evals        int                 `json:"ev,omitempty"`  // number of executions inside this case (default 1)
	Key          string              `json:"key,omitempty"` // hash of the normalised case (distinctness)
	Nontrivial   bool                `json:"nt,omitempty"`
	NTKeys       []string            `json:"ntk,omitempty"` // further distinct non-trivial sub-cases
	Violations   []Violation         `json:"viol,omitempty"`
	Inconclusive string              `json:"inc,omitempty"`
	Counters     map[string]int      `json:"cnt,omitempty"`
	Distinct     map[string][]string `json:"dst,omitempty"` // named sets of hashes
	Sample       any                 `json:"sample,omitempty"`
}

func (r *CaseResult) Count(name string, n int) {
	if r.Counters == nil {
		r.Counters = map[string]int{}
	}
	r.Counters[name] += n
}

func (r *CaseResult) Seen(set, item string) {
	if r.Distinct == nil {
		r.Distinct = map[string][]string{}
	}
	r.Distinct[set] = append(r.Distinct[set], item)
}

func (r *CaseResult) Violate(sig, detail string, witness any) {
	for _, v := range r.Violations {
		if v.Sig == sig {
			return
		}
	}
	r.Violations = append(r.Violations, Violation{Sig: sig, Detail: detail, Witness: witness})
}

// Env describes one run.
type Env struct {
	Prop    string
	Tier    string // quick | thorough
	Seed    int64
	Scratch string // per-run scratch directory (removed by the parent)
	Verbose bool   // replay mode
	Known   *KnownFindings
}

func (e *Env) Thorough() bool { return e.Tier == "thorough" }

// Pick returns q in the quick tier and t in the thorough tier.
func (e *Env) Pick(q, t int) int {
	if e.Thorough() {
		return t
	}
	return q
}

// Prop is one property's monitor.
type Prop struct {
	ID          string
	Level       string // exploration | fault_enumeration
	Rule        string
	Assumptions []string
	// NumCases is the number of cases of this run; cases are fully determined by (seed, tier, idx).
	NumCases func(env *Env) int
	// Run executes case idx (in a child process).
	Run func(env *Env, idx int) CaseResult
	// Describe names a case without running it (used when the child died inside it).
	Describe func(env *Env, idx int) any
	// Floor returns a non-empty reason when the run observed too little to count as evidence.
	Floor func(env *Env, agg *Agg) string
	// Extra lets the parent add keys to the coverage object.
	Extra func(env *Env, agg *Agg, cov map[string]any)
	// Batch is the number of cases per child process (default 200).
	Batch int
	// Workers caps concurrently running children (default NumCPU).
	Workers int
	// ChildTimeout is the watchdog per child (default 10 min); firing alone is inconclusive.
	ChildTimeout time.Duration
	// Race: children must be the race-detector build.
	Race bool
	// PreParent runs in the parent before children (e.g. external monitors such as strace); may return results.
	PreParent func(env *Env) []CaseResult
	// Exhaustive marks the evidence as a complete enumeration of a finite space.
	Exhaustive func(env *Env) bool
	// MaxInconclusive tolerated before the run is declared unusable (exit 2).
	MaxInconclusive int
}

var registry = map[string]*Prop{}

// commands are extra sub-commands of the binary (helper processes run under external monitors such as strace).
var commands = map[string]func(args []string) int{}

func RegisterCommand(name string, f func(args []string) int) { commands[name] = f }

func Register(p *Prop) { registry[p.ID] = p }

func Lookup(id string) *Prop { return registry[id] }

func IDs() []string {
	var ids []string
	for id := range registry {
		ids = append(ids, id)
	}
	sort.Strings(ids)
	return ids
}

// Agg is the parent's aggregate over all case results.
type Agg struct {
	Evaluations  int
	Keys         map[string]struct{} // distinct non-trivial case keys
	Counters     map[string]int
	Distinct     map[string]map[string]struct{}
	Violations   []Violation // unlisted
	ViolCount    int
	KnownSeen    map[string]int // finding id -> count
	Inconclusive []string
	Samples      []any
}

func newAgg() *Agg {
	return &Agg{Keys: map[string]struct{}{}, Counters: map[string]int{}, Distinct: map[string]map[string]struct{}{}, KnownSeen: map[string]int{}}
}

func (a *Agg) DistinctCount(set string) int { return len(a.Distinct[set]) }

func (a *Agg) add(env *Env, r *CaseResult) {
	if r.Evals > 0 {
		a.Evaluations += r.Evals
	} else {
		a.Evaluations++
	}
	for _, k := range r.NTKeys {
		a.Keys[k] = struct{}{}
	}
	if r.Nontrivial {
		k := r.Key
		if k == "" {
			k = "idx:" + strconv.Itoa(r.Idx)
		}
		a.Keys[k] = struct{}{}
	}
	for k, v := range r.Counters {
		a.Counters[k] += v
	}
	for set, items := range r.Distinct {
		m := a.Distinct[set]
		if m == nil {
			m = map[string]struct{}{}
			a.Distinct[set] = m
		}
		for _, it := range items {
			m[it] = struct{}{}
		}
	}
	if r.Inconclusive != "" {
		a.Inconclusive = append(a.Inconclusive, fmt.Sprintf("case %d: %s", r.Idx, r.Inconclusive))
	}
	for _, v := range r.Violations {
		if f := env.Known.Match(env.Prop, v.Sig); f != nil {
			a.KnownSeen[f.ID]++
			continue
		}
		a.ViolCount++
		dup := false
		for _, o := range a.Violations {
			if o.Sig == v.Sig {
				dup = true
				break
			}
		}
		if !dup {
			if v.Witness == nil {
				v.Witness = map[string]any{"idx": r.Idx}
			}
			v.Witness = map[string]any{"idx": r.Idx, "case": v.Witness}
			a.Violations = append(a.Violations, v)
		}
	}
	if r.Sample != nil && len(a.Samples) < 6 {
		// keep samples spread over the run: first few distinct indices
		a.Samples = append(a.Samples, r.Sample)
	}
}

// Hash returns a short stable hash of any JSON-able value.
func Hash(v any) string {
	b, _ := json.Marshal(v)
	s := sha256.Sum256(b)
	return hex.EncodeToString(s[:8])
}

func HashBytes(b []byte) string {
	s := sha256.Sum256(b)
	return hex.EncodeToString(s[:8])
}

// ---------------------------------------------------------------- known findings

type Finding struct {
	Property   string   `json:"property"`
	ID         string   `json:"id"`
	Status     string   `json:"status"` // known | fixed
	Commit     string   `json:"commit,omitempty"`
	Signatures []string `json:"signatures,omitempty"`
	What       string   `json:"what"`
	Repro      any      `json:"repro,omitempty"`
}

type KnownFindings struct {
	Findings []Finding `json:"findings"`
	bySig    map[string]*Finding
}

func LoadKnown(path string) (*KnownFindings, error) {
	k := &KnownFindings{bySig: map[string]*Finding{}}
	b, err := os.ReadFile(path)
	if err != nil {
		if os.IsNotExist(err) {
			return k, nil
		}
		return nil, err
	}
	if err := json.Unmarshal(b, k); err != nil {
		return nil, fmt.Errorf("known_findings.json: %w", err)
	}
	for i := range k.Findings {
		f := &k.Findings[i]
		if f.Status != "known" {
			continue // fixed entries suppress nothing
		}
		for _, s := range f.Signatures {
			k.bySig[f.Property+"\x00"+s] = f
		}
	}
	return k, nil
}

// Match returns the listed (status known) finding with exactly this signature.
func (k *KnownFindings) Match(prop, sig string) *Finding {
	if k == nil {
		return nil
	}
	return k.bySig[prop+"\x00"+sig]
}

// KnownSituation reports whether a signature prefix "op|situation|" is the prefix of a listed finding
// of this property; generators use it to keep long histories in lock-step (DESIGN 2.6).
func (k *KnownFindings) KnownSituation(prop, prefix string) bool {
	if k == nil {
		return false
	}
	for key := range k.bySig {
		if strings.HasPrefix(key, prop+"\x00"+prefix) {
			return true
		}
	}
	return false
}

// ---------------------------------------------------------------- parent

func verifDir() string {
	if d := os.Getenv("VERIF_DIR"); d != "" {
		return d
	}
	exe, err := os.Executable()
	if err == nil {
		d := filepath.Dir(filepath.Dir(exe)) // <verif>/bin/hpverif
		if _, err := os.Stat(filepath.Join(d, "properties.jsonl")); err == nil {
			return d
		}
	}
	return "/verif"
}

func seedFromEnv() int64 {
	if s := os.Getenv("VERIF_SEED"); s != "" {
		if v, err := strconv.ParseInt(s, 10, 64); err == nil {
			return v
		}
	}
	return 1
}

// Main dispatches: run <id> <tier> [--replay f] | child <id> <tier> <seed> <lo> <hi> <out> <scratch>
func Main() {
	if len(os.Args) < 2 {
		fmt.Fprintln(os.Stderr, "usage: hpverif run <Cxx> quick|thorough [--replay file] | list")
		os.Exit(2)
	}
	switch os.Args[1] {
	case "list":
		for _, id := range IDs() {
			fmt.Println(id)
		}
	case "run":
		os.Exit(parentMain(os.Args[2:]))
	case "child":
		os.Exit(childMain(os.Args[2:]))
	default:
		if f, ok := commands[os.Args[1]]; ok {
			os.Exit(f(os.Args[2:]))
		}
		fmt.Fprintln(os.Stderr, "unknown command", os.Args[1])
		os.Exit(2)
	}
}

func newEnv(id, tier string, seed int64, scratch string) (*Env, error) {
	known, err := LoadKnown(filepath.Join(verifDir(), "known_findings.json"))
	if err != nil {
		return nil, err
	}
	return &Env{Prop: id, Tier: tier, Seed: seed, Scratch: scratch, Known: known}, nil
}

func scratchRoot() string {
	for _, d := range []string{os.Getenv("VERIF_SCRATCH"), "/dev/shm", os.TempDir()} {
		if d == "" {
			continue
		}
		if st, err := os.Stat(d); err == nil && st.IsDir() {
			return d
		}
	}
	return "."
}

func parentMain(args []string) int {
	if len(args) < 2 {
		fmt.Fprintln(os.Stderr, "usage: hpverif run <Cxx> quick|thorough [--replay file]")
		return 2
	}
	id, tier := args[0], args[1]
	if t := os.Getenv("VERIF_TIER"); t == "quick" || t == "thorough" {
		// VERIF_TIER is honoured only to lower cost when explicitly asked; the argument decides otherwise.
		_ = t
	}
	p := Lookup(id)
	if p == nil {
		fmt.Fprintf(os.Stderr, "no monitor registered for %s\n", id)
		return 2
	}
	if tier != "quick" && tier != "thorough" {
		fmt.Fprintln(os.Stderr, "tier must be quick or thorough")
		return 2
	}
	seed := seedFromEnv()
	replay := ""
	for i := 2; i < len(args); i++ {
		if args[i] == "--replay" && i+1 < len(args) {
			replay = args[i+1]
		}
	}
	scratch, err := os.MkdirTemp(scratchRoot(), "hpverif-"+id+"-")
	if err != nil {
		fmt.Fprintln(os.Stderr, "scratch:", err)
		return 2
	}
	defer os.RemoveAll(scratch)

	if replay != "" {
		return replayMain(p, replay, scratch)
	}
	env, err := newEnv(id, tier, seed, scratch)
	if err != nil {
		fmt.Fprintln(os.Stderr, err)
		return 2
	}
	start := time.Now()
	agg := newAgg()
	n := p.NumCases(env)
	fmt.Printf("[%s] tier=%s seed=%d cases=%d\n", id, tier, seed, n)

	if p.PreParent != nil {
		for _, r := range p.PreParent(env) {
			r := r
			agg.add(env, &r)
		}
	}
	runChildren(p, env, n, agg)

	return finish(p, env, agg, time.Since(start))
}

type chunk struct{ lo, hi int }

func runChildren(p *Prop, env *Env, n int, agg *Agg) {
	batch := p.Batch
	if batch <= 0 {
		batch = 200
	}
	workers := p.Workers
	if workers <= 0 {
		workers = runtime.NumCPU()
	}
	var chunks []chunk
	for lo := 0; lo < n; lo += batch {
		hi := lo + batch
		if hi > n {
			hi = n
		}
		chunks = append(chunks, chunk{lo, hi})
	}
	var mu sync.Mutex
	var wg sync.WaitGroup
	ch := make(chan chunk)
	for w := 0; w < workers; w++ {
		wg.Add(1)
		go func(w int) {
			defer wg.Done()
			for c := range ch {
				runChunk(p, env, c, w, agg, &mu)
			}
		}(w)
	}
	for _, c := range chunks {
		ch <- c
	}
	close(ch)
	wg.Wait()
}

// runChunk runs cases [lo,hi) in child processes, restarting after a case that kills its child.
func runChunk(p *Prop, env *Env, c chunk, worker int, agg *Agg, mu *sync.Mutex) {
	lo := c.lo
	attempts := map[int]int{}
	for lo < c.hi {
		out := filepath.Join(env.Scratch, fmt.Sprintf("out-%d-%d-%d.jsonl", worker, lo, attempts[lo]))
		logf := out + ".log"
		state := spawnChild(p, env, lo, c.hi, out, logf)
		results, started := readChildOut(out)
		mu.Lock()
		for i := range results {
			agg.add(env, &results[i])
		}
		if rb, err := os.ReadFile(out + ".race"); err == nil {
			for _, rep := range ParseRaceReports(string(rb)) {
				r := CaseResult{Idx: lo, Nontrivial: true}
				if rep.Library {
					r.Violate(fmt.Sprintf("%s|race|%s|%s", p.ID, rep.A, rep.B), "the race detector reported a data race between "+rep.A+" and "+rep.B+" (cases "+strconv.Itoa(lo)+".."+strconv.Itoa(c.hi-1)+")", map[string]any{"report": rep.Text})
				} else {
					r.Violate(p.ID+"|harness|race-in-harness-only", "the race detector reported a race with no hackpadfs frame: the harness is broken\n"+rep.Text, nil)
				}
				agg.Counters["race_reports"]++
				agg.add(env, &r)
				agg.Evaluations--
			}
		}
		mu.Unlock()
		done := lo + len(results)
		if state == "" && done >= c.hi {
			return
		}
		// child died or hung inside case 'started' (or before starting anything)
		if started < done {
			started = done
		}
		if started >= c.hi {
			return
		}
		attempts[started]++
		if attempts[started] == 1 && started != lo {
			// re-run the suspect alone first, in a fresh child
			lo = started
			continue
		}
		if attempts[started] == 1 && started == lo {
			// first case of this child died: try it once more alone
			alone := filepath.Join(env.Scratch, fmt.Sprintf("alone-%d-%d.jsonl", worker, started))
			st2 := spawnChild(p, env, started, started+1, alone, alone+".log")
			res2, _ := readChildOut(alone)
			if st2 == "" && len(res2) == 1 {
				mu.Lock()
				res2[0].Inconclusive = "child died (" + state + ") but the case passed when re-run alone"
				agg.add(env, &res2[0])
				mu.Unlock()
				lo = started + 1
				continue
			}
			logf = alone + ".log"
			state = st2
		}
		tail := tailFile(logf, 60)
		cls := crashClass(state, tail)
		var desc any
		if p.Describe != nil {
			desc = safeDescribe(p, env, started)
		}
		r := CaseResult{Idx: started, Nontrivial: true}
		if cls == "hang" && !hangConfirmed(tail) {
			r.Inconclusive = "watchdog fired without a blocked-state witness"
		} else {
			r.Violate(fmt.Sprintf("%s|process|%s", p.ID, cls), fmt.Sprintf("child process ended with %s in case %d", state, started),
				map[string]any{"case": desc, "log_tail": tail})
		}
		mu.Lock()
		agg.add(env, &r)
		mu.Unlock()
		lo = started + 1
	}
}

func safeDescribe(p *Prop, env *Env, idx int) (d any) {
	defer func() {
		if r := recover(); r != nil {
			d = fmt.Sprint("describe panicked: ", r)
		}
	}()
	return p.Describe(env, idx)
}

func hangConfirmed(tail string) bool {
	// SIGQUIT goroutine dump present
	return strings.Contains(tail, "goroutine ") && (strings.Contains(tail, "SIGQUIT") || strings.Contains(tail, "[semacquire") || strings.Contains(tail, "[sync.Mutex.Lock") || strings.Contains(tail, "[chan receive") || strings.Contains(tail, "[select"))
}

func crashClass(state, tail string) string {
	switch {
	case strings.Contains(state, "timeout"):
		return "hang"
	case strings.Contains(tail, "fatal error: all goroutines are asleep"):
		return "deadlock"
	case strings.Contains(tail, "fatal error: stack overflow") || strings.Contains(tail, "goroutine stack exceeds"):
		return "stack-overflow"
	case strings.Contains(tail, "fatal error:"):
		return "fatal"
	case strings.Contains(tail, "WARNING: DATA RACE"):
		return "race"
	case strings.Contains(tail, "panic:"):
		return "panic"
	}
	return "died"
}

func tailFile(path string, lines int) string {
	b, err := os.ReadFile(path)
	if err != nil {
		return ""
	}
	// keep the head of a crash report (the reason) rather than the end of a long goroutine dump
	s := string(b)
	ls := strings.Split(s, "\n")
	if len(ls) > lines {
		ls = ls[:lines]
	}
	return strings.Join(ls, "\n")
}

func spawnChild(p *Prop, env *Env, lo, hi int, out, logf string) (state string) {
	exe, _ := os.Executable()
	if p.Race {
		if r := exe + "-race"; fileExists(r) && !strings.HasSuffix(exe, "-race") {
			exe = r
		}
	}
	to := p.ChildTimeout
	if to <= 0 {
		to = 10 * time.Minute
	}
	// every child is confined to its own directory (chroot): a broken path mapping in the code under test cannot
	// reach the real file system, and cases cannot disturb each other's files
	jail := out + ".jail"
	_ = os.MkdirAll(jail, 0o777)
	defer os.RemoveAll(jail)
	defer func() {
		if b, err := os.ReadFile(filepath.Join(jail, "out.jsonl")); err == nil {
			_ = os.WriteFile(out, b, 0o644)
		}
	}()
	cmd := exec.Command(exe, "child", p.ID, env.Tier, strconv.FormatInt(env.Seed, 10), strconv.Itoa(lo), strconv.Itoa(hi), "out.jsonl", jail)
	lf, err := os.Create(logf)
	if err != nil {
		return "cannot create log: " + err.Error()
	}
	defer lf.Close()
	cmd.Stdout = lf
	cmd.Stderr = lf
	cmd.Env = append(os.Environ(), "GOTRACEBACK=all")
	if p.Race {
		// race reports go to a log inside the jail and do not end the process: the parent counts and de-duplicates them
		cmd.Env = append(cmd.Env, "GORACE=halt_on_error=0 exitcode=0 log_path=/race")
		defer func() {
			if logs, _ := filepath.Glob(filepath.Join(jail, "race.*")); len(logs) > 0 {
				var sb strings.Builder
				for _, l := range logs {
					if b, err := os.ReadFile(l); err == nil {
						sb.Write(b)
					}
				}
				_ = os.WriteFile(out+".race", []byte(sb.String()), 0o644)
			}
		}()
	}
	cmd.SysProcAttr = &syscall.SysProcAttr{Setpgid: true}
	if err := cmd.Start(); err != nil {
		return "cannot start child: " + err.Error()
	}
	trackChild(cmd.Process.Pid, true)
	defer trackChild(cmd.Process.Pid, false)
	doneCh := make(chan error, 1)
	go func() { doneCh <- cmd.Wait() }()
	select {
	case err := <-doneCh:
		if err != nil {
			return "exit: " + err.Error()
		}
		return ""
	case <-time.After(to):
		_ = cmd.Process.Signal(syscall.SIGQUIT) // goroutine dump into the log
		select {
		case <-doneCh:
		case <-time.After(20 * time.Second):
			_ = syscall.Kill(-cmd.Process.Pid, syscall.SIGKILL)
			<-doneCh
		}
		return "timeout after " + to.String()
	}
}

// Children run in their own process groups (so that a watchdog can kill a whole group); when the parent itself is told
// to stop (a caller's timeout), it takes its children with it instead of leaving them parked on whatever they hang on.
var (
	childMu    sync.Mutex
	childPids  = map[int]bool{}
	childsOnce sync.Once
)

func trackChild(pid int, running bool) {
	childsOnce.Do(func() {
		ch := make(chan os.Signal, 1)
		signal.Notify(ch, syscall.SIGTERM, syscall.SIGINT, syscall.SIGHUP)
		go func() {
			<-ch
			childMu.Lock()
			for p := range childPids {
				_ = syscall.Kill(-p, syscall.SIGKILL)
			}
			childMu.Unlock()
			os.Exit(130)
		}()
	})
	childMu.Lock()
	if running {
		childPids[pid] = true
	} else {
		delete(childPids, pid)
	}
	childMu.Unlock()
}

func fileExists(p string) bool { _, err := os.Stat(p); return err == nil }

// readChildOut returns completed results and the index of the last case started without a result (or -1).
func readChildOut(path string) ([]CaseResult, int) {
	f, err := os.Open(path)
	if err != nil {
		return nil, -1
	}
	defer f.Close()
	var res []CaseResult
	started := -1
	sc := bufio.NewScanner(f)
	sc.Buffer(make([]byte, 1<<20), 1<<28)
	for sc.Scan() {
		line := sc.Text()
		switch {
		case strings.HasPrefix(line, "S "):
			started, _ = strconv.Atoi(line[2:])
		case strings.HasPrefix(line, "R "):
			var r CaseResult
			if json.Unmarshal([]byte(line[2:]), &r) == nil {
				res = append(res, r)
				started = -1
			}
		}
	}
	return res, started
}

func finish(p *Prop, env *Env, agg *Agg, wall time.Duration) int {
	vd := verifDir()
	exit := 0
	// known findings seen
	var ids []string
	for id := range agg.KnownSeen {
		ids = append(ids, id)
	}
	sort.Strings(ids)
	for _, id := range ids {
		for _, f := range env.Known.Findings {
			if f.ID == id && f.Property == p.ID {
				fmt.Printf("KNOWN-FINDING: property=%s %s: %s (seen %d times)\n", p.ID, f.ID, f.What, agg.KnownSeen[id])
			}
		}
	}
	var stale []string
	for _, f := range env.Known.Findings {
		if f.Property == p.ID && f.Status == "known" {
			if _, ok := agg.KnownSeen[f.ID]; !ok {
				stale = append(stale, f.ID)
			}
		}
	}
	for _, v := range agg.Violations {
		name := fmt.Sprintf("%s-%s-%s.json", p.ID, env.Tier, Hash(v.Sig))
		path := filepath.Join(vd, "replays", name)
		_ = os.MkdirAll(filepath.Dir(path), 0o755)
		w := map[string]any{"property": p.ID, "tier": env.Tier, "seed": env.Seed, "sig": v.Sig, "detail": v.Detail, "witness": v.Witness}
		b, _ := json.MarshalIndent(w, "", " ")
		_ = os.WriteFile(path, b, 0o644)
		fmt.Printf("VIOLATION property=%s replay=%s\n", p.ID, path)
		fmt.Printf("  sig: %s\n  %s\n", v.Sig, v.Detail)
		exit = 1
	}
	for i, inc := range agg.Inconclusive {
		if i < 10 {
			fmt.Printf("INCONCLUSIVE property=%s %s\n", p.ID, inc)
		}
	}
	floor := ""
	if p.Floor != nil {
		floor = p.Floor(env, agg)
	}
	cov := map[string]any{
		"evaluations":         agg.Evaluations,
		"distinct_nontrivial": len(agg.Keys),
		"rule":                p.Rule,
		"samples":             agg.Samples,
		"counters":            agg.Counters,
		"known_findings_seen": agg.KnownSeen,
		"stale_findings":      stale,
		"inconclusive":        len(agg.Inconclusive),
		"unlisted_violations": agg.ViolCount,
	}
	dc := map[string]int{}
	for k, v := range agg.Distinct {
		dc[k] = len(v)
	}
	cov["distinct_sets"] = dc
	if p.Exhaustive != nil && p.Exhaustive(env) {
		cov["exhaustive"] = true
	}
	if p.Extra != nil {
		p.Extra(env, agg, cov)
	}
	if len(agg.Samples) == 0 {
		cov["samples"] = []any{"(no sample produced)"}
	}
	ev := map[string]any{
		"property_id": p.ID, "tier": env.Tier, "seed": env.Seed, "level": p.Level,
		"coverage": cov, "assumptions": p.Assumptions, "wall_s": wall.Seconds(), "violations": len(agg.Violations),
	}
	b, _ := json.MarshalIndent(ev, "", " ")
	_ = os.MkdirAll(filepath.Join(vd, "evidence"), 0o755)
	if err := os.WriteFile(filepath.Join(vd, "evidence", p.ID+".json"), append(b, '\n'), 0o644); err != nil {
		fmt.Fprintln(os.Stderr, "evidence:", err)
		return 2
	}
	maxInc := p.MaxInconclusive
	if maxInc == 0 {
		maxInc = 3
	}
	fmt.Printf("[%s] evaluations=%d distinct_nontrivial=%d unlisted_violations=%d known_seen=%d inconclusive=%d wall=%.1fs\n",
		p.ID, agg.Evaluations, len(agg.Keys), agg.ViolCount, len(agg.KnownSeen), len(agg.Inconclusive), wall.Seconds())
	if exit == 0 && len(agg.Inconclusive) > maxInc {
		fmt.Printf("UNUSABLE property=%s too many inconclusive cases (%d)\n", p.ID, len(agg.Inconclusive))
		return 2
	}
	if exit == 0 && floor != "" {
		fmt.Printf("UNUSABLE property=%s observed too little: %s\n", p.ID, floor)
		return 2
	}
	return exit
}

// ---------------------------------------------------------------- child

func childMain(args []string) int {
	if len(args) < 7 {
		fmt.Fprintln(os.Stderr, "child: bad args")
		return 2
	}
	id, tier := args[0], args[1]
	seed, _ := strconv.ParseInt(args[2], 10, 64)
	lo, _ := strconv.Atoi(args[3])
	hi, _ := strconv.Atoi(args[4])
	out, scratch := args[5], args[6]
	p := Lookup(id)
	if p == nil {
		return 2
	}
	env, err := newEnv(id, tier, seed, scratch)
	if err != nil {
		fmt.Fprintln(os.Stderr, err)
		return 2
	}
	debug.SetMaxStack(256 << 20)
	syscall.Umask(0)
	if err := Jail(scratch); err == nil {
		env.Scratch = "/"
	} else {
		fmt.Fprintln(os.Stderr, "warning: cannot chroot into the scratch directory:", err)
		out = filepath.Join(scratch, out)
	}
	f, err := os.OpenFile(out, os.O_CREATE|os.O_WRONLY|os.O_APPEND, 0o644)
	if err != nil {
		fmt.Fprintln(os.Stderr, err)
		return 2
	}
	defer f.Close()
	for i := lo; i < hi; i++ {
		fmt.Fprintf(f, "S %d\n", i)
		r := RunCase(p, env, i)
		b, err := json.Marshal(r)
		if err != nil {
			b, _ = json.Marshal(CaseResult{Idx: i, Inconclusive: "result not serialisable: " + err.Error()})
		}
		fmt.Fprintf(f, "R %s\n", b)
	}
	return 0
}

// Jail confines the process to dir (chroot + chdir). Needs root.
func Jail(dir string) error {
	if err := syscall.Chroot(dir); err != nil {
		return err
	}
	return os.Chdir("/")
}

// RunCase runs one case with a recover() so that an ordinary panic inside the harness's own
// code is reported as a broken harness (inconclusive), never as a pass. Library panics are
// caught closer to the call by the monitors themselves.
func RunCase(p *Prop, env *Env, idx int) (r CaseResult) {
	defer func() {
		if rec := recover(); rec != nil {
			r = CaseResult{Idx: idx, Nontrivial: true}
			r.Violate(p.ID+"|harness|uncaught-panic", fmt.Sprintf("uncaught panic in case %d: %v\n%s", idx, rec, debug.Stack()), nil)
		}
	}()
	r = p.Run(env, idx)
	r.Idx = idx
	return r
}

func replayMain(p *Prop, file, scratch string) int {
	b, err := os.ReadFile(file)
	if err != nil {
		fmt.Fprintln(os.Stderr, err)
		return 2
	}
	var w struct {
		Tier    string `json:"tier"`
		Seed    int64  `json:"seed"`
		Sig     string `json:"sig"`
		Witness struct {
			Idx int `json:"idx"`
		} `json:"witness"`
	}
	if err := json.Unmarshal(b, &w); err != nil {
		fmt.Fprintln(os.Stderr, err)
		return 2
	}
	env, err := newEnv(p.ID, w.Tier, w.Seed, scratch)
	if err != nil {
		fmt.Fprintln(os.Stderr, err)
		return 2
	}
	env.Verbose = true
	syscall.Umask(0)
	if err := Jail(scratch); err == nil {
		env.Scratch = "/"
	}
	fmt.Printf("replaying %s case %d (tier=%s seed=%d), recorded sig: %s\n", p.ID, w.Witness.Idx, w.Tier, w.Seed, w.Sig)
	r := RunCase(p, env, w.Witness.Idx)
	out, _ := json.MarshalIndent(r, "", " ")
	fmt.Println(string(out))
	for _, v := range r.Violations {
		if env.Known.Match(p.ID, v.Sig) == nil {
			fmt.Printf("VIOLATION property=%s replay=%s\n", p.ID, file)
			return 1
		}
	}
	return 0
}

// Recover runs f and converts a panic into a string.
func Recover(f func()) (panicked string) {
	defer func() {
		if r := recover(); r != nil {
			panicked = fmt.Sprint(r)
			if len(panicked) > 200 {
				panicked = panicked[:200]
			}
		}
	}()
	f()
	return ""
}

// RaceReport is one de-duplicated report of the Go race detector.
type RaceReport struct {
	A, B    string // outermost library functions of the two accesses (line numbers stripped)
	Library bool   // at least one hackpadfs frame is involved
	Text    string
}

// ParseRaceReports splits a race log into reports and names each by the innermost hackpadfs function of its first two stacks.
func ParseRaceReports(log string) []RaceReport {
	var out []RaceReport
	seen := map[string]bool{}
	for _, block := range strings.Split(log, "WARNING: DATA RACE")[1:] {
		if i := strings.Index(block, "=================="); i >= 0 {
			block = block[:i]
		}
		var fns []string
		harness := false
		for _, stack := range strings.Split(block, "\n\n") {
			// the innermost frame that belongs to the library or to the harness owns the access
			fn := ""
			for _, line := range strings.Split(stack, "\n") {
				line = strings.TrimSpace(line)
				if fn == "" && strings.HasPrefix(line, "hpverif/") {
					fn = "harness"
					harness = true
				}
				if strings.HasPrefix(line, "github.com/hack-pad/hackpadfs") && fn == "" {
					if j := strings.LastIndex(line, "("); j > 0 {
						line = line[:j] // drop the argument list, keep receiver and method
					}
					fn = strings.TrimPrefix(line, "github.com/hack-pad/hackpadfs")
				}
			}
			if fn != "" {
				fns = append(fns, fn)
			}
			if len(fns) == 2 {
				break
			}
		}
		rep := RaceReport{Text: "WARNING: DATA RACE" + block}
		if len(rep.Text) > 3000 {
			rep.Text = rep.Text[:3000]
		}
		if len(fns) > 0 && !harness {
			rep.Library = true
			rep.A = fns[0]
			rep.B = fns[len(fns)-1]
		}
		key := rep.A + "|" + rep.B
		if !seen[key] {
			seen[key] = true
			out = append(out, rep)
		}
	}
	return out
}
