package props

import (
	"bytes"
	"context"
	"fmt"
	"os"
	"strings"
	"time"

	"hpverif/internal/core"
	"hpverif/internal/kvs"
	"hpverif/internal/tarx"

	"github.com/hack-pad/hackpadfs"
	"github.com/hack-pad/hackpadfs/cache"
	"github.com/hack-pad/hackpadfs/keyvalue"
	"github.com/hack-pad/hackpadfs/mem"
	"github.com/hack-pad/hackpadfs/mount"
	hpos "github.com/hack-pad/hackpadfs/os"
	hptar "github.com/hack-pad/hackpadfs/tar"
)

// minimalStore exposes only what cache.NewReadOnlyFS and tar.ReaderFSOptions require, so every helper takes its fallback.
type minimalStore struct{ inner *mem.FS }

func (m *minimalStore) Open(name string) (hackpadfs.File, error) { return m.inner.Open(name) }
func (m *minimalStore) OpenFile(name string, flag int, perm hackpadfs.FileMode) (hackpadfs.File, error) {
	return m.inner.OpenFile(name, flag, perm)
}
func (m *minimalStore) Mkdir(name string, perm hackpadfs.FileMode) error {
	return m.inner.Mkdir(name, perm)
}

// minimalTarStore additionally has Chmod (required by the tar FS).
type minimalTarStore struct{ minimalStore }

func (m *minimalTarStore) Chmod(name string, mode hackpadfs.FileMode) error {
	return m.inner.Chmod(name, mode)
}

// treeSpec describes a tree to build on any writable subject: path -> (dir?, perm, data)
type treeItem struct {
	Path string
	Dir  bool
	Perm uint32
	Data string
}

func buildTree(fsys hackpadfs.FS, items []treeItem) error {
	for _, it := range items {
		var err error
		if it.Dir {
			err = hackpadfs.Mkdir(fsys, it.Path, hackpadfs.FileMode(it.Perm))
		} else {
			err = hackpadfs.WriteFullFile(fsys, it.Path, []byte(it.Data), hackpadfs.FileMode(it.Perm))
		}
		if err != nil {
			return fmt.Errorf("build %s: %w", it.Path, err)
		}
	}
	return nil
}

// readOnlySubjects are the FS kinds a populated tree can be presented through.
var populatedSubjects = []string{"mem", "kvplain", "mount", "sub", "cache", "cache-min", "tar", "tar-min", "os", "mount-deep", "sub-above-mount"}

type populated struct {
	name    string
	fs      hackpadfs.FS
	cleanup func()
	// mountPoints lists paths (in the subject's namespace) that are mount points
	mountPoints map[string]bool
	writable    bool
}

// newPopulated presents 'items' (paths relative to the subject's root) through the named subject.
// For "mount", every top-level directory named m* becomes a mount point (its subtree lives in its own mem.FS).
func newPopulated(env *core.Env, name string, items []treeItem) (*populated, error) {
	p := &populated{name: name, cleanup: func() {}, mountPoints: map[string]bool{}}
	switch name {
	case "mem":
		m, err := mem.NewFS()
		if err != nil {
			return nil, err
		}
		p.fs, p.writable = m, true
		return p, buildTree(m, items)
	case "kvplain":
		k, err := keyvalue.NewFS(kvs.NewPlain())
		if err != nil {
			return nil, err
		}
		p.fs, p.writable = k, true
		return p, buildTree(k, items)
	case "sub":
		m, err := mem.NewFS()
		if err != nil {
			return nil, err
		}
		if err := hackpadfs.MkdirAll(m, "top/in", 0o755); err != nil {
			return nil, err
		}
		v, err := hackpadfs.Sub(m, "top/in")
		if err != nil {
			return nil, err
		}
		p.fs, p.writable = v, true
		return p, buildTree(v, items)
	case "mount", "sub-above-mount":
		// "sub-above-mount": the same tree below top/ of the mount FS, seen through a Sub view of top (the view's
		// directory lies ABOVE the mount points)
		root, err := mem.NewFS()
		if err != nil {
			return nil, err
		}
		mfs, err := mount.NewFS(root)
		if err != nil {
			return nil, err
		}
		pre := ""
		if name == "sub-above-mount" {
			pre = "top/"
			if err := hackpadfs.Mkdir(mfs, "top", 0o755); err != nil {
				return nil, err
			}
		}
		for _, it := range items {
			if it.Dir && isMountName(it.Path) {
				if err := hackpadfs.MkdirAll(mfs, pre+it.Path, hackpadfs.FileMode(it.Perm)); err != nil {
					return nil, err
				}
				sub, err := mem.NewFS()
				if err != nil {
					return nil, err
				}
				// what is mounted is not empty: the directory below a mount point must show THIS, not what it hides
				if err := hackpadfs.WriteFullFile(sub, "in-mount", []byte("mounted"), 0o644); err != nil {
					return nil, err
				}
				// the directory that is about to be hidden, and names below it, are looked at first (answers remembered from
				// before the mount must not be given afterwards)
				_ = hackpadfs.WriteFullFile(mfs, pre+it.Path+"/hidden-below", []byte("h"), 0o644)
				_, _ = hackpadfs.ReadDir(mfs, pre+it.Path)
				_, _ = hackpadfs.Stat(mfs, pre+it.Path+"/in-mount")
				_, _ = hackpadfs.Stat(mfs, pre+it.Path+"/hidden-below")
				if err := mfs.AddMount(pre+it.Path, sub); err != nil {
					return nil, err
				}
				p.mountPoints[it.Path] = true
				continue
			}
			it2 := it
			it2.Path = pre + it.Path
			if err := buildTree(mfs, []treeItem{it2}); err != nil {
				return nil, err
			}
		}
		p.fs, p.writable = mfs, true
		if name == "sub-above-mount" {
			v, err := hackpadfs.Sub(mfs, "top")
			if err != nil {
				return nil, err
			}
			p.fs = v
		}
		return p, nil
	case "mount-deep":
		// everything lives in a file system mounted at a two-element mount point whose letters also start the names below
		// it (d/n..., mp...), seen through a Sub view of that mount point
		root, err := mem.NewFS()
		if err != nil {
			return nil, err
		}
		mfs, err := mount.NewFS(root)
		if err != nil {
			return nil, err
		}
		if err := hackpadfs.MkdirAll(mfs, "mp/den", 0o755); err != nil {
			return nil, err
		}
		inner, err := mem.NewFS()
		if err != nil {
			return nil, err
		}
		if err := mfs.AddMount("mp/den", inner); err != nil {
			return nil, err
		}
		v, err := hackpadfs.Sub(mfs, "mp/den")
		if err != nil {
			return nil, err
		}
		p.fs, p.writable = v, true
		return p, buildTree(v, items)
	case "cache", "cache-min":
		src, err := mem.NewFS()
		if err != nil {
			return nil, err
		}
		if err := buildTree(src, items); err != nil {
			return nil, err
		}
		store, err := mem.NewFS()
		if err != nil {
			return nil, err
		}
		var c *cache.ReadOnlyFS
		if name == "cache" {
			c, err = cache.NewReadOnlyFS(src, store, cache.ReadOnlyOptions{})
		} else {
			c, err = cache.NewReadOnlyFS(src, &minimalStore{store}, cache.ReadOnlyOptions{})
		}
		p.fs = c
		return p, err
	case "tar", "tar-min":
		var entries []tarx.Entry
		for i, it := range items {
			e := tarx.Entry{Name: it.Path, Dir: it.Dir, Perm: it.Perm, Size: len(it.Data), Tag: byte(i)}
			entries = append(entries, e)
		}
		// bodies: use the item data verbatim
		arch := buildTarVerbatim(items)
		opts := hptar.ReaderFSOptions{}
		if name == "tar-min" {
			m, err := mem.NewFS()
			if err != nil {
				return nil, err
			}
			opts.UnarchiveFS = &minimalTarStore{minimalStore{m}}
		}
		t, err := hptar.NewReaderFS(context.Background(), bytes.NewReader(arch), opts)
		if err != nil {
			return nil, err
		}
		select {
		case <-t.Done():
		case <-time.After(60 * time.Second):
			return nil, fmt.Errorf("tar FS did not finish unpacking")
		}
		if err := t.UnarchiveErr(); err != nil {
			return nil, fmt.Errorf("unarchive: %w", err)
		}
		p.fs = t
		_ = entries
		return p, nil
	case "os":
		d, err := os.MkdirTemp(env.Scratch, "osfs-")
		if err != nil {
			return nil, err
		}
		_ = os.Chmod(d, 0o777)
		v, err := hpos.NewFS().Sub(d[1:])
		if err != nil {
			return nil, err
		}
		p.fs, p.writable = v, true
		p.cleanup = func() { _ = os.RemoveAll(d) }
		return p, buildTree(v, items)
	}
	return nil, fmt.Errorf("unknown subject %q", name)
}

func isMountName(p string) bool {
	if strings.HasSuffix(p, "x") {
		return false // "m0003x": an ordinary directory next to the mount point m0003, sharing its name as a prefix
	}
	for i := len(p) - 1; i >= 0; i-- {
		if p[i] == '/' {
			return i+1 < len(p) && p[i+1] == 'm'
		}
	}
	return len(p) > 0 && p[0] == 'm'
}

func buildTarVerbatim(items []treeItem) []byte {
	var names []string
	var dirs []bool
	var perms []uint32
	var bodies [][]byte
	for _, it := range items {
		names = append(names, it.Path)
		dirs = append(dirs, it.Dir)
		perms = append(perms, it.Perm)
		bodies = append(bodies, []byte(it.Data))
	}
	return tarx.BuildVerbatim(names, dirs, perms, bodies)
}
