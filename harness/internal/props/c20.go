package props

import (
	"bytes"
	"fmt"
	"os"
	"os/exec"
	"path/filepath"
	"regexp"
	"sort"
	"strconv"
	"strings"
	"sync"
	"time"

	"hpverif/internal/core"
)

// C20: the fstest conformance suite accepts the reference and rejects deviants.
// Everything here runs from the parent: it needs the Go toolchain to build harness/c20suite as a test binary
// (fstest needs a real *testing.T) and then observes that binary's verdicts, one process per deviant.

func init() {
	core.Register(&core.Prop{
		ID:    "C20",
		Level: "exploration",
		Rule: "harness/c20suite is built as a Go test binary against /repo's working tree. (references) fstest.FS and fstest.File must report no failure for mem.FS and os.FS, repeatedly and under varied execution environments (GOMAXPROCS 1 and 16, -test.parallel 1 and 16, -test.shuffle, the race detector build, -test.count 2..3, the process's local time zone moved to +9h and -11h), and the skip lists they return are compared across runs. (baseline) the deviant wrapper with no deviation must be accepted, also with every error path carrying an outer prefix under Constraints.AllowErrPathPrefix. " +
			"(deviants) 154 wrappers around mem.FS, each differing in exactly one behaviour (operation x kind: silently nothing, done twice, entry left behind/missing, wrong permission bits, wrong size, wrong bytes, wrong error kind/path/type, late or early EOF, wrong offset, second Close succeeds, stale handle size, listing with missing/duplicate/mis-typed entries (also duplicates only below the root), operations failing with ENOTSUP/EOPNOTSUPP instead of succeeding, a successful call returning a typed-nil error, error paths glued to their allowed prefix without a separator, error paths in another spelling of the right name (foo/, ./foo), a removed name that stays listed as an entry whose Info() says it does not exist, handle entries that deny IsDir beside a correct by-name listing ...), each run in its own process; a counter in the deviating branch shows whether the suite's own scenarios reached it. A reached deviant the suite accepts is a violation. Non-trivial: deviants whose deviating branch was reached; distinct by deviant name",
		Assumptions: []string{"'differs in any single observable behaviour' is sampled by a finite catalogue", "a deviant whose deviating branch no scenario reaches is reported as unreached, not as a survivor"},
		NumCases:    func(env *core.Env) int { return 0 },
		Run:         func(env *core.Env, idx int) core.CaseResult { return core.CaseResult{} },
		PreParent:   c20parent,
		Floor: func(env *core.Env, agg *core.Agg) string {
			if agg.Counters["deviants_reached"] < 50 || agg.Counters["reference_runs"] < 6 {
				return fmt.Sprint(agg.Counters)
			}
			return ""
		},
	})
}

func c20harnessDir() string {
	if d := os.Getenv("VERIF_DIR"); d != "" {
		return filepath.Join(d, "harness")
	}
	return "/verif/harness"
}

func c20build(env *core.Env, race bool) (string, error) {
	out := filepath.Join(env.Scratch, "c20suite.test")
	args := []string{"test", "-c", "-tags", "verif", "-o", out}
	if race {
		out += ".race"
		args = []string{"test", "-c", "-race", "-tags", "verif", "-o", out}
	}
	if mf := os.Getenv("HPVERIF_MODFILE"); mf != "" {
		args = append(args, "-modfile="+mf)
	}
	args = append(args, "./c20suite/")
	cmd := exec.Command("go", args...)
	cmd.Dir = c20harnessDir()
	cmd.Env = append(os.Environ(), "GOFLAGS=-mod=mod", "GOPROXY=off", "GOSUMDB=off", "GOTOOLCHAIN=local")
	if b, err := cmd.CombinedOutput(); err != nil {
		return "", fmt.Errorf("go %v: %v\n%s", args, err, b)
	}
	return out, nil
}

type c20result struct {
	exit   int
	output string
	dur    time.Duration
}

func c20exec(bin string, envExtra []string, args ...string) c20result {
	cmd := exec.Command(bin, args...)
	dir, _ := os.MkdirTemp(filepath.Dir(bin), "c20run-")
	defer os.RemoveAll(dir)
	cmd.Dir = dir
	cmd.Env = append(append(os.Environ(), "TMPDIR="+dir), envExtra...)
	var buf bytes.Buffer
	cmd.Stdout, cmd.Stderr = &buf, &buf
	start := time.Now()
	done := make(chan error, 1)
	if err := cmd.Start(); err != nil {
		return c20result{exit: -1, output: err.Error()}
	}
	go func() { done <- cmd.Wait() }()
	var err error
	select {
	case err = <-done:
	case <-time.After(90 * time.Second):
		_ = cmd.Process.Kill()
		<-done
		return c20result{exit: -2, output: buf.String() + "\n(watchdog: test binary did not finish)", dur: time.Since(start)}
	}
	r := c20result{output: buf.String(), dur: time.Since(start)}
	if err != nil {
		r.exit = 1
		if ee, ok := err.(*exec.ExitError); ok {
			r.exit = ee.ExitCode()
		}
	}
	return r
}

var c20failLine = regexp.MustCompile(`(?m)^\s*--- FAIL: (\S+)`)

func c20firstFailures(out string, n int) []string {
	var fs []string
	for _, m := range c20failLine.FindAllStringSubmatch(out, -1) {
		fs = append(fs, m[1])
	}
	sort.Slice(fs, func(i, j int) bool { return len(fs[i]) > len(fs[j]) })
	if len(fs) > n {
		fs = fs[:n]
	}
	return fs
}

func c20parent(env *core.Env) []core.CaseResult {
	var res core.CaseResult
	res.Idx = -1
	fail := func(msg string) []core.CaseResult {
		res.Inconclusive = msg
		return []core.CaseResult{res}
	}
	bin, err := c20build(env, false)
	if err != nil {
		return fail(err.Error())
	}
	raceBin, err := c20build(env, true)
	if err != nil {
		return fail(err.Error())
	}
	// (1) references and baseline under varied environments
	type variant struct {
		name string
		bin  string
		env  []string
		args []string
	}
	variants := []variant{
		{"default", bin, nil, []string{"-test.count=2"}},
		{"gomaxprocs1-parallel1", bin, []string{"GOMAXPROCS=1"}, []string{"-test.parallel=1"}},
		{"gomaxprocs16-parallel16-shuffle", bin, []string{"GOMAXPROCS=16"}, []string{"-test.parallel=16", "-test.shuffle=on", "-test.count=2"}},
		{"race-shuffle", raceBin, nil, []string{"-test.shuffle=on"}},
		{"local-zone+9h", bin, []string{"C20_TZ_SHIFT=9"}, nil},
		{"local-zone-11h", bin, []string{"C20_TZ_SHIFT=-11", "GOMAXPROCS=3"}, []string{"-test.shuffle=on"}},
	}
	if env.Thorough() {
		variants = append(variants,
			variant{"race-count3-parallel1", raceBin, []string{"GOMAXPROCS=2"}, []string{"-test.count=3", "-test.parallel=1"}},
			variant{"count3-shuffle-seed", bin, []string{"GOMAXPROCS=4"}, []string{"-test.count=3", "-test.shuffle=" + strconv.FormatInt(env.Seed, 10)}},
			variant{"gomaxprocs1-parallel16", bin, []string{"GOMAXPROCS=1"}, []string{"-test.parallel=16", "-test.count=3"}})
	}
	skips := map[string]map[string]bool{}
	for _, v := range variants {
		r := c20exec(v.bin, v.env, append([]string{"-test.run=TestC20Ref|TestC20Baseline", "-test.v"}, v.args...)...)
		res.Count("reference_runs", 1)
		if r.exit != 0 {
			which := "reference"
			fails := c20firstFailures(r.output, 4)
			for _, f := range fails {
				if strings.Contains(f, "Baseline") {
					which = "baseline-wrapper"
				}
			}
			res.Violate("C20|"+which+"|rejected", fmt.Sprintf("the conformance suite reported failures for the reference implementations in environment %q: %v", v.name, fails), map[string]any{"variant": v.name, "output_tail": tailString(r.output, 3000)})
		}
		if strings.Contains(r.output, "DATA RACE") {
			res.Violate("C20|reference|data-race", "the race detector reported a race while the suite ran on the references ("+v.name+")", map[string]any{"output_tail": tailString(r.output, 3000)})
		}
		for _, l := range strings.Split(r.output, "\n") {
			if strings.HasPrefix(l, "C20SKIPS ") {
				f := strings.Fields(l)
				if len(f) == 4 {
					if skips[f[1]] == nil {
						skips[f[1]] = map[string]bool{}
					}
					skips[f[1]][f[2]+"+"+f[3]] = true
				}
			}
		}
	}
	for ref, set := range skips {
		if len(set) > 1 {
			var vals []string
			for k := range set {
				vals = append(vals, k)
			}
			sort.Strings(vals)
			res.Violate("C20|reference|skip-list-unstable", fmt.Sprintf("the skip lists fstest returned for %s differ between runs of the same file system (numbers of skipped tests FS+File: %v)", ref, vals), nil)
		}
	}
	// (2) deviants, one process each
	list := c20exec(bin, nil, "-test.run=TestC20List", "-test.v")
	var deviants []string
	for _, l := range strings.Split(list.output, "\n") {
		if strings.HasPrefix(l, "C20DEV ") {
			deviants = append(deviants, strings.TrimSpace(l[7:]))
		}
	}
	if len(deviants) == 0 {
		return fail("the test binary lists no deviants:\n" + tailString(list.output, 1000))
	}
	type devOut struct {
		name     string
		accepted bool
		fired    int
		fails    []string
		crashed  bool
		// harnessPanic: the panic came from the deviant's own code
		harnessPanic bool
	}
	outs := make([]devOut, len(deviants))
	var wg sync.WaitGroup
	sem := make(chan struct{}, 16)
	for i, d := range deviants {
		wg.Add(1)
		go func(i int, d string) {
			defer wg.Done()
			sem <- struct{}{}
			defer func() { <-sem }()
			r := c20exec(bin, []string{"C20_ONLY=" + d}, "-test.run=TestC20Deviants", "-test.v")
			o := devOut{name: d, accepted: r.exit == 0, fails: c20firstFailures(r.output, 3), fired: -1}
			for _, l := range strings.Split(r.output, "\n") {
				if strings.HasPrefix(l, "C20FIRED "+d+" ") {
					o.fired, _ = strconv.Atoi(strings.TrimSpace(strings.TrimPrefix(l, "C20FIRED "+d+" ")))
				}
			}
			if strings.Contains(r.output, "panic:") {
				// a panic raised by the deviant's own code (its first frame below the panic machinery is in c20suite) is a
				// defect of the harness, not a verdict of the suite
				if i := strings.Index(r.output, "panic("); i >= 0 {
					rest := r.output[i:]
					if j := strings.Index(rest[1:], "\n"); j >= 0 {
						lines := strings.Split(rest[j+2:], "\n")
						for _, l := range lines {
							if strings.HasPrefix(l, "\t") || strings.HasPrefix(l, "panic") || strings.HasPrefix(l, "runtime.") || strings.HasPrefix(l, "bytes.") || strings.HasPrefix(l, "strings.") {
								continue
							}
							if strings.HasPrefix(l, "hpverif/c20suite.") {
								o.harnessPanic = true
							}
							break
						}
					}
				}
				o.crashed = true // the suite itself crashed on the deviant: a reported failure, and the branch was certainly reached
				if o.fired < 0 {
					o.fired = 1
				}
			}
			outs[i] = o
		}(i, d)
	}
	wg.Wait()
	var unreached, samples []string
	for _, o := range outs {
		res.Count("deviants_run", 1)
		switch {
		case o.harnessPanic:
			res.Inconclusive = "the deviant " + o.name + " panicked in its own code (a defect of the catalogue, not a verdict of the suite)"
		case o.fired <= 0:
			unreached = append(unreached, o.name)
			res.Count("deviants_unreached", 1)
		case o.accepted:
			res.Count("deviants_reached", 1)
			res.NTKeys = append(res.NTKeys, o.name)
			res.Violate("C20|deviant|"+o.name+"|accepted", fmt.Sprintf("the suite reported no failure for the deviant %q although its deviating branch ran %d times during the suite", o.name, o.fired), map[string]any{"deviant": o.name, "fired": o.fired})
		default:
			res.Count("deviants_reached", 1)
			res.Count("deviants_killed", 1)
			res.NTKeys = append(res.NTKeys, o.name)
			if len(samples) < 6 {
				samples = append(samples, fmt.Sprintf("%s: killed by %v (branch reached %d times)", o.name, o.fails, o.fired))
			}
		}
	}
	res.Evals = len(outs) + len(variants)
	res.Nontrivial = true
	res.Key = "c20"
	res.Sample = map[string]any{"killed_examples": samples, "unreached": unreached, "reference_variants": len(variants)}
	return []core.CaseResult{res}
}

func tailString(s string, n int) string {
	if len(s) > n {
		return s[len(s)-n:]
	}
	return s
}
