package props

import (
	"bytes"
	"errors"
	"fmt"
	"io"
	"math/rand"
	"os"
	"runtime"
	"sort"
	"strings"
	"sync"
	"sync/atomic"
	"time"

	"hpverif/internal/core"
	"hpverif/internal/fsx"

	"github.com/hack-pad/hackpadfs"
	"github.com/hack-pad/hackpadfs/keyvalue/blob"
	"github.com/hack-pad/hackpadfs/mem"
)

// C15, part "hammer": tight loops aimed at windows that are narrower than a store transaction (and therefore out of
// the cooperative scheduler's reach): positional I/O against shrinking/growing contents of one file, and goroutines
// that check their OWN completed changes while others only observe.

// hammerWatch runs a hammer program under a watchdog that looks at PROGRESS: goroutines waiting for a mutex are what a
// hammer program consists of, so a dump alone says nothing. The program counts as stuck when its operation counter has
// not moved for three looks in a row, 10 s apart; a program that is merely slow (a loaded machine) is waited for, up
// to ten minutes (then: inconclusive).
func hammerWatch(body func(), ops *int64) (hung, confirmed bool) {
	done := make(chan struct{})
	go func() { defer close(done); body() }()
	last, still := int64(-1), 0
	for tick := 0; tick < 60; tick++ {
		select {
		case <-done:
			return false, false
		case <-time.After(10 * time.Second):
		}
		now := atomic.LoadInt64(ops)
		if now == last {
			still++
		} else {
			last, still = now, 0
		}
		if still >= 3 {
			buf := make([]byte, 1<<18)
			d := string(buf[:runtime.Stack(buf, true)])
			return true, strings.Contains(d, "sync.(*Mutex).Lock") || strings.Contains(d, "sync.Mutex.Lock") || strings.Contains(d, "semacquire")
		}
	}
	return true, false
}

func c15hammer(env *core.Env, cs c15case, idx int, res *core.CaseResult) {
	r := rand.New(rand.NewSource(env.Seed*23_000_009 + int64(idx)))
	switch cs.Rep % 8 {
	case 7:
		c15hammerFirstWriters(r, cs, res)
	case 5:
		c15hammerWholeWrites(r, cs, res)
	case 6:
		c15hammerShrinkVsReaders(r, cs, res)
	case 4:
		c15hammerGrowObserver(r, cs, res)
	case 0:
		c15hammerFile(r, cs, res)
	case 1:
		c15hammerOwnChanges(r, cs, res)
	case 2:
		c15hammerRenameObserver(r, cs, res)
	default:
		c15hammerCrossCopy(r, cs, res)
	}
}

// c15hammerGrowObserver: one goroutine only ever appends to a file; observers look at its size twice in a row through
// different routes (their own handle's Stat, the handle's reads, Stat by name, a fresh ReadFile). The file only grows, so
// a later look can never show less than an earlier one.
func c15hammerGrowObserver(r *rand.Rand, cs c15case, res *core.CaseResult) {
	m, _ := mem.NewFS()
	_ = hackpadfs.WriteFullFile(m, "log", []byte("start"), 0o644)
	appends := 1500 + r.Intn(1500)
	chunk := []int{1, 64, 700}[r.Intn(3)]
	observers := 2 + r.Intn(3)
	var stop int32
	var looks, backwards int64
	var first atomic.Value
	var wg sync.WaitGroup
	body := func() {
		wg.Add(1)
		go func() {
			defer wg.Done()
			defer atomic.StoreInt32(&stop, 1)
			f, err := hackpadfs.OpenFile(m, "log", os.O_WRONLY|os.O_APPEND, 0)
			if err != nil {
				first.Store("setup: " + err.Error())
				return
			}
			defer func() { _ = f.Close() }()
			buf := []byte(strings.Repeat("+", chunk))
			for i := 0; i < appends; i++ {
				if p := core.Recover(func() { _, _ = hackpadfs.WriteFile(f, buf) }); p != "" {
					first.Store("append panicked: " + p)
					return
				}
			}
		}()
		// tail readers: positional reads that start shortly before what the reader believes to be the end and ask for more
		// than is there. They get what exists at that moment: bytes the appender wrote ('+', the initial "start", or the zero
		// fill of a write that has grown the file and not yet stored its bytes), never a panic (the length that is
		// announced and the contents that exist belong together)
		for t := 0; t < 2; t++ {
			wg.Add(1)
			go func(t int) {
				defer wg.Done()
				h, err := m.Open("log")
				if err != nil {
					return
				}
				defer func() { _ = h.Close() }()
				buf := make([]byte, 4096)
				known := int64(0)
				for atomic.LoadInt32(&stop) == 0 {
					off := known - 16 - int64(t)*700
					if off < 0 {
						off = 0
					}
					var n int
					var rerr error
					if p := core.Recover(func() { n, rerr = hackpadfs.ReadAtFile(h, buf, off) }); p != "" {
						first.CompareAndSwap(nil, fmt.Sprintf("tail-read-panic: a ReadAt of 4096 bytes at offset %d of a file that is being appended to panicked: %s", off, p))
						return
					}
					if rerr != nil && rerr != io.EOF {
						continue
					}
					for j := 0; j < n; j++ {
						// (a zero byte is the known gap between a write's growing the file and its storing the bytes: F69's class)
						if c := buf[j]; c != '+' && c != 0 && !(off+int64(j) < 5 && c == "start"[off+int64(j)]) {
							first.CompareAndSwap(nil, fmt.Sprintf("tail-read-foreign-byte: a ReadAt at offset %d returned byte %q at file offset %d; the file holds \"start\" followed by '+' only", off, c, off+int64(j)))
							return
						}
					}
					if off+int64(n) > known {
						known = off + int64(n)
					}
				}
			}(t)
		}
		for o := 0; o < observers; o++ {
			wg.Add(1)
			go func(o int) {
				defer wg.Done()
				h, err := m.Open("log")
				if err != nil {
					return
				}
				defer func() { _ = h.Close() }()
				// four ways of learning the size; each look uses two of them, one after the other
				sizeVia := []func() (int64, bool){
					func() (int64, bool) { i, err := h.Stat(); return sizeOf(i, err) },
					func() (int64, bool) { i, err := hackpadfs.Stat(m, "log"); return sizeOf(i, err) },
					func() (int64, bool) { b, err := hackpadfs.ReadFile(m, "log"); return int64(len(b)), err == nil },
					func() (int64, bool) {
						n, err := hackpadfs.SeekFile(h, 0, io.SeekEnd)
						return n, err == nil
					},
				}
				names := []string{"handle Stat", "Stat by name", "ReadFile", "Seek to end"}
				for i := 0; atomic.LoadInt32(&stop) == 0; i++ {
					a, b := (i+o)%4, (i/4+o+1)%4
					s1, ok1 := sizeVia[a]()
					s2, ok2 := sizeVia[b]()
					atomic.AddInt64(&looks, 1)
					if ok1 && ok2 && s2 < s1 {
						if atomic.AddInt64(&backwards, 1) == 1 {
							first.Store(fmt.Sprintf("%s showed %d bytes, then %s showed %d", names[a], s1, names[b], s2))
						}
					}
				}
			}(o)
		}
		wg.Wait()
	}
	hung, confirmed := hammerWatch(body, &looks)
	atomic.StoreInt32(&stop, 1)
	wit := map[string]any{"case": cs, "appends": appends, "chunk": chunk, "observers": observers}
	switch {
	case hung && confirmed:
		res.Violate("C15|hammer-grow|deadlock", "appender/observers stopped making progress; the goroutine dump shows them parked on locks", wit)
		return
	case hung:
		res.Inconclusive = "hammer program did not finish, no blocked-state witness"
		return
	}
	if n := atomic.LoadInt64(&backwards); n > 0 {
		res.Violate("C15|hammer-grow|size-went-backwards", fmt.Sprintf("a file that is only ever appended to was seen shrinking in %d of %d looks: %v", n, atomic.LoadInt64(&looks), first.Load()), wit)
	} else if v := first.Load(); v != nil {
		what := "appender-failed"
		if s := v.(string); strings.HasPrefix(s, "tail-read-") {
			what = s[:strings.Index(s, ":")]
		}
		res.Violate("C15|hammer-grow|"+what, v.(string), wit)
	}
	res.Nontrivial = true
	res.Count("hammer_grow_programs", 1)
	res.Count("hammer_ops", appends+int(atomic.LoadInt64(&looks)))
}

func sizeOf(info hackpadfs.FileInfo, err error) (int64, bool) {
	if err != nil || info == nil {
		return 0, false
	}
	return info.Size(), true
}

// c15hammerRenameObserver: a regular file is renamed along a chain f0 -> f1 -> f2 ... (each rename is one store
// transaction); observers stat the NEW name and then the OLD name of a link of the chain. Once the new name exists the old
// one is gone for good (names are never reused), so seeing both is a state no sequential order has.
func c15hammerRenameObserver(r *rand.Rand, cs c15case, res *core.CaseResult) {
	m, _ := mem.NewFS()
	_ = hackpadfs.Mkdir(m, "d", 0o755)
	_ = hackpadfs.WriteFullFile(m, "d/f0", []byte("payload"), 0o644)
	links := 800 + r.Intn(1200)
	observers := 2 + r.Intn(4)
	var cur int64 // index of the link the renamer works on
	var stop int32
	var both, looked int64
	var firstBoth atomic.Value
	var wg sync.WaitGroup
	var renameErr atomic.Value
	body := func() {
		wg.Add(1)
		go func() {
			defer wg.Done()
			defer atomic.StoreInt32(&stop, 1)
			for i := 0; i < links; i++ {
				atomic.StoreInt64(&cur, int64(i))
				if p := core.Recover(func() {
					if err := hackpadfs.Rename(m, fmt.Sprintf("d/f%d", i), fmt.Sprintf("d/f%d", i+1)); err != nil {
						renameErr.Store(fmt.Sprintf("Rename f%d -> f%d failed: %v", i, i+1, err))
					}
				}); p != "" {
					renameErr.Store("Rename panicked: " + p)
				}
				if renameErr.Load() != nil {
					return
				}
			}
		}()
		for o := 0; o < observers; o++ {
			wg.Add(1)
			go func() {
				defer wg.Done()
				for atomic.LoadInt32(&stop) == 0 {
					i := atomic.LoadInt64(&cur)
					_, errNew := hackpadfs.Stat(m, fmt.Sprintf("d/f%d", i+1))
					_, errOld := hackpadfs.Stat(m, fmt.Sprintf("d/f%d", i))
					atomic.AddInt64(&looked, 1)
					if errNew == nil && errOld == nil {
						if atomic.AddInt64(&both, 1) == 1 {
							firstBoth.Store(fmt.Sprintf("d/f%d and d/f%d", i, i+1))
						}
					}
				}
			}()
		}
		wg.Wait()
	}
	hung, confirmed := hammerWatch(body, &looked)
	atomic.StoreInt32(&stop, 1)
	wit := map[string]any{"case": cs, "links": links, "observers": observers}
	switch {
	case hung && confirmed:
		res.Violate("C15|hammer-rename|deadlock", "renamer/observers stopped making progress; the goroutine dump shows them parked on locks", wit)
		return
	case hung:
		res.Inconclusive = "hammer program did not finish, no blocked-state witness"
		return
	}
	if e := renameErr.Load(); e != nil {
		res.Violate("C15|hammer-rename|rename-failed", "the only goroutine that changes anything failed: "+e.(string), wit)
		return
	}
	if n := atomic.LoadInt64(&both); n > 0 {
		res.Violate("C15|hammer-rename|both-names-visible", fmt.Sprintf("an observer found the new name and then still the old name of one rename (%s) in %d of %d looks: a regular-file rename is one store transaction and must be atomic for an observer", firstBoth.Load(), n, atomic.LoadInt64(&looked)), wit)
	}
	res.Nontrivial = true
	res.Count("hammer_rename_programs", 1)
	res.Count("hammer_ops", links+int(atomic.LoadInt64(&looked)))
}

// c15hammerCrossCopy: two goroutines copy between two files in opposite directions through the blob interface of the
// handles (ReadBlobAt / WriteBlobAt, what a copy between files of one file system uses to avoid extra copies).
func c15hammerCrossCopy(r *rand.Rand, cs c15case, res *core.CaseResult) {
	m, _ := mem.NewFS()
	size := []int{64, 4096, 70000}[r.Intn(3)]
	_ = hackpadfs.WriteFullFile(m, "A", []byte(strings.Repeat("a", size)), 0o644)
	_ = hackpadfs.WriteFullFile(m, "B", []byte(strings.Repeat("b", size)), 0o644)
	iters := 400 + r.Intn(600)
	type blobRW interface {
		ReadBlobAt(length int, off int64) (blob.Blob, int, error)
		WriteBlobAt(p blob.Blob, off int64) (int, error)
	}
	var problems sync.Map
	var copies int64
	var wg sync.WaitGroup
	body := func() {
		for g := 0; g < 2; g++ {
			wg.Add(1)
			go func(g int) {
				defer wg.Done()
				from, to := "A", "B"
				if g == 1 {
					from, to = "B", "A"
				}
				src, err1 := hackpadfs.OpenFile(m, from, os.O_RDWR, 0)
				dst, err2 := hackpadfs.OpenFile(m, to, os.O_RDWR, 0)
				if err1 != nil || err2 != nil {
					problems.Store("setup", fmt.Sprint(err1, err2))
					return
				}
				defer func() { _ = src.Close(); _ = dst.Close() }()
				s, ok1 := src.(blobRW)
				d, ok2 := dst.(blobRW)
				if !ok1 || !ok2 {
					problems.Store("setup", "handles do not offer the blob interface")
					return
				}
				for i := 0; i < iters; i++ {
					if p := core.Recover(func() {
						b, _, err := s.ReadBlobAt(size, 0)
						if b == nil || (err != nil && !errors.Is(err, io.EOF)) {
							problems.Store("read-error", fmt.Sprintf("ReadBlobAt(%d, 0) failed: %v", size, err))
							return
						}
						if n, err := d.WriteBlobAt(b, 0); err != nil || n != b.Len() {
							problems.Store("write-error", fmt.Sprintf("WriteBlobAt of %d bytes returned n=%d err=%v", b.Len(), n, err))
						}
					}); p != "" {
						problems.Store("panic", p)
						return
					}
					atomic.AddInt64(&copies, 1)
				}
			}(g)
		}
		wg.Wait()
	}
	hung, confirmed := hammerWatch(body, &copies)
	wit := map[string]any{"case": cs, "size": size, "iterations": iters, "copies_completed": atomic.LoadInt64(&copies)}
	switch {
	case hung && confirmed:
		res.Violate("C15|hammer-crosscopy|deadlock", fmt.Sprintf("two goroutines copying A->B and B->A through the handles' blob interface stopped after %d copies; the goroutine dump shows them parked on locks", atomic.LoadInt64(&copies)), wit)
		return
	case hung:
		res.Inconclusive = "hammer program did not finish, no blocked-state witness"
		return
	}
	problems.Range(func(k, v any) bool {
		res.Violate("C15|hammer-crosscopy|"+k.(string), v.(string), wit)
		return true
	})
	// afterwards both files are whole copies of one of the two originals
	for _, n := range []string{"A", "B"} {
		b, err := hackpadfs.ReadFile(m, n)
		if err != nil || len(b) != size || (strings.Trim(string(b), "a") != "" && strings.Trim(string(b), "b") != "") {
			res.Violate("C15|hammer-crosscopy|mixed-file", fmt.Sprintf("after the copies %s holds %d bytes that are not one of the two originals (err %v)", n, len(b), err), wit)
		}
	}
	res.Nontrivial = true
	res.Count("hammer_crosscopy_programs", 1)
	res.Count("hammer_ops", int(atomic.LoadInt64(&copies)))
}

// c15hammerFirstWriters: round after round a brand-new, still empty file is written by 2..4 goroutines at the same
// instant, each through its own handle (opened before the start signal) and into its own region. These are the very
// first operations on the file's contents: whatever is set up lazily for them is set up now, by all of them at once
// (the race detector watches). Afterwards every region holds its writer's bytes.
func c15hammerFirstWriters(r *rand.Rand, cs c15case, res *core.CaseResult) {
	m, _ := mem.NewFS()
	rounds := 150 + r.Intn(100)
	k := 2 + r.Intn(3)
	region := []int{1, 100, 5000}[r.Intn(3)]
	var ops int64
	bad := ""
	body := func() {
		for round := 0; round < rounds && bad == ""; round++ {
			name := fmt.Sprintf("fresh%d", round)
			if round%2 == 0 {
				_ = hackpadfs.WriteFullFile(m, name, nil, 0o644)
			} else if f, err := hackpadfs.Create(m, name); err == nil {
				_ = f.Close()
			}
			hs := make([]hackpadfs.File, k)
			for i := range hs {
				h, err := hackpadfs.OpenFile(m, name, os.O_RDWR, 0)
				if err != nil {
					bad = "setup: " + err.Error()
					return
				}
				hs[i] = h
			}
			var goFlag int32
			var wg sync.WaitGroup
			errs := make([]error, k)
			for i := 0; i < k; i++ {
				wg.Add(1)
				go func(i int) {
					defer wg.Done()
					buf := bytes.Repeat([]byte{byte('a' + i)}, region)
					for atomic.LoadInt32(&goFlag) == 0 {
						runtime.Gosched() // (spinning without yielding starves the releasing goroutine when the machine is oversubscribed)
					}
					if p := core.Recover(func() { _, errs[i] = hackpadfs.WriteAtFile(hs[i], buf, int64(i*region)) }); p != "" {
						errs[i] = fmt.Errorf("panic: %s", p)
					}
					atomic.AddInt64(&ops, 1)
				}(i)
			}
			atomic.StoreInt32(&goFlag, 1)
			wg.Wait()
			for _, h := range hs {
				_ = h.Close()
			}
			got, rerr := hackpadfs.ReadFile(m, name)
			for i := 0; i < k && bad == ""; i++ {
				switch {
				case errs[i] != nil && strings.HasPrefix(errs[i].Error(), "panic"):
					bad = fmt.Sprintf("round %d: writer %d of %d first writers of a fresh file: %v", round, i, k, errs[i])
				case errs[i] == nil && (rerr != nil || len(got) < (i+1)*region || bytes.Count(got[i*region:(i+1)*region], []byte{byte('a' + i)}) != region):
					bad = fmt.Sprintf("round %d: %d goroutines wrote %d bytes each into their own regions of a brand-new file at the same instant, all successfully; region %d does not hold its writer's bytes afterwards (file: %d bytes, read error %v)", round, k, region, i, len(got), rerr)
				}
			}
			_ = hackpadfs.Remove(m, name)
		}
	}
	hung, confirmed := hammerWatch(body, &ops)
	wit := map[string]any{"case": cs, "writers": k, "region": region, "rounds": rounds}
	switch {
	case hung && confirmed:
		res.Violate("C15|hammer-first-writers|deadlock", "the first writers of a fresh file stopped making progress; the goroutine dump shows them parked on locks", wit)
	case hung:
		res.Inconclusive = "hammer program did not finish, no blocked-state witness"
	}
	if bad != "" {
		res.Violate("C15|hammer-first-writers|lost-write", bad, wit)
	}
	res.Nontrivial = true
	res.Count("hammer_first_writer_rounds", rounds)
	res.Count("hammer_ops", int(atomic.LoadInt64(&ops)))
}

// c15hammerWholeWrites: the file keeps its size; every write replaces the WHOLE contents with one letter (a single
// WriteAt of 4 KiB .. 200 KiB), every read takes a range in one ReadAt. Each call is one operation, so whatever order the
// calls took effect in, a read returns bytes of ONE write: two letters in one read is a torn write or a torn read.
func c15hammerWholeWrites(r *rand.Rand, cs c15case, res *core.CaseResult) {
	m, _ := mem.NewFS()
	size := []int{4096, 70 << 10, 130 << 10, 200 << 10}[r.Intn(4)]
	_ = hackpadfs.WriteFullFile(m, "f", []byte(strings.Repeat("i", size)), 0o644)
	writers, readers := 1+r.Intn(2), 2+r.Intn(3)
	iters := (100 + r.Intn(100)) * (1 + (256<<10)/size/8)
	var mu sync.Mutex
	problems := map[string]string{}
	report := func(kind, msg string) {
		mu.Lock()
		if _, ok := problems[kind]; !ok {
			problems[kind] = msg
		}
		mu.Unlock()
	}
	var stop int32
	var ops int64
	var wg sync.WaitGroup
	body := func() {
		var wwg sync.WaitGroup
		for w := 0; w < writers; w++ {
			wg.Add(1)
			wwg.Add(1)
			go func(w int) {
				defer wg.Done()
				defer wwg.Done()
				f, err := hackpadfs.OpenFile(m, "f", os.O_RDWR, 0)
				if err != nil {
					report("setup", err.Error())
					return
				}
				defer func() { _ = f.Close() }()
				var bufs [13][]byte
				for l := range bufs {
					bufs[l] = bytes.Repeat([]byte{byte('A' + w*13 + l)}, size)
				}
				for i := 0; i < iters; i++ {
					buf := append([]byte(nil), bufs[i%13]...) // (the harness scribbles over nothing here, but a caller may reuse its buffer)
					n, err := hackpadfs.WriteAtFile(f, buf, 0)
					atomic.AddInt64(&ops, 1)
					if err != nil || n != size {
						report("write-result", fmt.Sprintf("WriteAt of %d bytes at 0 on a file of that size returned n=%d, %v", size, n, err))
						return
					}
				}
			}(w)
		}
		go func() { wwg.Wait(); atomic.StoreInt32(&stop, 1) }()
		for k := 0; k < readers; k++ {
			wg.Add(1)
			go func(k int) {
				defer wg.Done()
				rr := rand.New(rand.NewSource(int64(k) + 5))
				f, err := m.Open("f")
				if err != nil {
					report("setup", err.Error())
					return
				}
				defer func() { _ = f.Close() }()
				buf := make([]byte, size)
				for atomic.LoadInt32(&stop) == 0 {
					off := 0
					if rr.Intn(2) == 0 {
						off = rr.Intn(size / 2)
					}
					n, err := hackpadfs.ReadAtFile(f, buf[:size-off], int64(off))
					atomic.AddInt64(&ops, 1)
					if n != size-off || (err != nil && err != io.EOF) {
						report("read-result", fmt.Sprintf("ReadAt of %d bytes at %d on a file that always holds %d bytes returned n=%d, %v", size-off, off, size, n, err))
						return
					}
					if bytes.Count(buf[:n], buf[:1]) == n {
						continue
					}
					for j := 1; j < n; j++ {
						if buf[j] != buf[0] {
							report("torn", fmt.Sprintf("one ReadAt of %d bytes at offset %d returned %q up to byte %d and %q from there on: parts of two different %d-byte writes, each of which replaced the whole contents in one call", n, off, buf[0], off+j, buf[j], size))
							return
						}
					}
				}
			}(k)
		}
		wg.Wait()
	}
	hung, confirmed := hammerWatch(body, &ops)
	atomic.StoreInt32(&stop, 1)
	wit := map[string]any{"case": cs, "readers": readers, "writers": writers, "size": size, "iterations": iters}
	switch {
	case hung && confirmed:
		res.Violate("C15|hammer-whole-writes|deadlock", "writers/readers of one file stopped making progress; the goroutine dump shows them parked on locks", wit)
	case hung:
		res.Inconclusive = "hammer program did not finish, no blocked-state witness"
	}
	for kind, msg := range problems {
		res.Violate("C15|hammer-whole-writes|"+kind, msg, wit)
	}
	res.Nontrivial = true
	res.Count("hammer_whole_write_programs", 1)
	res.Count("hammer_ops", int(atomic.LoadInt64(&ops)))
}

// c15hammerShrinkVsReaders: round after round a fresh file full of 'x' is read by goroutines with their own handles
// while one Truncate(0) through another handle empties it. Nothing ever writes anything else and nothing grows the
// file, so a read returns 'x' bytes (it took effect before the truncation) or nothing; any other byte is contents the
// file never had.
func c15hammerShrinkVsReaders(r *rand.Rand, cs c15case, res *core.CaseResult) {
	m, _ := mem.NewFS()
	size := []int{4096, 64 << 10, 256 << 10}[r.Intn(3)]
	rounds := 120 + r.Intn(120)
	readers := 2 + r.Intn(2)
	full := []byte(strings.Repeat("x", size))
	var mu sync.Mutex
	problems := map[string]string{}
	report := func(kind, msg string) {
		mu.Lock()
		if _, ok := problems[kind]; !ok {
			problems[kind] = msg
		}
		mu.Unlock()
	}
	var ops int64
	var twoShrinkersNow int32
	body := func() {
		for round := 0; round < rounds; round++ {
			name := fmt.Sprintf("f%d", round)
			if err := hackpadfs.WriteFullFile(m, name, full, 0o644); err != nil {
				report("setup", err.Error())
				return
			}
			var stop int32
			var wg sync.WaitGroup
			twoShrinkers := round%3 == 2
			atomic.StoreInt32(&twoShrinkersNow, 0)
			if twoShrinkers {
				atomic.StoreInt32(&twoShrinkersNow, 1)
			}
			started := make(chan struct{}, readers)
			for k := 0; k < readers; k++ {
				wg.Add(1)
				go func() {
					defer wg.Done()
					f, err := m.Open(name)
					if err != nil {
						report("setup", err.Error())
						started <- struct{}{}
						return
					}
					defer func() { _ = f.Close() }()
					buf := make([]byte, size)
					first := true
					for atomic.LoadInt32(&stop) == 0 || first {
						n, err := hackpadfs.ReadAtFile(f, buf, 0)
						atomic.AddInt64(&ops, 1)
						if first {
							first = false
							started <- struct{}{}
						}
						if err != nil && err != io.EOF {
							continue // (a read overlapping the shrink failing outright is the recorded finding F69)
						}
						for j := 0; j < n && bytes.Count(buf[:n], []byte{'x'}) != n; j++ {
							if buf[j] == 0 && atomic.LoadInt32(&twoShrinkersNow) == 1 {
								continue // (two shrinkers: quarter-then-half legitimately extends with zeros)
							}
							if buf[j] != 'x' {
								report("foreign-bytes", fmt.Sprintf("a ReadAt on a %d-byte file of 'x' that another handle truncates to 0 returned n=%d with byte %q at offset %d: contents the file never had", size, n, buf[j], j))
								return
							}
						}
					}
				}()
			}
			for k := 0; k < readers; k++ {
				<-started
			}
			// two handles shrink the file at the same moment, to a half and to a quarter (every third round: one, to nothing):
			// whichever order the two take effect in, a quarter is what remains
			targets := []int64{int64(size / 2), int64(size / 4)}
			if round%3 != 2 {
				targets = []int64{0}
			}
			twoShrinkers = len(targets) == 2
			var twg sync.WaitGroup
			var goFlag int32
			for _, tgt := range targets {
				twg.Add(1)
				go func(tgt int64) {
					defer twg.Done()
					h, err := hackpadfs.OpenFile(m, name, os.O_RDWR, 0)
					if err != nil {
						return
					}
					for atomic.LoadInt32(&goFlag) == 0 {
						runtime.Gosched() // (spinning without yielding starves the releasing goroutine when the machine is oversubscribed)
					}
					_ = hackpadfs.TruncateFile(h, tgt)
					_ = h.Close()
				}(tgt)
			}
			atomic.StoreInt32(&goFlag, 1)
			twg.Wait()
			atomic.StoreInt32(&stop, 1)
			wg.Wait()
			if after, err := hackpadfs.ReadFile(m, name); err == nil {
				// half-then-quarter leaves a quarter; quarter-then-half leaves a half whose second quarter is the zero fill of
				// the extension (Truncate extends, like os): the bytes that were cut off never come back
				q := int(targets[len(targets)-1])
				ok := len(after) == q
				if len(targets) == 2 && len(after) == int(targets[0]) {
					ok = bytes.Count(after[q:], []byte{0}) == len(after)-q
				}
				if !ok {
					report("shrunk-to-a-state-no-order-gives", fmt.Sprintf("a %d-byte file of 'x' was truncated to %v by handles of its own at the same moment; it now has %d bytes, %d of them 'x' (orders: %d bytes of 'x', or %d bytes whose tail from %d on is zero fill)", size, targets, len(after), bytes.Count(after, []byte{'x'}), q, targets[0], q))
					return
				}
			}
			_ = hackpadfs.Remove(m, name)
		}
	}
	hung, confirmed := hammerWatch(body, &ops)
	wit := map[string]any{"case": cs, "readers": readers, "size": size, "rounds": rounds}
	switch {
	case hung && confirmed:
		res.Violate("C15|hammer-shrink-vs-readers|deadlock", "readers and the truncating handle stopped making progress; the goroutine dump shows them parked on locks", wit)
	case hung:
		res.Inconclusive = "hammer program did not finish, no blocked-state witness"
	}
	for kind, msg := range problems {
		res.Violate("C15|hammer-shrink-vs-readers|"+kind, msg, wit)
	}
	res.Nontrivial = true
	res.Count("hammer_shrink_vs_readers_programs", 1)
	res.Count("hammer_ops", int(atomic.LoadInt64(&ops)))
}

// c15hammerFile: readers and positional writers against truncation of the same file, each through its own handle.
func c15hammerFile(r *rand.Rand, cs c15case, res *core.CaseResult) {
	m, _ := mem.NewFS()
	initial := strings.Repeat("i", 4096)
	_ = hackpadfs.WriteFullFile(m, "f", []byte(initial), 0o644)
	readers := 2 + r.Intn(4)
	writers := 1 + r.Intn(2)
	iters := 1500 + r.Intn(1500)
	wsize := []int{64, 700, 4096, 32 << 10}[r.Intn(4)]
	woff := []int64{0, 1, 512, 5000}[r.Intn(4)]
	shrinkVia := r.Intn(3) // 0 Truncate(0), 1 Truncate(small), 2 re-open with O_TRUNC
	allowed := map[byte]bool{0: true, 'i': true}
	for w := 0; w < writers; w++ {
		allowed[byte('A'+w)] = true
	}
	var mu sync.Mutex
	problems := map[string]string{} // kind -> first message
	report := func(kind, msg string) {
		mu.Lock()
		if _, ok := problems[kind]; !ok {
			problems[kind] = msg
		}
		mu.Unlock()
	}
	var stop int32
	var ops int64
	var wg sync.WaitGroup
	body := func() {
		// truncator
		wg.Add(1)
		go func() {
			defer wg.Done()
			defer atomic.StoreInt32(&stop, 1)
			f, err := hackpadfs.OpenFile(m, "f", os.O_RDWR, 0)
			if err != nil {
				report("setup", err.Error())
				return
			}
			defer func() { _ = f.Close() }()
			for i := 0; i < iters; i++ {
				var p string
				switch shrinkVia {
				case 0:
					p = core.Recover(func() { _ = hackpadfs.TruncateFile(f, 0) })
				case 1:
					p = core.Recover(func() { _ = hackpadfs.TruncateFile(f, int64(i%7)) })
				default:
					p = core.Recover(func() {
						if g, err := hackpadfs.OpenFile(m, "f", os.O_WRONLY|os.O_TRUNC, 0); err == nil {
							_ = g.Close()
						}
					})
				}
				if p == "" && i%2 == 0 {
					p = core.Recover(func() { _ = hackpadfs.TruncateFile(f, 6000) }) // grow again (zero fill)
				}
				atomic.AddInt64(&ops, 1)
				if p != "" {
					report("panic:shrink", "shrinking the file panicked: "+p)
					return
				}
			}
		}()
		for w := 0; w < writers; w++ {
			wg.Add(1)
			go func(w int) {
				defer wg.Done()
				f, err := hackpadfs.OpenFile(m, "f", os.O_RDWR, 0)
				if err != nil {
					report("setup", err.Error())
					return
				}
				defer func() { _ = f.Close() }()
				buf := []byte(strings.Repeat(string(rune('A'+w)), wsize))
				for i := 0; atomic.LoadInt32(&stop) == 0; i++ {
					var n int
					var err error
					p := core.Recover(func() {
						if i%3 == 2 {
							_, _ = hackpadfs.SeekFile(f, woff, io.SeekStart)
							n, err = hackpadfs.WriteFile(f, buf)
						} else {
							n, err = hackpadfs.WriteAtFile(f, buf, woff)
						}
					})
					atomic.AddInt64(&ops, 1)
					if p != "" {
						report("panic:write", fmt.Sprintf("a %d-byte write at offset %d while another handle shrinks the file panicked: %s", wsize, woff, p))
						return
					}
					if err == nil && n != len(buf) {
						report("short-write", fmt.Sprintf("write of %d bytes returned n=%d with a nil error", len(buf), n))
					}
					if err != nil {
						report("write-error", fmt.Sprintf("write of %d bytes at offset %d failed with %v", len(buf), woff, err))
					}
				}
			}(w)
		}
		for k := 0; k < readers; k++ {
			wg.Add(1)
			go func(k int) {
				defer wg.Done()
				rr := rand.New(rand.NewSource(int64(k) + 77))
				f, err := m.Open("f")
				if err != nil {
					report("setup", err.Error())
					return
				}
				defer func() { _ = f.Close() }()
				buf := make([]byte, 8192)
				for i := 0; atomic.LoadInt32(&stop) == 0; i++ {
					off := int64(rr.Intn(6000))
					ln := 1 + rr.Intn(len(buf)-1)
					var n int
					var err error
					p := core.Recover(func() {
						if i%4 == 3 {
							_, _ = hackpadfs.SeekFile(f, off, io.SeekStart)
							n, err = f.Read(buf[:ln])
						} else {
							n, err = hackpadfs.ReadAtFile(f, buf[:ln], off)
						}
					})
					atomic.AddInt64(&ops, 1)
					if p != "" {
						report("panic:read", fmt.Sprintf("reading %d bytes at offset %d while another handle shrinks the file panicked: %s", ln, off, p))
						return
					}
					if n < 0 || n > ln {
						report("read-n", fmt.Sprintf("read of %d bytes returned n=%d", ln, n))
						return
					}
					if err != nil && !errors.Is(err, io.EOF) {
						report("read-error", fmt.Sprintf("read at %d failed with %v", off, err))
						continue
					}
					for _, b := range buf[:n] {
						if !allowed[b] {
							report("foreign-bytes", fmt.Sprintf("a read returned byte %q, which no writer ever wrote", b))
							return
						}
					}
				}
			}(k)
		}
		wg.Wait()
	}
	hung, confirmed := hammerWatch(body, &ops)
	atomic.StoreInt32(&stop, 1)
	wit := map[string]any{"case": cs, "readers": readers, "writers": writers, "write_size": wsize, "write_offset": woff, "shrink_via": shrinkVia, "iterations": iters}
	switch {
	case hung && confirmed:
		res.Violate("C15|hammer-file|deadlock", "readers/writers/truncator of one file stopped making progress; the goroutine dump shows them parked on locks", wit)
	case hung:
		res.Inconclusive = "hammer program did not finish, no blocked-state witness"
	}
	for kind, msg := range problems {
		res.Violate("C15|hammer-file|"+kind, msg, wit)
	}
	res.Nontrivial = true
	res.Count("hammer_file_programs", 1)
	res.Count("hammer_ops", int(atomic.LoadInt64(&ops)))
}

// c15hammerOwnChanges: every writer verifies, after each of its own completed operations, that its own observations
// reflect it, while observers list and stat in a loop; afterwards the tree must be exactly what the writers left.
func c15hammerOwnChanges(r *rand.Rand, cs c15case, res *core.CaseResult) {
	m, _ := mem.NewFS()
	writers := 2 + r.Intn(2)
	observers := 2 + r.Intn(2)
	shared := r.Intn(3) != 0 // all writers in one directory (distinct names) or one directory each
	iters := 500 + r.Intn(500)
	dirOf := func(w int) string {
		if shared {
			return "d"
		}
		return fmt.Sprintf("d%d", w)
	}
	for w := 0; w < writers; w++ {
		_ = hackpadfs.MkdirAll(m, dirOf(w), 0o755)
	}
	if r.Intn(2) == 0 {
		// many entries elsewhere: whatever a listing has to walk through takes longer, so that changes of the listed
		// directory fall INSIDE a listing more often
		_ = hackpadfs.Mkdir(m, "zz-elsewhere", 0o755)
		for i := 0; i < 1500; i++ {
			_ = hackpadfs.WriteFullFile(m, fmt.Sprintf("zz-elsewhere/f%04d", i), nil, 0o644)
		}
	}
	var mu sync.Mutex
	var problems []string
	report := func(kind, msg string) {
		mu.Lock()
		if len(problems) < 5 {
			problems = append(problems, kind+"\x00"+msg)
		}
		mu.Unlock()
	}
	var stop int32
	var ops int64
	final := make([]map[string]bool, writers)
	var unavailable int64
	// listed: is 'name' in the listing of dir? ok=false: no listing could be obtained (F46), nothing can be asserted
	listed := func(dir, name string) (in bool, prob string, ok bool) {
		entries, err := hackpadfs.ReadDir(m, dir)
		for try := 0; err != nil && errors.Is(err, hackpadfs.ErrNotExist) && try < 200; try++ {
			// (F46) a listing is not a snapshot: it fails when another goroutine's entry vanishes between the names and their Stat
			entries, err = hackpadfs.ReadDir(m, dir)
		}
		if err != nil && errors.Is(err, hackpadfs.ErrNotExist) {
			atomic.AddInt64(&unavailable, 1)
			return false, "", false
		}
		if err != nil {
			return false, "listing failed: " + err.Error(), true
		}
		seen := map[string]bool{}
		prev := ""
		for i, e := range entries {
			if seen[e.Name()] {
				return false, "duplicate name " + e.Name(), true
			}
			if i > 0 && e.Name() < prev {
				return false, "listing not sorted", true
			}
			prev = e.Name()
			seen[e.Name()] = true
		}
		return seen[name], "", true
	}
	var wg sync.WaitGroup
	body := func() {
		var ww sync.WaitGroup
		for w := 0; w < writers; w++ {
			ww.Add(1)
			go func(w int) {
				defer ww.Done()
				dir := dirOf(w)
				mine := map[string]bool{}
				final[w] = mine
				fail := func(kind, format string, a ...any) {
					report(kind, fmt.Sprintf("[writer %d in %s] ", w, dir)+fmt.Sprintf(format, a...))
				}
				for i := 0; i < iters; i++ {
					name := fmt.Sprintf("w%d-%d", w, i%5)
					p := dir + "/" + name
					atomic.AddInt64(&ops, 1)
					var bad string
					pan := core.Recover(func() {
						if !mine[name] {
							var err error
							if i%3 == 0 {
								err = hackpadfs.Mkdir(m, p, 0o755)
							} else {
								err = hackpadfs.WriteFullFile(m, p, []byte(name), 0o644)
							}
							if err != nil {
								bad = fmt.Sprintf("creating %s failed: %v", p, err)
								return
							}
							mine[name] = true
							if in, prob, ok := listed(dir, name); ok && (prob != "" || !in) {
								bad = fmt.Sprintf("after its own successful creation of %s the writer's listing of %s does not show it %s", p, dir, prob)
								return
							}
							if _, err := hackpadfs.Stat(m, p); err != nil {
								bad = fmt.Sprintf("after its own successful creation of %s, Stat fails: %v", p, err)
							}
							return
						}
						if i%4 == 1 {
							to := name + "-r"
							if err := hackpadfs.Rename(m, p, dir+"/"+to); err != nil {
								bad = fmt.Sprintf("renaming its own %s failed: %v", p, err)
								return
							}
							delete(mine, name)
							mine[to] = true
							inOld, _, ok1 := listed(dir, name)
							inNew, prob, ok2 := listed(dir, to)
							if ok1 && ok2 && (inOld || !inNew || prob != "") {
								bad = fmt.Sprintf("after its own rename %s -> %s the listing shows old=%v new=%v %s", name, to, inOld, inNew, prob)
								return
							}
							if err := hackpadfs.Remove(m, dir+"/"+to); err != nil {
								bad = fmt.Sprintf("removing its own %s failed: %v", to, err)
								return
							}
							delete(mine, to)
							if in, _, ok := listed(dir, to); ok && in {
								bad = fmt.Sprintf("after its own successful Remove of %s the listing still shows it", to)
							}
							return
						}
						if err := hackpadfs.Remove(m, p); err != nil {
							bad = fmt.Sprintf("removing its own %s failed: %v", p, err)
							return
						}
						delete(mine, name)
						if in, prob, ok := listed(dir, name); ok && (in || prob != "") {
							bad = fmt.Sprintf("after its own successful Remove of %s the writer's listing of %s still shows it %s", p, dir, prob)
							return
						}
						if _, err := hackpadfs.Stat(m, p); !errors.Is(err, hackpadfs.ErrNotExist) {
							bad = fmt.Sprintf("after its own successful Remove of %s, Stat returns %v", p, err)
						}
					})
					if pan != "" {
						fail("panic", "panicked: %s", pan)
						return
					}
					if bad != "" {
						fail("own-change-not-visible", "%s", bad)
						return
					}
				}
			}(w)
		}
		for o := 0; o < observers; o++ {
			wg.Add(1)
			go func(o int) {
				defer wg.Done()
				for i := 0; atomic.LoadInt32(&stop) == 0; i++ {
					dir := dirOf((o + i) % writers)
					pan := core.Recover(func() {
						entries, err := hackpadfs.ReadDir(m, dir)
						if err != nil {
							// an entry may vanish between listing and the Stat behind its Info: tolerated (F46-like); a failing listing of an existing directory is not an observer's assertion
							return
						}
						for _, e := range entries {
							_, _ = hackpadfs.Stat(m, dir+"/"+e.Name())
						}
					})
					atomic.AddInt64(&ops, 1)
					if pan != "" {
						report("panic", "an observer panicked: "+pan)
						return
					}
				}
			}(o)
		}
		ww.Wait()
		atomic.StoreInt32(&stop, 1)
		wg.Wait()
	}
	hung, confirmed := hammerWatch(body, &ops)
	atomic.StoreInt32(&stop, 1)
	wit := map[string]any{"case": cs, "writers": writers, "observers": observers, "shared_directory": shared, "iterations": iters}
	switch {
	case hung && confirmed:
		res.Violate("C15|hammer-own|deadlock", "writers/observers stopped making progress; the goroutine dump shows them parked on locks", wit)
		return
	case hung:
		res.Inconclusive = "hammer program did not finish, no blocked-state witness"
		return
	}
	for _, p := range problems {
		kv := strings.SplitN(p, "\x00", 2)
		res.Violate("C15|hammer-own|"+kv[0], kv[1], wit)
		return
	}
	// quiescent: the tree is exactly what the writers left, and well formed
	want := map[string]bool{}
	for w := 0; w < writers; w++ {
		for n := range final[w] {
			want[dirOf(w)+"/"+n] = true
		}
	}
	got := map[string]bool{}
	for w := 0; w < writers; w++ {
		entries, err := hackpadfs.ReadDir(m, dirOf(w))
		if err != nil {
			res.Violate("C15|hammer-own|final-listing", fmt.Sprintf("after all goroutines finished, listing %s fails: %v", dirOf(w), err), wit)
			return
		}
		for _, e := range entries {
			got[dirOf(w)+"/"+e.Name()] = true
		}
	}
	var diff []string
	for p := range want {
		if !got[p] {
			diff = append(diff, "missing "+p)
		}
	}
	for p := range got {
		if !want[p] {
			diff = append(diff, "extra "+p)
		}
	}
	sort.Strings(diff)
	if len(diff) > 0 {
		res.Violate("C15|hammer-own|final-tree", fmt.Sprintf("after all goroutines finished the listings differ from what the writers completed: %v", diff), wit)
		return
	}
	var cands []string
	for p := range want {
		cands = append(cands, p)
	}
	if probs, _ := fsx.Closure(m, append(cands, fsx.Candidates([]string{"d", "d0", "d1", "d2"}, 1)...)); len(probs) > 0 {
		res.Violate("C15|hammer-own|final-tree-malformed", "after all goroutines finished: "+probs[0][1], wit)
	}
	res.Nontrivial = true
	res.Count("hammer_own_programs", 1)
	res.Count("hammer_own_listings_unavailable", int(atomic.LoadInt64(&unavailable)))
	res.Count("hammer_ops", int(atomic.LoadInt64(&ops)))
}
