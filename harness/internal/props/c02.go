package props

import (
	"fmt"
	"io"
	"math"
	"math/rand"
	"os"
	"strings"
	"sync"

	"hpverif/internal/core"
	"hpverif/internal/fsx"

	"github.com/hack-pad/hackpadfs"
	hpos "github.com/hack-pad/hackpadfs/os"
)

// C02: file handles behave like os.File.

type c02case struct {
	NoProbe bool       `json:"no_probe,omitempty"` // handle offsets are probed (with Seek) only after the last call: the probe itself is a call the handle sees
	Path    string     `json:"path,omitempty"`     // the file the script works on: "f" (exists) or "n" (created by the first Open)
	Name    string     `json:"name"`
	Subject string     `json:"subject"`
	Init    string     `json:"init"` // initial contents of "f"
	Steps   []fsx.Step `json:"steps"`
}

var c02kinds = map[string]int{
	"ro": os.O_RDONLY, "wo": os.O_WRONLY, "rw": os.O_RDWR,
	"wo+app": os.O_WRONLY | os.O_APPEND, "rw+app": os.O_RDWR | os.O_APPEND,
	"rw+trunc": os.O_RDWR | os.O_TRUNC, "wo+creat": os.O_WRONLY | os.O_CREATE, "ro+trunc": os.O_RDONLY | os.O_TRUNC,
}
var c02kindNames = []string{"ro", "wo", "rw", "wo+app", "rw+app", "rw+trunc", "wo+creat", "ro+trunc", "dir"}

// kinds whose Open creates the file (path "n" does not exist before)
var c02newKinds = map[string]int{
	"new:rw+creat+app": os.O_RDWR | os.O_CREATE | os.O_APPEND, "new:wo+creat+app": os.O_WRONLY | os.O_CREATE | os.O_APPEND,
	"new:rw+creat+excl": os.O_RDWR | os.O_CREATE | os.O_EXCL, "new:rw+creat+trunc": os.O_RDWR | os.O_CREATE | os.O_TRUNC,
}
var c02newKindNames = []string{"new:rw+creat+app", "new:wo+creat+app", "new:rw+creat+excl", "new:rw+creat+trunc"}

func c02open(slot int, kind string) fsx.Step {
	if fl, ok := c02newKinds[kind]; ok {
		return fsx.Step{K: "Open", P: "n", Flag: fl, Perm: 0o644, Slot: slot}
	}
	if kind == "dir" {
		return fsx.Step{K: "Open", P: "d", Flag: os.O_RDONLY, Slot: slot}
	}
	return fsx.Step{K: "Open", P: "f", Flag: c02kinds[kind], Perm: 0o644, Slot: slot}
}

// c02ops enumerates handle calls with arguments around a file of length l and a handle at offset pos.
func c02ops(slot, l int) []fsx.Step {
	var ops []fsx.Step
	for _, n := range []int{0, 1, 3, l, l + 4} {
		ops = append(ops, fsx.Step{K: "H.Read", Slot: slot, N: n})
	}
	for _, off := range []int64{-1, 0, 2, int64(l) - 1, int64(l), int64(l) + 3} {
		for _, n := range []int{0, 1, 4, l + 2} {
			ops = append(ops, fsx.Step{K: "H.ReadAt", Slot: slot, N: n, Off: off})
		}
		ops = append(ops, fsx.Step{K: "H.WriteAt", Slot: slot, Data: "WA", Off: off}, fsx.Step{K: "H.WriteAt", Slot: slot, Data: "", Off: off})
		for _, wh := range []int{io.SeekStart, io.SeekCurrent, io.SeekEnd, 9} {
			ops = append(ops, fsx.Step{K: "H.Seek", Slot: slot, Off: off, Whence: wh})
		}
		ops = append(ops, fsx.Step{K: "H.Truncate", Slot: slot, Off: off})
	}
	// offsets at the edge of int64 (off+len overflows): no Truncate here - a file system that honours it would allocate
	for _, off := range []int64{math.MaxInt64, math.MaxInt64 - 1, math.MinInt64} {
		// (no ReadAt: pread(2) answers EINVAL for offsets whose end overflows, a kernel rule; "beyond the end" is EOF otherwise)
		ops = append(ops, fsx.Step{K: "H.WriteAt", Slot: slot, Data: "WA", Off: off})
		for _, wh := range []int{io.SeekStart, io.SeekCurrent, io.SeekEnd} {
			ops = append(ops, fsx.Step{K: "H.Seek", Slot: slot, Off: off, Whence: wh})
		}
	}
	ops = append(ops, fsx.Step{K: "H.Write", Slot: slot, Data: "WRITE"}, fsx.Step{K: "H.Write", Slot: slot, Data: ""}, fsx.Step{K: "H.Write", Slot: slot, Data: strings.Repeat("L", 4200)},
		fsx.Step{K: "H.Stat", Slot: slot}, fsx.Step{K: "H.Close", Slot: slot})
	return ops
}

var c02once sync.Once
var c02matrix []c02case

func c02build() {
	c02once.Do(func() {
		const init = "0123456789"
		for _, kind := range c02newKindNames {
			// the handle creates the file, fills it, moves back, and then the call under test runs (also after another handle extended the file)
			fill := []fsx.Step{c02open(0, kind), {K: "H.Write", Slot: 0, Data: init}, {K: "H.Seek", Slot: 0, Off: 3, Whence: io.SeekStart}}
			other := fsx.Step{K: "Open", P: "n", Flag: os.O_RDWR, Slot: 1}
			for _, op := range c02ops(0, len(init)) {
				c02matrix = append(c02matrix, c02case{Path: "n", Name: kind + "/" + op.K, Subject: "mem", Steps: append(append([]fsx.Step(nil), fill...), op, fsx.Step{K: "H.Stat", Slot: 0})})
				c02matrix = append(c02matrix, c02case{Path: "n", Name: kind + "/" + op.K + "/single", Subject: "kvplain", Steps: append(append([]fsx.Step(nil), fill...), op)})
				c02matrix = append(c02matrix, c02case{Path: "n", Name: kind + "/" + op.K + "/other-grew", Subject: "mem", Steps: append(append([]fsx.Step(nil), fill...), other, fsx.Step{K: "H.WriteAt", Slot: 1, Data: "GROWN", Off: 10}, op, fsx.Step{K: "H.Stat", Slot: 0})})
			}
		}
		// a handle that has reported end-of-file keeps reading when the file grows afterwards (by any means)
		for _, kind := range []string{"ro", "rw", "rw+app"} {
			eof := []fsx.Step{c02open(0, kind), {K: "H.Read", Slot: 0, N: 100}, {K: "H.Read", Slot: 0, N: 4}}
			after := []fsx.Step{{K: "H.Read", Slot: 0, N: 8}, {K: "H.Read", Slot: 0, N: 100}, {K: "H.Stat", Slot: 0}}
			grows := map[string][]fsx.Step{
				"other-writeat":  {c02open(1, "rw"), {K: "H.WriteAt", Slot: 1, Data: "GROWN", Off: int64(len(init))}},
				"other-append":   {c02open(1, "wo+app"), {K: "H.Write", Slot: 1, Data: "APPENDED"}},
				"other-truncate": {c02open(1, "rw"), {K: "H.Truncate", Slot: 1, Off: int64(len(init)) + 7}},
				"rewrite":        {{K: "WriteFullFile", P: "f", Data: init + "-and-more", Perm: 0o644}},
			}
			if kind != "ro" {
				grows["own-writeat"] = []fsx.Step{{K: "H.WriteAt", Slot: 0, Data: "OWN", Off: int64(len(init)) + 2}}
				grows["own-truncate"] = []fsx.Step{{K: "H.Truncate", Slot: 0, Off: int64(len(init)) + 5}}
			}
			for name, g := range grows {
				steps := append(append(append([]fsx.Step(nil), eof...), g...), after...)
				c02matrix = append(c02matrix, c02case{Name: kind + "/read-after-eof/" + name, Subject: "mem", Init: init, Steps: steps, NoProbe: true})
				c02matrix = append(c02matrix, c02case{Name: kind + "/read-after-eof/" + name + "/probed", Subject: "mem", Init: init, Steps: steps})
			}
		}
		// a file that carries a special mode bit is a regular file like any other: its handles follow its size
		for _, kind := range []string{"ro", "rw", "rw+app"} {
			for _, mode := range []uint32{uint32(os.ModeSticky) | 0o644, uint32(os.ModeSetuid|os.ModeSetgid) | 0o755} {
				steps := []fsx.Step{{K: "Chmod", P: "f", Perm: mode}, c02open(0, kind), {K: "H.Seek", Slot: 0, Off: 0, Whence: io.SeekEnd}, c02open(1, "rw"), {K: "H.WriteAt", Slot: 1, Data: "GROWN", Off: 10},
					{K: "H.Seek", Slot: 0, Off: 2, Whence: io.SeekStart}, {K: "H.Read", Slot: 0, N: 20}, {K: "H.Stat", Slot: 0}, {K: "H.Seek", Slot: 0, Off: 0, Whence: io.SeekEnd}, {K: "H.Write", Slot: 0, Data: "TAIL"},
					{K: "H.Truncate", Slot: 1, Off: 3}, {K: "H.Seek", Slot: 0, Off: 0, Whence: io.SeekEnd}, {K: "H.Read", Slot: 0, N: 4}, {K: "ReadFile", P: "f"}}
				c02matrix = append(c02matrix, c02case{Name: fmt.Sprintf("%s/special-mode-file/%o", kind, mode), Subject: "mem", Init: init, Steps: steps})
			}
		}
		// a handle kept across a Rename of its file (or of the directory above it) and a handle opened under the new name are
		// handles of ONE file: each sees what the other writes
		for _, via := range []string{"file", "ancestor"} {
			old, renamed := "f", "g"
			mv := fsx.Step{K: "Rename", P: "f", P2: "g"}
			pre := []fsx.Step{}
			if via == "ancestor" {
				old, renamed = "d/in", "e/in"
				pre = []fsx.Step{{K: "WriteFullFile", P: "d/in", Data: init, Perm: 0o644}}
				mv = fsx.Step{K: "Rename", P: "d", P2: "e"}
			}
			steps := append(pre, fsx.Step{K: "Open", P: old, Flag: os.O_RDWR, Slot: 0}, fsx.Step{K: "H.Read", Slot: 0, N: 3}, mv, fsx.Step{K: "Open", P: renamed, Flag: os.O_RDWR, Slot: 1},
				fsx.Step{K: "H.WriteAt", Slot: 1, Data: "NEW", Off: 0}, fsx.Step{K: "H.ReadAt", Slot: 0, N: 10, Off: 0}, fsx.Step{K: "H.Truncate", Slot: 1, Off: 20}, fsx.Step{K: "H.Stat", Slot: 0},
				fsx.Step{K: "H.Seek", Slot: 0, Off: 0, Whence: io.SeekEnd}, fsx.Step{K: "H.ReadAt", Slot: 1, N: 30, Off: 0}, fsx.Step{K: "ReadFile", P: renamed})
			c02matrix = append(c02matrix, c02case{Name: "rw/handle-across-rename-of-" + via, Subject: "mem", Init: init, Steps: steps})
		}
		// an Open that fails (exclusive create of a name that exists, with and without O_TRUNC; O_TRUNC on a directory) while a
		// handle on the file is open: the handle goes on reading what it read before
		for _, fl := range []int{os.O_RDWR | os.O_CREATE | os.O_EXCL | os.O_TRUNC, os.O_WRONLY | os.O_CREATE | os.O_EXCL | os.O_TRUNC | os.O_APPEND, os.O_RDWR | os.O_CREATE | os.O_EXCL} {
			for _, subj := range []string{"mem", "kvplain"} {
				steps := []fsx.Step{c02open(0, "rw"), {K: "H.Read", Slot: 0, N: 3}, {K: "Open", P: "f", Flag: fl, Perm: 0o644, Slot: 1}, {K: "H.Stat", Slot: 0}, {K: "H.Read", Slot: 0, N: 20}, {K: "H.ReadAt", Slot: 0, N: 10, Off: 0}}
				c02matrix = append(c02matrix, c02case{Name: fmt.Sprintf("rw/failing-open-of-the-same-file/%#x", fl), Subject: subj, Init: init, Steps: steps})
			}
		}
		// files and single transfers well beyond any internal chunk size (64 KiB, 128 KiB): one call, one complete transfer
		big := make([]byte, 200<<10)
		for i := range big {
			big[i] = byte('a' + (i/7+i%5)%26)
		}
		bigData := strings.Repeat("W", 180<<10)
		for _, subj := range []string{"mem", "kvplain"} {
			for _, kind := range []string{"ro", "rw", "rw+app"} {
				reads := []fsx.Step{c02open(0, kind), {K: "H.ReadAt", Slot: 0, N: 150000, Off: 0}, {K: "H.ReadAt", Slot: 0, N: 100000, Off: 150000}, {K: "H.ReadAt", Slot: 0, N: 65537, Off: 65535},
					{K: "H.Read", Slot: 0, N: 70000}, {K: "H.Read", Slot: 0, N: 131073}, {K: "H.Read", Slot: 0, N: 100000}, {K: "H.Stat", Slot: 0}}
				c02matrix = append(c02matrix, c02case{Name: kind + "/big/reads", Subject: subj, Init: string(big), Steps: reads, NoProbe: true})
				c02matrix = append(c02matrix, c02case{Name: kind + "/big/reads/probed", Subject: subj, Init: string(big), Steps: reads})
				if kind != "ro" {
					writes := []fsx.Step{c02open(0, kind), {K: "H.Write", Slot: 0, Data: bigData}, {K: "H.WriteAt", Slot: 0, Data: bigData[:70000], Off: 1000}, {K: "H.Seek", Slot: 0, Off: 500, Whence: io.SeekStart}, {K: "H.Read", Slot: 0, N: 190000}, {K: "H.Truncate", Slot: 0, Off: 300 << 10}, {K: "H.ReadAt", Slot: 0, N: 120000, Off: 190 << 10}, {K: "H.Stat", Slot: 0}}
					c02matrix = append(c02matrix, c02case{Name: kind + "/big/writes", Subject: subj, Init: string(big), Steps: writes, NoProbe: true})
				}
			}
		}
		for _, kind := range c02kindNames {
			for _, op := range c02ops(0, len(init)) {
				// (a) fresh handle moved to offset 3, (b) the same after another handle grew the file, (c) after another handle shrank it
				base := []fsx.Step{c02open(0, kind), {K: "H.Seek", Slot: 0, Off: 3, Whence: io.SeekStart}}
				c02matrix = append(c02matrix, c02case{Name: kind + "/" + op.K, Subject: "mem", Init: init, Steps: append(append([]fsx.Step(nil), base...), op, fsx.Step{K: "H.Read", Slot: 0, N: 4}, fsx.Step{K: "H.Stat", Slot: 0})})
				c02matrix = append(c02matrix, c02case{Name: kind + "/" + op.K + "/single", Subject: "kvplain", Init: init, Steps: append(append([]fsx.Step(nil), base...), op, fsx.Step{K: "H.Read", Slot: 0, N: 4})})
				grow := append(append([]fsx.Step(nil), base...), c02open(1, "rw"), fsx.Step{K: "H.WriteAt", Slot: 1, Data: "GROWN", Off: 10}, op, fsx.Step{K: "H.Stat", Slot: 0}, fsx.Step{K: "H.Read", Slot: 0, N: 20})
				c02matrix = append(c02matrix, c02case{Name: kind + "/" + op.K + "/other-grew", Subject: "mem", Init: init, Steps: grow})
				shrink := append(append([]fsx.Step(nil), base...), c02open(1, "rw"), fsx.Step{K: "H.Truncate", Slot: 1, Off: 2}, op, fsx.Step{K: "H.Stat", Slot: 0}, fsx.Step{K: "H.Read", Slot: 0, N: 20})
				c02matrix = append(c02matrix, c02case{Name: kind + "/" + op.K + "/other-shrank", Subject: "mem", Init: init, Steps: shrink})
			}
		}
	})
}

func c02layout(env *core.Env) (matrix, random int) {
	c02build()
	return len(c02matrix), env.Pick(60000, 600000)
}

func init() {
	core.Register(&core.Prop{
		ID:    "C02",
		Level: "exploration",
		Rule: "differential runtime monitor against *os.File: scripts of Read/ReadAt/Write/WriteAt/Seek/Truncate/Stat/Close on 1..3 handles opened on one file (and a directory handle) with generated flag sets run on the os package and on mem.FS (multi-handle) / keyvalue.FS over a plain Store (single handle); after every call n, bytes, success/failure (EOF normalised as io.Reader/io.ReaderAt allow), every open handle's offset and Stat size, and the file's fresh contents are compared. " +
			"Cases: the handle matrix (9 handle kinds x every call x argument classes around offset/size, also after another handle grew or shrank the file) and random scripts of up to 40 (80 thorough) calls. Non-trivial: the script wrote through one handle and read or stat'ed through another, or hit end-of-file; distinct by script text",
		Assumptions: []string{"reference = *os.File on Linux tmpfs", "handle offsets are probed with Seek(0, SeekCurrent) on regular-file handles after every call; because the probe is itself a call the handle sees, a quarter of the random scripts and the read-after-EOF cases probe only after the last call", "keyvalue.FS over a plain Store hands every handle its own snapshot (FileRecord contract), so only single-handle scripts run there"},
		NumCases:    func(env *core.Env) int { m, r := c02layout(env); return m + r },
		Batch:       150,
		Run:         c02run,
		Floor: func(env *core.Env, agg *core.Agg) string {
			if agg.Counters["calls_compared"] < 20000 || agg.Counters["cross_handle_observations"] < 200 || agg.DistinctCount("call_situations") < 150 {
				return fmt.Sprintf("calls=%d cross=%d situations=%d", agg.Counters["calls_compared"], agg.Counters["cross_handle_observations"], agg.DistinctCount("call_situations"))
			}
			return ""
		},
	})
}

func c02random(env *core.Env, idx int) c02case {
	r := rand.New(rand.NewSource(env.Seed*3_000_017 + int64(idx)))
	cs := c02case{Name: fmt.Sprintf("random-%d", idx), Subject: "mem"}
	nh := 1 + r.Intn(3)
	if r.Intn(5) == 0 {
		cs.Subject, nh = "kvplain", 1
	}
	if idx%12 == 5 {
		cs.Subject = "os" // every twelfth script also runs on the library's os.FS
	}
	cs.NoProbe = idx%4 == 1 // a quarter of the scripts run without the per-call Seek probes
	l := r.Intn(16)
	if r.Intn(10) == 0 {
		l = 100 + r.Intn(5000)
	}
	var sb strings.Builder
	for i := 0; i < l; i++ {
		sb.WriteByte(byte('a' + i%26))
	}
	cs.Init = sb.String()
	kind := func() string {
		k := c02kindNames[r.Intn(len(c02kindNames))]
		if k == "dir" && r.Intn(3) != 0 {
			k = "rw"
		}
		return k
	}
	cs.Path = "f"
	if r.Intn(4) == 0 {
		cs.Path = "n" // the first handle creates the file
	}
	for s := 0; s < nh; s++ {
		k := kind()
		st := c02open(s, k)
		if cs.Path == "n" && k != "dir" {
			st.P = "n"
			if s == 0 {
				st.Flag |= os.O_CREATE
			}
		}
		cs.Steps = append(cs.Steps, st)
	}
	n := 5 + r.Intn(env.Pick(36, 76))
	off := func() int64 {
		switch r.Intn(8) {
		case 0:
			return -1 - int64(r.Intn(3))
		case 1:
			return 0
		case 2:
			return int64(l)
		case 3:
			return int64(l) + int64(r.Intn(6))
		}
		return int64(r.Intn(l + 8))
	}
	for i := 0; i < n; i++ {
		slot := r.Intn(nh)
		var st fsx.Step
		switch k := r.Intn(100); {
		case k < 22:
			st = fsx.Step{K: "H.Read", N: r.Intn(12)}
			if r.Intn(8) == 0 {
				st.N = l + 10
			}
		case k < 37:
			st = fsx.Step{K: "H.ReadAt", N: r.Intn(10), Off: off()}
		case k < 55:
			st = fsx.Step{K: "H.Write", Data: fmt.Sprintf("<%d.%d>", idx%1000, i)}
			if r.Intn(12) == 0 {
				st.Data = ""
			}
			if r.Intn(25) == 0 {
				st.Data = strings.Repeat(fmt.Sprintf("%d", i%10), 1000+r.Intn(3500))
			}
		case k < 67:
			st = fsx.Step{K: "H.WriteAt", Data: fmt.Sprintf("[%d.%d]", idx%1000, i), Off: off()}
		case k < 80:
			st = fsx.Step{K: "H.Seek", Off: off(), Whence: r.Intn(3)}
			if r.Intn(15) == 0 {
				st.Whence = 7 + r.Intn(5)
			}
			if st.Whence == io.SeekEnd && r.Intn(2) == 0 {
				st.Off = -int64(r.Intn(l + 2))
			}
		case k < 88:
			st = fsx.Step{K: "H.Truncate", Off: off()}
		case k < 95:
			st = fsx.Step{K: "H.Stat"}
		case k < 97:
			st = fsx.Step{K: "H.Close"}
		default:
			st = c02open(slot, kind())
			if cs.Path == "n" && st.P == "f" {
				st.P = "n"
			}
		}
		st.Slot = slot
		cs.Steps = append(cs.Steps, st)
	}
	return cs
}

type c02side struct {
	fs hackpadfs.FS
	hs fsx.Handles
}

func c02run(env *core.Env, idx int) core.CaseResult {
	var res core.CaseResult
	fsx.RecordInfos.Store(true)
	_ = fsx.ChangedInfos() // (forget what an earlier case left)
	m, _ := c02layout(env)
	var cs c02case
	if idx < m {
		cs = c02matrix[idx]
	} else {
		cs = c02random(env, idx)
	}
	ref, err := fsx.NewOSRef(env.Scratch)
	if err != nil {
		res.Inconclusive = err.Error()
		return res
	}
	defer ref.Cleanup()
	var subFS hackpadfs.FS
	if cs.Subject == "os" {
		// the library's own os.FS: its handle wrappers must behave like the *os.File they wrap
		d, err := os.MkdirTemp(env.Scratch, "c02os-")
		if err != nil {
			res.Inconclusive = err.Error()
			return res
		}
		defer os.RemoveAll(d)
		_ = os.Chmod(d, 0o777)
		subFS, err = hpos.NewFS().Sub(d[1:])
		if err != nil {
			res.Violate("C02|setup", err.Error(), nil)
			return res
		}
	} else {
		sub, err := fsx.NewSubject(cs.Subject)
		if err != nil {
			res.Violate("C02|setup", err.Error(), nil)
			return res
		}
		subFS = sub.FS
	}
	R := &c02side{fs: ref}
	S := &c02side{fs: subFS}
	defer R.hs.CloseAll()
	defer S.hs.CloseAll()
	for _, side := range []*c02side{R, S} {
		if err := hackpadfs.WriteFullFile(side.fs, "f", []byte(cs.Init), 0o644); err != nil {
			res.Inconclusive = "setup write: " + err.Error()
			return res
		}
		if err := hackpadfs.Mkdir(side.fs, "d", 0o755); err != nil {
			res.Inconclusive = "setup mkdir: " + err.Error()
			return res
		}
	}
	path := cs.Path
	if path == "" {
		path = "f"
	}
	kinds := map[int]string{}  // slot -> handle kind
	closed := map[int]bool{}   // slot -> closed
	lastWriter := -1           // slot that last changed the file
	sawOther := map[int]bool{} // slot observed another handle's change
	eofs := 0
	var done []fsx.Step
	for i, st := range cs.Steps {
		done = append(done, st)
		kind := kinds[st.Slot]
		if st.K == "Open" {
			kind = fsx.FlagString(st.Flag)
			if st.P == "d" {
				kind = "dir"
			}
		}
		if closed[st.Slot] && st.K != "Open" {
			continue // calls on closed handles belong to C17
		}
		// situation: handle kind, argument class relative to the reference's size and offset
		refSize, refOff := int64(-1), int64(-1)
		if info, err := hackpadfs.Stat(R.fs, path); err == nil {
			refSize = info.Size()
		}
		if f := R.hs.F; st.Slot < len(f) && f[st.Slot] != nil && kind != "dir" && st.K != "Open" {
			if o, err := hackpadfs.SeekFile(f[st.Slot], 0, io.SeekCurrent); err == nil {
				refOff = o
			}
		}
		sit := kind + "|" + c02argClass(st, refSize, refOff)
		if kind == "dir" {
			sit = "dir" // one situation: byte I/O on a directory handle
		}
		if kind != "dir" && lastWriter >= 0 && lastWriter != st.Slot && !sawOther[st.Slot] && st.K != "Open" {
			sit += "|after-other-handle-changed-file"
		}
		rr := fsx.Exec(R.fs, st, &R.hs, nil)
		sr := fsx.Exec(S.fs, st, &S.hs, nil)
		if rr.Skip || sr.Skip {
			if rr.Skip != sr.Skip {
				// the Open that should have filled this slot diverged earlier; reported there
			}
			continue
		}
		res.Count("calls_compared", 1)
		res.Count("op:"+st.K, 1)
		res.Seen("call_situations", st.K+"|"+sit)
		if env.Verbose {
			fmt.Printf("step %d %-40s [%s]\n   os : %s\n   sub: %s\n", i, st, sit, rr, sr)
		}
		wit := map[string]any{"subject": cs.Subject, "init_len": len(cs.Init), "script": fsx.HistoryString(done)}
		sig := func(what string) string { return fmt.Sprintf("C02|%s|%s|%s", st.K, sit, what) }
		bad := func(what, detail string) {
			res.Violate(sig(what), fmt.Sprintf("[%s] %s: %s (os: %s; subject: %s)", cs.Subject, st, detail, rr, sr), wit)
		}
		diverged := false
		if sr.Panic != "" {
			bad("panic", "panicked: "+sr.Panic)
			break
		}
		kcmp := st.K
		zeroLen := (st.K == "H.Read" || st.K == "H.ReadAt") && st.N == 0 || (st.K == "H.Write" || st.K == "H.WriteAt") && st.Data == ""
		if zeroLen || kind == "dir" && (st.K == "H.Seek" || st.K == "H.Stat") {
			// a transfer of zero bytes may be answered either way (os.File does not even look at the handle's access mode);
			// seeking a directory handle is OS-specific. Only the state afterwards is compared.
			kcmp = "state-only"
			res.Count("outcome_not_compared", 1)
		}
		switch kcmp {
		case "Open":
			kinds[st.Slot] = kind
			closed[st.Slot] = false
			if sr.OK() != rr.OK() {
				bad("got="+okfail(sr)+",want="+okfail(rr), "open outcome differs")
				diverged = true
			}
			if st.Flag&os.O_TRUNC != 0 && rr.OK() {
				lastWriter = st.Slot
				for k := range sawOther {
					delete(sawOther, k)
				}
			}
		case "H.Read", "H.ReadAt":
			rFail := rr.Err != "ok" && rr.Err != "EOF"
			sFail := sr.Err != "ok" && sr.Err != "EOF"
			if st.N > 0 && rr.Err == "ErrInvalid" && (st.K == "H.Read" && refOff > math.MaxInt64-(1<<20) || st.K == "H.ReadAt" && st.Off > math.MaxInt64-(1<<20)) {
				// read(2)/pread(2) answer EINVAL when offset+length overflows: a rule of the kernel, not of files. A file system
				// may just as well say end-of-file there; only a panic or delivered bytes would be wrong.
				if sr.Panic == "" && sr.N == 0 {
					continue
				}
			}
			switch {
			case rFail != sFail:
				bad("got="+c02out(sr)+",want="+c02out(rr), "read outcome differs")
				diverged = true
			case rFail:
			case sr.Data != rr.Data || sr.N != rr.N:
				bad("data", fmt.Sprintf("delivered %d bytes %q, os delivered %d bytes %q", sr.N, clip60(sr.Data), rr.N, clip60(rr.Data)))
				diverged = true
			default:
				// end-of-file normalisation
				end := refOff + rr.N
				if st.K == "H.ReadAt" {
					end = st.Off + rr.N
				}
				atEnd := end >= refSize
				if sr.Err == "EOF" {
					eofs++
				}
				switch {
				case sr.Err == "EOF" && !atEnd:
					bad("eof-early", fmt.Sprintf("io.EOF although only %d of %d bytes were delivered", end, refSize))
					diverged = true
				case st.K == "H.ReadAt" && sr.N < int64(st.N) && sr.Err == "ok":
					bad("short-readat-nil", "ReadAt returned fewer bytes than asked with a nil error")
					diverged = true
				case st.K == "H.Read" && rr.Err == "EOF" && sr.Err != "EOF" && st.N > 0:
					bad("eof-missing", "os reports io.EOF, subject returned 0 bytes with a nil error")
					diverged = true
				}
				if lastWriter >= 0 && lastWriter != st.Slot && rr.N > 0 {
					sawOther[st.Slot] = true
					res.Count("cross_handle_observations", 1)
				}
			}
		case "H.Write", "H.WriteAt", "H.Truncate":
			if sr.OK() != rr.OK() {
				bad("got="+okfail(sr)+",want="+okfail(rr), "outcome differs")
				diverged = true
			} else if sr.OK() && sr.N != rr.N {
				bad("n", fmt.Sprintf("wrote %d bytes, os wrote %d", sr.N, rr.N))
				diverged = true
			}
			if rr.OK() && (st.K == "H.Truncate" || rr.N > 0) {
				lastWriter = st.Slot
				for k := range sawOther {
					delete(sawOther, k)
				}
			}
		case "H.Seek":
			if sr.OK() != rr.OK() {
				bad("got="+okfail(sr)+",want="+okfail(rr), "outcome differs")
				diverged = true
			} else if sr.OK() && sr.N != rr.N && kind != "dir" {
				bad("offset", fmt.Sprintf("Seek returned %d, os returned %d", sr.N, rr.N))
				diverged = true
			}
		case "H.Stat":
			if sr.OK() != rr.OK() {
				bad("got="+okfail(sr)+",want="+okfail(rr), "outcome differs")
				diverged = true
			} else if sr.OK() && sr.Data != rr.Data {
				bad("handle-stat", fmt.Sprintf("handle Stat says %q, os says %q", sr.Data, rr.Data))
				diverged = true
			} else if lastWriter >= 0 && lastWriter != st.Slot {
				res.Count("cross_handle_observations", 1)
			}
		case "H.Close":
			closed[st.Slot] = true
			if sr.OK() != rr.OK() {
				bad("got="+okfail(sr)+",want="+okfail(rr), "outcome differs")
				diverged = true
			}
		}
		// after every call: fresh contents, and every open handle's offset
		rb, rerr := hackpadfs.ReadFile(R.fs, path)
		sb, serr := hackpadfs.ReadFile(S.fs, path)
		if (rerr == nil) != (serr == nil) || string(rb) != string(sb) {
			if !diverged {
				bad("content", fmt.Sprintf("file holds %d bytes %q, os holds %d bytes %q", len(sb), clip60(string(sb)), len(rb), clip60(string(rb))))
			}
			break
		}
		if diverged {
			break
		}
		offsetBad := false
		for slot, k := range kinds {
			if cs.NoProbe && i < len(cs.Steps)-1 {
				break
			}
			if k == "dir" || closed[slot] || slot >= len(R.hs.F) || slot >= len(S.hs.F) || R.hs.F[slot] == nil || S.hs.F[slot] == nil {
				continue
			}
			ro, e1 := hackpadfs.SeekFile(R.hs.F[slot], 0, io.SeekCurrent)
			so, e2 := hackpadfs.SeekFile(S.hs.F[slot], 0, io.SeekCurrent)
			if e1 == nil && e2 == nil && ro != so {
				what := "offset"
				if slot != st.Slot {
					what = "sibling-offset"
				}
				bad(what, fmt.Sprintf("handle h%d is at offset %d, os handle at %d", slot, so, ro))
				offsetBad = true
				break
			}
		}
		if offsetBad {
			break
		}
	}
	// what a Stat returned earlier in the script still says what it said then (an os.FileInfo is a snapshot)
	if len(res.Violations) == 0 {
		for _, ch := range fsx.ChangedInfos() {
			res.Violate("C02|H.Stat|returned-info-changed-later", fmt.Sprintf("[%s] %s (script %s)", cs.Subject, ch, fsx.HistoryString(cs.Steps)), map[string]any{"case": cs.Name, "subject": cs.Subject})
			break
		}
	}
	res.Key = core.Hash(cs)
	res.Nontrivial = len(sawOther) > 0 || eofs > 0 || res.Counters["cross_handle_observations"] > 0
	if idx%173 == 0 {
		res.Sample = map[string]any{"case": cs.Name, "subject": cs.Subject, "init_len": len(cs.Init), "script": fsx.HistoryString(cs.Steps)}
	}
	return res
}

func clip60(s string) string {
	if len(s) > 60 {
		return s[:60] + "..."
	}
	return s
}

func c02out(r fsx.Result) string {
	if r.Err == "ok" || r.Err == "EOF" {
		return "ok"
	}
	return "fail"
}

// c02argClass classifies the arguments relative to the reference's file size and handle offset.
func c02argClass(st fsx.Step, size, off int64) string {
	pos := func(v int64) string {
		switch {
		case v < 0:
			return "neg"
		case v == 0:
			return "0"
		case v < size:
			return "mid"
		case v == size:
			return "end"
		}
		return "past"
	}
	switch st.K {
	case "H.Read":
		switch {
		case st.N == 0:
			return "len0,at=" + pos(off)
		case off+int64(st.N) < size:
			return "short,at=" + pos(off)
		case off+int64(st.N) == size:
			return "exact,at=" + pos(off)
		}
		return "beyond,at=" + pos(off)
	case "H.ReadAt":
		l := "short"
		switch {
		case st.N == 0:
			l = "len0"
		case st.Off+int64(st.N) == size:
			l = "exact"
		case st.Off+int64(st.N) > size:
			l = "beyond"
		}
		return l + ",off=" + pos(st.Off)
	case "H.Write":
		if st.Data == "" {
			return "empty,at=" + pos(off)
		}
		return "data,at=" + pos(off)
	case "H.WriteAt":
		if st.Data == "" {
			return "empty,off=" + pos(st.Off)
		}
		return "data,off=" + pos(st.Off)
	case "H.Seek":
		target := st.Off
		wh := "start"
		switch st.Whence {
		case io.SeekCurrent:
			target, wh = off+st.Off, "cur"
		case io.SeekEnd:
			target, wh = size+st.Off, "end"
		case io.SeekStart:
		default:
			return "badwhence"
		}
		return wh + ",to=" + pos(target)
	case "H.Truncate":
		switch {
		case st.Off < 0:
			return "neg"
		case st.Off < size:
			return "smaller"
		case st.Off == size:
			return "equal"
		}
		return "larger"
	}
	return "-"
}
