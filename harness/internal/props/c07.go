package props

import (
	"errors"
	"fmt"
	"os"
	"path/filepath"
	"sort"
	"strings"
	"sync"

	"hpverif/internal/core"
	"hpverif/internal/fsx"

	"github.com/hack-pad/hackpadfs"
	"github.com/hack-pad/hackpadfs/mem"
	"github.com/hack-pad/hackpadfs/mount"
	hpos "github.com/hack-pad/hackpadfs/os"
)

// C07: a Sub view is indistinguishable from the subtree and cannot reach outside it.

type c07config struct {
	Parent string   `json:"parent"` // mem | mount | os | minimal
	Mounts []string `json:"mounts,omitempty"`
	Dirs   []string `json:"dirs"` // chain of Sub calls
}

func (c c07config) String() string {
	return fmt.Sprintf("%s%v sub%v", c.Parent, c.Mounts, c.Dirs)
}

func (c c07config) joined() string {
	p := "."
	for _, d := range c.Dirs {
		if d == "." {
			continue
		}
		if p == "." {
			p = d
		} else {
			p = p + "/" + d
		}
	}
	return p
}

var c07configs = []c07config{
	{"mem", nil, []string{"."}}, {"mem", nil, []string{"a"}}, {"mem", nil, []string{"a/b"}}, {"mem", nil, []string{"a", "b"}}, {"mem", nil, []string{"a", "."}},
	{"mount", []string{"a"}, []string{"a"}},            // dir == mount point
	{"mount", []string{"a/b"}, []string{"a"}},          // dir above a mount point
	{"mount", []string{"a"}, []string{"a/b"}},          // dir inside a mount
	{"mount", []string{"a", "a/b"}, []string{"a"}},     // dir is a mount point with another below it
	{"mount", []string{"a/b"}, []string{"."}},          // view of the whole mount FS
	{"mount", []string{"c"}, []string{"a"}},            // unrelated mount
	{"mount", []string{"a/b"}, []string{"a", "b"}},     // nested Sub reaching a mount point
	{"mount", []string{"a", "a/b/c"}, []string{"a/b"}}, // dir inside one mount and above another
	{"mount", []string{"a", "a/b/c"}, []string{"a", "b"}},
	{"mount", []string{"a/b/c"}, []string{"a/b"}},
	{"os", nil, []string{"a"}}, {"os", nil, []string{"a/b"}}, {"os", nil, []string{"a", "b"}}, {"os", nil, []string{"."}},
	{"os", nil, []string{"a", "."}}, {"os", nil, []string{".", "a"}}, {"os", nil, []string{".", "."}}, {"os", nil, []string{"a", ".", "b"}},
	{"minimal", nil, []string{"a"}}, {"minimal", nil, []string{"a", "b"}},
	{"custom", nil, []string{"a"}}, {"custom", nil, []string{"a", "b"}}, // a parent whose Rename reports failures as *PathError
	{"partial-listing", nil, []string{"a"}}, {"partial-listing", nil, []string{"a", "b"}}, {"partial-listing", nil, []string{"."}}, // a parent whose listings break off after two entries, delivering those with the error
	// views of a directory that does not exist (yet): legal for the generic view and for os.FS; everything through the view
	// must equal the same call at zz/name on the parent (also creating the whole chain with MkdirAll)
	{"mem", nil, []string{"zz"}}, {"mount", []string{"a"}, []string{"zz"}}, {"mount", []string{"a"}, []string{"a/zz"}}, {"minimal", nil, []string{"zz"}}, {"os", nil, []string{"zz"}}, {"custom", nil, []string{"zz", "b"}},
	{"mount-os", nil, []string{"a"}}, {"mount-os", nil, []string{"a", "b"}}, {"mount-os", nil, []string{"."}}, // a mount.FS rooted at an os.FS: the view reaches Lstat/Symlink/Chown only through the MountFS branches of the helpers
}

// pathErrRenameFS is a mem.FS whose Rename reports its failures the way some third-party file systems do: as *PathError.
type pathErrRenameFS struct{ *mem.FS }

func (p pathErrRenameFS) Rename(oldname, newname string) error {
	err := p.FS.Rename(oldname, newname)
	if le, ok := err.(*hackpadfs.LinkError); ok {
		return &hackpadfs.PathError{Op: "rename", Path: le.Old, Err: le.Err}
	}
	return err
}

// c07errPaths: parents whose error paths are compared between view and parent (the os-backed ones are C09's and C05's)
var c07errPaths = map[string]bool{"mem": true, "mount": true, "minimal": true}

// openOnlyFS exposes nothing but Open. With a memo it remembers failed look-ups (its tree never changes: nothing but Open is
// exposed) and hands out the SAME *PathError value every time a name fails again, as file systems with a negative cache or
// with stored error values do.
type openOnlyFS struct {
	inner hackpadfs.FS
	memo  *sync.Map // name -> *hackpadfs.PathError
}

func (o openOnlyFS) Open(name string) (hackpadfs.File, error) {
	if o.memo != nil {
		if e, ok := o.memo.Load(name); ok {
			return nil, e.(*hackpadfs.PathError)
		}
	}
	f, err := o.inner.Open(name)
	if pe, ok := err.(*hackpadfs.PathError); ok && o.memo != nil {
		o.memo.Store(name, pe)
	}
	return f, err
}

// partialListFS is a mem.FS whose directory handles deliver at most two entries of a listing and then fail, handing
// out what they have together with the error (as os.ReadDir does when a directory read breaks off).
type partialListFS struct{ *mem.FS }

var errListingBroke = errors.New("directory read broke off")

func (p partialListFS) Open(name string) (hackpadfs.File, error) {
	f, err := p.FS.Open(name)
	if err != nil {
		return nil, err
	}
	return partialListFile{f}, nil
}
func (p partialListFS) OpenFile(name string, flag int, perm hackpadfs.FileMode) (hackpadfs.File, error) {
	f, err := p.FS.OpenFile(name, flag, perm)
	if err != nil {
		return nil, err
	}
	return partialListFile{f}, nil
}
func (p partialListFS) ReadDir(name string) ([]hackpadfs.DirEntry, error) {
	f, err := p.Open(name)
	if err != nil {
		return nil, err
	}
	defer func() { _ = f.Close() }()
	return hackpadfs.ReadDirFile(f, -1)
}

type partialListFile struct{ hackpadfs.File }

func (f partialListFile) ReadDir(n int) ([]hackpadfs.DirEntry, error) {
	entries, err := hackpadfs.ReadDirFile(f.File, n)
	sort.Slice(entries, func(i, j int) bool { return entries[i].Name() < entries[j].Name() })
	if err == nil && len(entries) > 2 {
		return entries[:2], &hackpadfs.PathError{Op: "readdir", Path: "?", Err: errListingBroke}
	}
	return entries, err
}
func (f partialListFile) Write(p []byte) (int, error) { return hackpadfs.WriteFile(f.File, p) }
func (f partialListFile) Seek(off int64, whence int) (int64, error) {
	return hackpadfs.SeekFile(f.File, off, whence)
}
func (f partialListFile) ReadAt(p []byte, off int64) (int, error) {
	return hackpadfs.ReadAtFile(f.File, p, off)
}
func (f partialListFile) WriteAt(p []byte, off int64) (int, error) {
	return hackpadfs.WriteAtFile(f.File, p, off)
}
func (f partialListFile) Truncate(size int64) error        { return hackpadfs.TruncateFile(f.File, size) }
func (f partialListFile) Chmod(m hackpadfs.FileMode) error { return hackpadfs.ChmodFile(f.File, m) }
func (f partialListFile) Sync() error                      { return hackpadfs.SyncFile(f.File) }

type c07parent struct {
	osRoot  string                  // os parents: the scratch directory that holds the parent's root "in" and a file outside it
	fs      hackpadfs.FS            // the parent as the caller sees it
	build   hackpadfs.FS            // where the initial tree is written (same as fs unless minimal)
	parts   map[string]hackpadfs.FS // constituents for state comparison
	cleanup func()
}

func newC07Parent(env *core.Env, cfg c07config) (*c07parent, error) {
	p := &c07parent{parts: map[string]hackpadfs.FS{}, cleanup: func() {}}
	switch cfg.Parent {
	case "mem", "minimal", "custom", "partial-listing":
		m, _ := mem.NewFS()
		p.fs, p.build = m, m
		p.parts["self"] = m
		if cfg.Parent == "custom" {
			p.fs = pathErrRenameFS{m}
		}
		if cfg.Parent == "minimal" {
			p.fs = openOnlyFS{inner: m, memo: &sync.Map{}}
		}
		if cfg.Parent == "partial-listing" {
			p.fs = partialListFS{m}
		}
	case "mount":
		root, _ := mem.NewFS()
		mf, _ := mount.NewFS(root)
		p.fs, p.build = mf, mf
		p.parts["root"] = root
		mps := append([]string(nil), cfg.Mounts...)
		sort.Slice(mps, func(i, j int) bool { return len(mps[i]) < len(mps[j]) })
		for _, mp := range mps {
			if err := hackpadfs.MkdirAll(mf, mp, 0o755); err != nil {
				return nil, err
			}
			f, _ := mem.NewFS()
			if err := mf.AddMount(mp, f); err != nil {
				return nil, err
			}
			p.parts[mp] = f
		}
	case "os", "mount-os":
		d, err := os.MkdirTemp(env.Scratch, "c07os-")
		if err != nil {
			return nil, err
		}
		_ = os.Chmod(d, 0o777)
		p.cleanup = func() { _ = os.RemoveAll(d) }
		_ = os.WriteFile(filepath.Join(d, "outside-root"), []byte("o"), 0o644)
		in := filepath.Join(d, "in")
		_ = os.Mkdir(in, 0o777)
		v, err := hpos.NewFS().Sub(in[1:])
		if err != nil {
			return nil, err
		}
		p.fs, p.build = v, v
		if cfg.Parent == "mount-os" {
			mf, err := mount.NewFS(v)
			if err != nil {
				return nil, err
			}
			p.fs, p.build = mf, mf
		}
		p.osRoot = d
		p.parts["osdir"] = &fsx.OSRef{Root: d}
	}
	// the same initial tree everywhere: content inside and outside the directories that views will select
	for _, it := range []treeItem{
		{Path: "a", Dir: true, Perm: 0o755}, {Path: "a/b", Dir: true, Perm: 0o755}, {Path: "a/b/c", Dir: true, Perm: 0o755},
		{Path: "a/f", Perm: 0o644, Data: "a-f"}, {Path: "a/b/g", Perm: 0o600, Data: "a-b-g"}, {Path: "a/b/c/h", Perm: 0o644, Data: "deep"},
		{Path: "ab", Dir: true, Perm: 0o755}, {Path: "ab/x", Perm: 0o644, Data: "lookalike"}, {Path: "c", Dir: true, Perm: 0o700}, {Path: "top", Perm: 0o644, Data: "top"},
	} {
		var err error
		if it.Dir {
			err = hackpadfs.MkdirAll(p.build, it.Path, hackpadfs.FileMode(it.Perm))
		} else {
			err = hackpadfs.WriteFullFile(p.build, it.Path, []byte(it.Data), hackpadfs.FileMode(it.Perm))
		}
		if err != nil {
			return nil, fmt.Errorf("init %s: %w", it.Path, err)
		}
	}
	return p, nil
}

// state: the composed namespace plus every constituent, so that writes that bypass a mount are seen.
func (p *c07parent) state() map[string]fsx.Snap {
	out := map[string]fsx.Snap{}
	s, _ := fsx.Snapshot(p.build, nil)
	out["composed"] = s
	for k, f := range p.parts {
		s, _ := fsx.Snapshot(f, nil)
		out["part:"+k] = s
	}
	return out
}

func c07stateDiff(a, b map[string]fsx.Snap) (string, string) {
	keys := make([]string, 0, len(a))
	for k := range a {
		keys = append(keys, k)
	}
	sort.Strings(keys)
	for _, k := range keys {
		if kind, detail := fsx.Diff(a[k], b[k]); kind != "" {
			return k + ":" + kind, k + ": " + detail
		}
	}
	return "", ""
}

func c07cases(env *core.Env) []int {
	n := env.Pick(250, 4000) * len(c07configs)
	out := make([]int, n)
	return out
}

func init() {
	core.Register(&core.Prop{
		ID:    "C07",
		Level: "exploration",
		Rule: "twin execution: two identical parents are built (mem; mount.FS with the directory being a mount point / above a mount point / inside a mount / unrelated; os.FS with its native Sub; a parent exposing only Open; chains of two Sub calls; dir in {., a, a/b}); a seeded history of the C01 operations plus Rename, Sub and handle I/O is issued on one parent through the view at name n and on the other directly at dir/n; after every step results (class, data) and the complete state of the parent (composed namespace and every constituent file system) must be equal, and everything outside dir must be unchanged. " +
			"Non-trivial: histories with >=1 successful mutation through the view and >=1 failing step; distinct by (configuration, history)",
		Assumptions: []string{"symbolic links are not created (os.FS)", "error paths are C05's concern: only the error class is compared here"},
		NumCases:    func(env *core.Env) int { return len(c07cases(env)) },
		Batch:       100,
		Run:         c07run,
		Floor: func(env *core.Env, agg *core.Agg) string {
			if agg.Counters["steps_compared"] < 8000 || agg.DistinctCount("config_op") < 150 {
				return fmt.Sprintf("steps=%d config_op=%d", agg.Counters["steps_compared"], agg.DistinctCount("config_op"))
			}
			return ""
		},
	})
}

func c07kind(cfg c07config) string {
	k := cfg.Parent
	if cfg.Parent == "mount" {
		dir := cfg.joined()
		k = "mount-unrelated"
		for _, mp := range cfg.Mounts {
			switch {
			case mp == dir:
				k = "mount-at-dir"
			case dir == "." || strings.HasPrefix(mp, dir+"/"):
				if k != "mount-at-dir" {
					k = "mount-below-dir"
				}
			case strings.HasPrefix(dir, mp+"/"):
				if k == "mount-unrelated" {
					k = "mount-above-dir"
				}
			}
		}
		if len(cfg.Mounts) == 2 {
			k = "mount-at-and-below-dir"
		}
	}
	if len(cfg.Dirs) > 1 {
		k += ",nested"
	}
	return k
}

func c07run(env *core.Env, idx int) core.CaseResult {
	var res core.CaseResult
	cfg := c07configs[idx%len(c07configs)]
	p1, err := newC07Parent(env, cfg)
	if err != nil {
		res.Inconclusive = "setup: " + err.Error()
		return res
	}
	defer p1.cleanup()
	p2, err := newC07Parent(env, cfg)
	if err != nil {
		res.Inconclusive = "setup: " + err.Error()
		return res
	}
	defer p2.cleanup()
	kind := c07kind(cfg)
	var view hackpadfs.FS = p1.fs
	for _, d := range cfg.Dirs {
		v, err := hackpadfs.Sub(view, d)
		if err != nil {
			res.Violate("C07|"+kind+"|Sub|got=fail,want=ok", fmt.Sprintf("Sub(%q) of %s failed: %v", d, cfg, err), cfg)
			return res
		}
		view = v
	}
	// a view offers no way to widen itself again: whatever else it implements must not hand out the world outside dir
	if sv, ok := view.(interface {
		SubVolume(string) (hackpadfs.FS, error)
	}); ok && p1.osRoot != "" {
		res.Count("subvolume_on_view_tried", 1)
		if wide, err := sv.SubVolume(""); err == nil && wide != nil {
			if _, err := hackpadfs.Stat(wide, p1.osRoot[1:]+"/outside-root"); err == nil {
				res.Violate("C07|os|SubVolume|view-widened", fmt.Sprintf("[%s] SubVolume(\"\") on the view returned a file system through which %s/outside-root (outside the view) can be reached", cfg, p1.osRoot), cfg)
				return res
			}
		}
	}
	dir := cfg.joined()
	join := func(n string) string {
		switch {
		case n == ".":
			return dir
		case dir == ".":
			return n
		}
		return dir + "/" + n
	}
	start := p1.state()
	gen := fsx.NewGen(env.Seed*13_000_027+int64(idx), fmt.Sprintf("v%d", idx))
	var hv, hd fsx.Handles
	defer hv.CloseAll()
	defer hd.CloseAll()
	var hist []fsx.Step
	okMut, failed := 0, 0
	n := 6 + gen.R.Intn(env.Pick(20, 34))
	for i := 0; i < n; i++ {
		tree, _ := fsx.Snapshot(view, nil)
		var st fsx.Step
		for try := 0; ; try++ {
			st = gen.Namespace(tree, false)
			if gen.R.Intn(12) == 0 {
				st = fsx.Step{K: "Sub", P: gen.Path(tree)}
			}
			if gen.R.Intn(14) == 0 {
				st = fsx.Step{K: []string{"Lstat", "LstatOrStat"}[gen.R.Intn(2)], P: gen.Path(tree)}
			}
			if try > 20 || !env.Known.KnownSituation("C07", fmt.Sprintf("C07|%s|%s|", kind, st.K)) {
				break
			}
		}
		if st.K == "Remove" || st.K == "RemoveAll" || st.K == "Rename" {
			if st.P == "." || st.P2 == "." {
				continue // removing/renaming the view's own top directory: excluded like the root in C01
			}
		}
		if gen.R.Intn(7) == 0 {
			// a name that tries to leave the view: must be refused as invalid and change nothing anywhere
			esc := []string{"../top", "..", "../ab/x", "a/../../top", "/top", "../../outside-root", "b/../../../top", "./../top"}[gen.R.Intn(8)]
			if st.P2 != "" && gen.R.Intn(2) == 0 {
				st.P2 = esc
			} else {
				st.P = esc
			}
			hist = append(hist, st)
			before := p1.state()
			rv := fsx.Exec(view, st, &hv, nil)
			res.Count("escaping_names_tried", 1)
			wit := map[string]any{"config": cfg, "history": fsx.HistoryString(hist)}
			if rv.Panic != "" || (rv.Err != "ErrInvalid" && rv.Err != "ErrNotImplemented") { // (an operation the parent does not support at all may say so)
				res.Violate(fmt.Sprintf("C07|%s|%s|escaping-name:got=%s,want=ErrInvalid", kind, st.K, rv.Outcome()), fmt.Sprintf("[%s] %s through the view returned %s", cfg, st, rv), wit)
				break
			}
			if k, d := c07stateDiff(p1.state(), before); k != "" {
				res.Violate(fmt.Sprintf("C07|%s|%s|escaping-name:changed", kind, st.K), fmt.Sprintf("[%s] %s through the view changed the parent: %s", cfg, st, d), wit)
				break
			}
			continue
		}
		hist = append(hist, st)
		sd := st
		sd.P = join(st.P)
		if st.P2 != "" {
			sd.P2 = join(st.P2)
		}
		rv := fsx.Exec(view, st, &hv, nil)
		rd := fsx.Exec(p2.fs, sd, &hd, nil)
		res.Count("steps_compared", 1)
		res.Seen("config_op", cfg.String()+"|"+st.K)
		if env.Verbose {
			fmt.Printf("step %d view %-40s -> %s\n        direct %-38s -> %s\n", i, st, rv, sd, rd)
		}
		wit := map[string]any{"config": cfg, "history": fsx.HistoryString(hist)}
		sig := func(what string) string { return fmt.Sprintf("C07|%s|%s|%s", kind, st.K, what) }
		if rv.Panic != "" {
			res.Violate(sig("panic"), fmt.Sprintf("[%s] %s through the view panicked: %s", cfg, st, rv.Panic), wit)
			break
		}
		if rv.OK() && fsx.Mutates(st) {
			okMut++
		}
		if !rv.OK() {
			failed++
		}
		if rv.Err != rd.Err {
			res.Violate(sig("result:got="+rv.Err+",want="+rd.Err), fmt.Sprintf("[%s] %s through the view returned %s; %s on the parent returned %s", cfg, st, rv, sd, rd), wit)
			break
		}
		// the error names the caller's name: where the parent's error names dir/x, the view's names x
		unjoin := func(p string) (string, bool) {
			switch {
			case dir == ".":
				return p, true
			case p == dir:
				return ".", true
			case strings.HasPrefix(p, dir+"/"):
				return p[len(dir)+1:], true
			}
			return "", false
		}
		if !rv.OK() && rv.Typ == rd.Typ && (st.K != "MkdirAll" && st.K != "RemoveAll") && !strings.HasPrefix(st.K, "H.") {
			type pair struct{ what, view, parent string }
			for _, pr := range []pair{{"path", rv.EPath, rd.EPath}, {"old", rv.EOld, rd.EOld}, {"new", rv.ENew, rd.ENew}} {
				if want, ok := unjoin(pr.parent); ok && pr.parent != "" && c07errPaths[cfg.Parent] {
					res.Count("error_paths_compared", 1)
					if pr.view != want {
						res.Violate(sig("error-"+pr.what), fmt.Sprintf("[%s] %s through the view failed with an error naming %q; %s on the parent names %q, which is %q seen from the view", cfg, st, pr.view, sd, pr.parent, want), wit)
					}
				}
			}
			if len(res.Violations) > 0 {
				break
			}
		}
		// what the parent itself answers at dir/name is not changed by having been asked through the view
		if o1, ok := p1.fs.(openOnlyFS); ok && !rv.OK() && rv.Typ == "PathError" {
			_, e1 := o1.Open(sd.P)
			_, e2 := p2.fs.Open(sd.P)
			pe1, ok1 := e1.(*hackpadfs.PathError)
			pe2, ok2 := e2.(*hackpadfs.PathError)
			res.Count("parent_asked_after_the_view", 1)
			if ok1 && ok2 && (pe1.Path != pe2.Path || pe1.Op != pe2.Op) {
				res.Violate(sig("parent-error-changed"), fmt.Sprintf("[%s] after %s failed through the view, Open(%q) on the parent itself fails with %q naming %q; on a parent that was never asked through a view it names %q", cfg, st, sd.P, pe1.Op, pe1.Path, pe2.Path), wit)
				break
			}
		}
		if !rv.OK() && st.K == "ReadDir" && rv.Data != rd.Data {
			// a listing that broke off delivers what it had together with the error, through the view as well
			res.Violate(sig("partial-result"), fmt.Sprintf("[%s] %s failed on both sides (%s), but the view delivered %q with the error and the parent %q", cfg, st, rv.Err, rv.Data, rd.Data), wit)
			break
		}
		if rv.OK() && st.P != "." && (rv.Data != rd.Data || rv.N != rd.N) {
			res.Violate(sig("result:data"), fmt.Sprintf("[%s] %s through the view returned %q; on the parent %q", cfg, st, rv.Data, rd.Data), wit)
			break
		}
		s1, s2 := p1.state(), p2.state()
		if k, d := c07stateDiff(s1, s2); k != "" {
			res.Violate(sig("state:"+k), fmt.Sprintf("[%s] after %s through the view the parent differs from the parent driven directly: %s", cfg, st, d), wit)
			break
		}
		// nothing outside dir may change
		for key, snap := range s1 {
			for path, e := range start[key] {
				inside := dir == "." || path == dir || strings.HasPrefix(path, dir+"/")
				if key != "composed" {
					continue
				}
				if !inside && path != "." {
					if cur, ok := snap[path]; !ok || cur != e {
						res.Violate(sig("escaped"), fmt.Sprintf("[%s] after %s through the view, %q outside %q changed", cfg, st, path, dir), wit)
					}
				}
			}
		}
		if len(res.Violations) > 0 {
			break
		}
	}
	res.Key = core.Hash([]any{cfg, fsx.HistoryString(hist)})
	res.Nontrivial = okMut > 0 && failed > 0
	if idx%113 == 0 {
		res.Sample = map[string]any{"config": cfg.String(), "history": fsx.HistoryString(hist)}
	}
	return res
}
