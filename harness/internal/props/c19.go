package props

import (
	"fmt"
	"math/rand"
	"os"
	"os/exec"
	"path/filepath"
	"runtime"
	"strconv"
	"strings"
	"sync"

	"hpverif/internal/blobprog"
	"hpverif/internal/core"

	"github.com/hack-pad/hackpadfs/keyvalue/blob"
)

// C19: blobs behave as plain byte sequences (native byte-slice implementation and the
// package-level fallbacks; the typed-array implementation is driven by jsblob under GOOS=js).

var c19once sync.Once
var c19single, c19two, c19directed []blobprog.Program

const (
	c19SingleBlock = 500
	c19TwoBlock    = 4000
	c19RandBlock   = 500
	c19DirBlock    = 400
)

func c19lists() {
	c19once.Do(func() {
		c19single = blobprog.SingleCall(8)
		c19two = blobprog.TwoCall(3)
		c19directed = append(blobprog.Extreme(), blobprog.Big()...)
	})
}

func c19blocks(env *core.Env) (a, b, c int) {
	c19lists()
	a = (len(c19single) + c19SingleBlock - 1) / c19SingleBlock
	b = (len(c19two)+c19TwoBlock-1)/c19TwoBlock + c19dirBlocks()
	c = env.Pick(100000, 2000000) / c19RandBlock
	return
}

func c19dirBlocks() int { return (len(c19directed) + c19DirBlock - 1) / c19DirBlock }

func c19programs(env *core.Env, idx int) (kind string, ps []blobprog.Program) {
	a, b, _ := c19blocks(env)
	switch {
	case idx < a:
		lo, hi := idx*c19SingleBlock, (idx+1)*c19SingleBlock
		if hi > len(c19single) {
			hi = len(c19single)
		}
		return "single", c19single[lo:hi]
	case idx < a+c19dirBlocks():
		i := idx - a
		lo, hi := i*c19DirBlock, (i+1)*c19DirBlock
		if hi > len(c19directed) {
			hi = len(c19directed)
		}
		return "directed", c19directed[lo:hi]
	case idx < a+b:
		i := idx - a - c19dirBlocks()
		lo, hi := i*c19TwoBlock, (i+1)*c19TwoBlock
		if hi > len(c19two) {
			hi = len(c19two)
		}
		return "two", c19two[lo:hi]
	}
	r := rand.New(rand.NewSource(env.Seed*1000003 + int64(idx)))
	for i := 0; i < c19RandBlock; i++ {
		ps = append(ps, blobprog.Random(r, 64, 12))
	}
	return "random", ps
}

func init() {
	core.Register(&core.Prop{
		ID:    "C19",
		Level: "exploration",
		Rule: "blob programs (View/Slice/Set/Grow/Truncate/Len/Bytes, arguments -2..len+2, aliasing through views) executed on blob.Bytes through the package dispatch functions and on a minimal Blob (fallback paths), compared call by call with a []byte model with explicit aliasing; " +
			"one- and two-call programs with arguments at the edges of int64, programs over lengths on and around multiples of 4 KiB .. 1 MiB, and a Set whose destination shrinks while it reads its source are directed additions; every one-call program on lengths 0..8 and every two-call program on lengths 0..3 is enumerated, longer programs (<=12 calls, length <=64) are random; a program is non-trivial when it made at least one in-range mutation or aliasing check, distinct by program text",
		Assumptions: []string{
			"after a Grow/Truncate the other handles that aliased the resized blob are 'detached': only checked for no-panic (both implementations detach)",
			"Set at offset==len with a non-empty source may answer n=0,nil or an error",
			"Truncate(size>len) may be a no-op or an error; negative sizes must be refused",
		},
		NumCases:  func(env *core.Env) int { a, b, c := c19blocks(env); return a + b + c },
		Batch:     8,
		Run:       c19run,
		PreParent: c19wasm,
		Describe: func(env *core.Env, idx int) any {
			k, ps := c19programs(env, idx)
			return fmt.Sprintf("%s block of %d programs", k, len(ps))
		},
		Exhaustive: func(env *core.Env) bool { return false },
		Floor: func(env *core.Env, agg *core.Agg) string {
			if agg.Counters["calls"] < 100000 || agg.Counters["self_sets"] < 100 || agg.Counters["bad_args"] < 1000 {
				return fmt.Sprintf("calls=%d self_sets=%d bad_args=%d", agg.Counters["calls"], agg.Counters["self_sets"], agg.Counters["bad_args"])
			}
			return ""
		},
		Extra: func(env *core.Env, agg *core.Agg, cov map[string]any) {
			cov["enumerated_single_call_programs"] = len(c19single)
			cov["enumerated_two_call_programs"] = len(c19two)
			cov["exhaustive_note"] = "one-call programs on lengths 0..8 and two-call programs on lengths 0..3 are enumerated completely; the rest is sampled"
		},
	})
}

func c19run(env *core.Env, idx int) core.CaseResult {
	kind, ps := c19programs(env, idx)
	var res core.CaseResult
	res.Evals = len(ps) * 2
	var st blobprog.Stats
	impls := []blobprog.Options{
		{Impl: "bytes", StrictErr: true, New: func(b []byte) blob.Blob { return blob.NewBytes(b) }},
		{Impl: "minimal", NoAlias: true, New: func(b []byte) blob.Blob { return &blobprog.Minimal{B: b} }},
	}
	for pi, p := range ps {
		for _, opt := range impls {
			before := st
			var issues []blobprog.Issue
			// the whole program runs under a watchdog: a call that returns with the blob's mutex still held parks the NEXT call
			// on that blob (or on a view sharing the mutex) for good
			if hung, confirmed := withWatchdog(func() { issues = blobprog.Exec(p, opt, &st) }); hung {
				if confirmed {
					res.Violate("C19|"+opt.Impl+"|program|got=hang,want=returns", fmt.Sprintf("program %s did not finish: the goroutine dump shows a blob call parked in sync.Mutex.Lock (an earlier call of the program returned without releasing the blob's mutex)", p), p)
				} else {
					res.Inconclusive = "a blob program did not finish, no blocked-state witness"
				}
				return res
			}
			for _, is := range issues {
				res.Violate(is.Sig, is.Detail, p)
			}
			if opt.Impl == "bytes" && (st.InRange > before.InRange || st.AliasChecks > before.AliasChecks) {
				res.NTKeys = append(res.NTKeys, core.Hash(p))
			}
			if env.Verbose {
				fmt.Printf("program %d [%s] %s -> %d issues\n", pi, opt.Impl, p, len(issues))
			}
		}
	}
	if a, _, _ := c19blocks(env); idx == a {
		c19meddling(&res)
	}
	res.Count("programs_"+kind, len(ps))
	res.Count("calls", st.Calls)
	res.Count("in_range_calls", st.InRange)
	res.Count("bad_args", st.BadArgs)
	res.Count("self_sets", st.SelfSets)
	res.Count("content_checks", st.ContentChecks)
	res.Count("resizes_followed_exactly", st.ExactResizes)
	res.Count("bytes_copy_checks", st.AliasChecks)
	if idx%7 == 0 && len(ps) > 0 {
		res.Sample = map[string]any{"kind": kind, "program": ps[len(ps)/2].String()}
	}
	return res
}

// meddler is a source blob whose Bytes() shortens the destination before it answers: what a concurrent Truncate does to a
// Set between the Set's look at the length and its copy, made deterministic.
type meddler struct {
	dest blob.Blob
	to   int64
	b    []byte
}

func (m *meddler) Bytes() []byte { _ = blob.Truncate(m.dest, m.to); return append([]byte(nil), m.b...) }
func (m *meddler) Len() int      { return len(m.b) }

// c19meddling: the destination shrinks below the offset while a Set is under way (deterministically, and by a concurrent
// Truncate): no panic, the blob stays usable and holds its shortened contents.
func c19meddling(res *core.CaseResult) {
	for _, tc := range []struct{ l, to, off int }{{10, 2, 6}, {10, 0, 10}, {10, 5, 6}, {3, 0, 1}, {200000, 1, 131072}} {
		init := make([]byte, tc.l)
		for i := range init {
			init[i] = byte(10 + i)
		}
		dest := blob.NewBytes(append([]byte(nil), init...))
		var p string
		var after []byte
		hung, confirmed := withWatchdog(func() {
			p = core.Recover(func() {
				_, _ = blob.Set(dest, &meddler{dest: dest, to: int64(tc.to), b: []byte{200, 201, 202}}, int64(tc.off))
			})
			if p == "" {
				after = dest.Bytes()
			}
		})
		res.Count("shrinks_during_set", 1)
		wit := map[string]any{"len": tc.l, "truncated_to": tc.to, "set_offset": tc.off}
		switch {
		case hung && confirmed:
			res.Violate("C19|bytes|Set|shrunk-meanwhile|got=hang,want=returns", fmt.Sprintf("a %d-byte blob was truncated to %d while Set(src, %d) was reading its source: the blob cannot be used any more (a call is parked on its mutex)", tc.l, tc.to, tc.off), wit)
			return
		case hung:
			res.Inconclusive = "Set on a blob shrunk meanwhile did not finish, no blocked-state witness"
			return
		case p != "":
			res.Violate("C19|bytes|Set|shrunk-meanwhile|got=panic,want=error", fmt.Sprintf("a %d-byte blob was truncated to %d while Set(src, %d) was reading its source: Set panicked: %s", tc.l, tc.to, tc.off, p), wit)
			return // (the panic may have left the mutex locked)
		case string(after) != string(init[:tc.to]):
			res.Violate("C19|bytes|Set|shrunk-meanwhile|got=other-bytes,want=the-shortened-contents", fmt.Sprintf("a %d-byte blob was truncated to %d while Set(src, %d) was reading its source: afterwards it holds %d bytes that are not its first %d", tc.l, tc.to, tc.off, len(after), tc.to), wit)
		}
	}
	// the same by real concurrency: one goroutine grows the blob and writes near its end, the other cuts it down
	b := blob.NewBytes(make([]byte, 8))
	var wg sync.WaitGroup
	panics := make([]string, 2)
	hung, confirmed := withWatchdog(func() {
		wg.Add(2)
		go func() {
			defer wg.Done()
			panics[0] = core.Recover(func() {
				for i := 0; i < 3000; i++ {
					_ = blob.Grow(b, 64)
					_, _ = blob.Set(b, blob.NewBytes([]byte{1, 2, 3, 4}), 40)
				}
			})
		}()
		go func() {
			defer wg.Done()
			panics[1] = core.Recover(func() {
				for i := 0; i < 3000; i++ {
					_ = blob.Truncate(b, 2)
					runtime.Gosched()
				}
			})
		}()
		wg.Wait()
	})
	res.Count("concurrent_set_truncate_rounds", 3000)
	switch {
	case hung && confirmed:
		res.Violate("C19|bytes|Set|concurrent-truncate|got=hang,want=returns", "Grow+Set near the end of a blob in one goroutine, Truncate(2) in another: a call is parked on the blob's mutex for good", nil)
	case hung:
		res.Inconclusive = "concurrent Set/Truncate did not finish, no blocked-state witness"
	case panics[0]+panics[1] != "":
		res.Violate("C19|bytes|Set|concurrent-truncate|got=panic,want=error", "Grow+Set near the end of a blob in one goroutine, Truncate(2) in another: "+panics[0]+panics[1], nil)
	}
}

// c19wasm runs the same program generator against the typed-array blob under GOOS=js (node), from the parent
// (it needs the Go toolchain). Expectations are relaxed exactly as the property states (errors are not demanded
// for bad arguments, only no panic and no modification).
func c19wasm(env *core.Env) []core.CaseResult {
	var res core.CaseResult
	res.Idx = -1
	res.Key = "wasm"
	goroot, err := exec.Command("go", "env", "GOROOT").Output()
	runner := filepath.Join(strings.TrimSpace(string(goroot)), "misc", "wasm", "go_js_wasm_exec")
	if _, nerr := exec.LookPath("node"); err != nil || nerr != nil {
		res.Inconclusive = "GOOS=js run not possible: node or the Go wasm runner is missing"
		return []core.CaseResult{res}
	}
	args := []string{"test", "-tags", "verif", "-count=1", "-v", "-exec=" + runner}
	if mf := os.Getenv("HPVERIF_MODFILE"); mf != "" {
		args = append(args, "-modfile="+mf)
	}
	args = append(args, "./jsblob/")
	cmd := exec.Command("go", args...)
	cmd.Dir = c20harnessDir()
	cmd.Env = append(os.Environ(), "GOOS=js", "GOARCH=wasm", "GOFLAGS=-mod=mod", "GOPROXY=off", "GOSUMDB=off", "GOTOOLCHAIN=local",
		"VERIF_SEED="+strconv.FormatInt(env.Seed, 10), "C19_JS_RANDOM="+strconv.Itoa(env.Pick(10000, 150000)))
	out, rerr := cmd.CombinedOutput()
	seenStats := false
	for _, l := range strings.Split(string(out), "\n") {
		switch {
		case strings.HasPrefix(l, "C19ISSUE "):
			f := strings.SplitN(strings.TrimPrefix(l, "C19ISSUE "), "\t", 2)
			detail := ""
			if len(f) > 1 {
				detail = f[1]
			}
			res.Violate(f[0], "[GOOS=js, typed-array blob] "+detail, nil)
		case strings.HasPrefix(l, "C19JS "):
			seenStats = true
			for _, kv := range strings.Fields(l)[1:] {
				if p := strings.SplitN(kv, "=", 2); len(p) == 2 {
					n, _ := strconv.Atoi(p[1])
					res.Count("wasm_"+p[0], n)
					if p[0] == "programs" {
						res.Evals = n
					}
				}
			}
		}
	}
	if rerr != nil && len(res.Violations) == 0 {
		if strings.Contains(string(out), "panic:") || strings.Contains(string(out), "FAIL") {
			res.Violate("C19|idbblob|process|crash", "the GOOS=js run of the blob programs crashed or failed:\n"+tailString(string(out), 1500), nil)
		} else {
			res.Inconclusive = "GOOS=js run failed: " + rerr.Error() + " " + tailString(string(out), 300)
		}
	} else if !seenStats && len(res.Violations) == 0 {
		res.Inconclusive = "GOOS=js run produced no statistics line"
	}
	res.Nontrivial = seenStats
	res.Sample = map[string]any{"wasm": "same generator under GOOS=js GOARCH=wasm via node", "output_tail": tailString(string(out), 200)}
	return []core.CaseResult{res}
}
