package props

import (
	"fmt"
	"math/rand"
	"os"
	"runtime"
	"strings"
	"sync"
	"sync/atomic"
	"time"

	"hpverif/internal/core"
	"hpverif/internal/fsx"

	"github.com/anishathalye/porcupine"
	"github.com/hack-pad/hackpadfs"
	"github.com/hack-pad/hackpadfs/mem"
)

// C15: concurrent use of the in-memory FS is race-free and atomic per operation.

type c15case struct {
	Part string `json:"part"` // free | porcupine | sched
	Rep  int    `json:"rep"`
}

func c15cases(env *core.Env) []c15case {
	var cs []c15case
	for i := 0; i < env.Pick(60, 800); i++ {
		cs = append(cs, c15case{"free", i})
	}
	for i := 0; i < env.Pick(150, 2500); i++ {
		cs = append(cs, c15case{"porcupine", i})
	}
	for i := 0; i < env.Pick(240, 2400); i++ { // eight programs share these
		cs = append(cs, c15case{"hammer", i})
	}
	for i := 0; i < c15schedCount(env); i++ {
		cs = append(cs, c15case{"sched", i})
	}
	return cs
}

func init() {
	core.Register(&core.Prop{
		ID:    "C15",
		Level: "exploration",
		Rule: "four monitors on one mem.FS shared by several goroutines, each with its own handles. (free) 4..16 goroutines x 50..300 operations from the C01/C02 alphabets over <=4 names run freely under the race detector (GORACE log, reports de-duplicated by the innermost library function pair; any report with a hackpadfs frame is a violation), panics are caught, a stall is decided by watchdog + goroutine dump. " +
			"(porcupine) per-goroutine handles on existing files issue WriteAt(0, unique fixed-width value) / ReadAt(0, width) with call/return stamps from one logical clock; the recorded history is checked for linearizability against a register-per-file model (partitioned by file). (sched) small programs of 2..3 goroutines x 1..3 operations on <=4 names run under a cooperative scheduler that owns every transaction boundary of the real mem store: all interleavings when few, otherwise bounded-preemption and random walks; the result vector plus final tree must equal that of some sequential order of the same operations, and goroutines on disjoint subtrees must see their solo results; programs in which goroutines only create (MkdirAll of overlapping chains) are judged by what each goroutine finds after its own MkdirAll returned nil: the whole chain, under every schedule. " +
			"(hammer) tight loops aimed at windows narrower than a store transaction: 2..5 readers (ReadAt/Read of random ranges) and 1..2 positional writers (64 B .. 32 KiB at offsets 0, 1, 512, 5000) against a goroutine that shrinks (Truncate(0), Truncate(small), O_TRUNC re-open) and re-grows the same file, each through its own handle: no panic, no stall, n within bounds, only bytes some writer wrote (or zero fill); and 1..3 writers that after each of their own completed Mkdir/WriteFullFile/Rename/Remove check that their own listing and Stat reflect it while 1..3 observers list and stat in a loop, in one shared or in disjoint directories; at quiescence the listings must equal exactly what the writers completed and the tree must be well formed; a renamer moving a regular file along a chain of names while observers stat the new and then the old name of a link (both present is a state no order has); two goroutines copying between two files in opposite directions through the handles' blob interface (no deadlock, whole copies only); an appender against observers that learn the size twice in a row through two of four routes (handle Stat, Stat by name, ReadFile, Seek to end): never less the second time. " +
			"Non-trivial: free programs with >=2 goroutines hitting one name, histories with concurrent overlapping operations, schedules with >=1 preemption; distinct by case",
		Assumptions: []string{"interleavings are controlled at store-transaction granularity; finer-grained races are the race detector's job on the schedules that happened", "check-then-act namespace operations are known not to be atomic (F46): the scheduled monitor lists them by program shape"},
		NumCases:    func(env *core.Env) int { return len(c15cases(env)) },
		Batch:       10,
		Race:        true,
		Run:         c15run,
		Floor: func(env *core.Env, agg *core.Agg) string {
			if agg.Counters["free_ops"] < 20000 || agg.Counters["porcupine_ops"] < 5000 {
				return fmt.Sprint(agg.Counters["free_ops"], agg.Counters["porcupine_ops"])
			}
			return ""
		},
		Extra: func(env *core.Env, agg *core.Agg, cov map[string]any) {
			cov["race_detector_reports"] = agg.Counters["race_reports"]
		},
	})
}

func c15run(env *core.Env, idx int) core.CaseResult {
	cs := c15cases(env)[idx]
	var res core.CaseResult
	res.Key = core.Hash(cs)
	switch cs.Part {
	case "free":
		c15free(env, cs, idx, &res)
	case "porcupine":
		c15porcupine(env, cs, idx, &res)
	case "hammer":
		c15hammer(env, cs, idx, &res)
	default:
		c15sched(env, cs, idx, &res)
	}
	return res
}

// ---- (1) free-running programs under the race detector

func c15free(env *core.Env, cs c15case, idx int, res *core.CaseResult) {
	r := rand.New(rand.NewSource(env.Seed*20_000_003 + int64(idx)))
	m, _ := mem.NewFS()
	_ = hackpadfs.MkdirAll(m, "a/b", 0o755)
	_ = hackpadfs.WriteFullFile(m, "a/f", []byte("0123456789"), 0o644)
	_ = hackpadfs.WriteFullFile(m, "g", []byte("gggg"), 0o644)
	workers := 4 + r.Intn(13)
	nops := 50 + r.Intn(250)
	names := []string{"a", "a/f", "g", "a/b", "c"}
	var panics []string
	var mu sync.Mutex
	var total int64
	seeds := make([]int64, workers)
	for i := range seeds {
		seeds[i] = r.Int63()
	}
	var wg sync.WaitGroup
	hung, confirmed := withWatchdog(func() {
		for w := 0; w < workers; w++ {
			wg.Add(1)
			go func(w int) {
				defer wg.Done()
				wr := rand.New(rand.NewSource(seeds[w]))
				var hs fsx.Handles
				defer hs.CloseAll()
				for i := 0; i < nops; i++ {
					name := names[wr.Intn(len(names))]
					var st fsx.Step
					switch k := wr.Intn(20); {
					case k < 2:
						st = fsx.Step{K: "Mkdir", P: name, Perm: 0o755}
					case k < 4:
						st = fsx.Step{K: "WriteFullFile", P: name, Data: fmt.Sprintf("w%d.%d", w, i), Perm: 0o644}
					case k < 5:
						st = fsx.Step{K: "Remove", P: name}
					case k < 6:
						st = fsx.Step{K: "Rename", P: name, P2: names[wr.Intn(len(names))]}
					case k < 8:
						st = fsx.Step{K: "Stat", P: name}
					case k < 9:
						st = fsx.Step{K: "ReadDir", P: name}
					case k < 10:
						st = fsx.Step{K: "ReadFile", P: name}
					case k < 11:
						st = fsx.Step{K: "Chmod", P: name, Perm: 0o600}
					case k < 13:
						st = fsx.Step{K: "Open", P: name, Flag: []int{os.O_RDONLY, os.O_RDWR, os.O_RDWR | os.O_CREATE, os.O_WRONLY | os.O_APPEND}[wr.Intn(4)], Perm: 0o644, Slot: wr.Intn(2)}
					case k < 15:
						st = fsx.Step{K: "H.Write", Slot: wr.Intn(2), Data: fmt.Sprintf("<%d.%d>", w, i)}
					case k < 17:
						st = fsx.Step{K: "H.Read", Slot: wr.Intn(2), N: 8}
					case k < 18:
						st = fsx.Step{K: "H.Truncate", Slot: wr.Intn(2), Off: int64(wr.Intn(12))}
					case k < 19:
						st = fsx.Step{K: "H.Seek", Slot: wr.Intn(2), Off: int64(wr.Intn(8))}
					default:
						st = fsx.Step{K: "H.Stat", Slot: wr.Intn(2)}
					}
					rr := fsx.Exec(m, st, &hs, nil)
					atomic.AddInt64(&total, 1)
					if rr.Panic != "" {
						mu.Lock()
						panics = append(panics, st.String()+": "+rr.Panic)
						mu.Unlock()
						return
					}
					if wr.Intn(8) == 0 {
						runtime.Gosched()
					}
				}
			}(w)
		}
		wg.Wait()
	})
	wit := map[string]any{"case": cs, "workers": workers, "ops_per_worker": nops}
	switch {
	case hung && confirmed:
		res.Violate("C15|free|deadlock", fmt.Sprintf("%d goroutines stopped making progress; goroutine dump shows them parked on locks", workers), wit)
	case hung:
		res.Inconclusive = "free-running program did not finish, no blocked-state witness"
	}
	if len(panics) > 0 {
		what := "other"
		if strings.Contains(panics[0], "nil pointer") {
			what = "nil-deref"
		} else if strings.Contains(panics[0], "out of range") || strings.Contains(panics[0], "out of bounds") {
			what = "bounds"
		}
		res.Violate("C15|free|panic:"+what, fmt.Sprintf("panic under concurrent use: %s", panics[0]), wit)
	}
	res.Nontrivial = workers >= 2
	res.Count("free_programs", 1)
	res.Count("free_ops", int(total))
	if idx%13 == 0 {
		res.Sample = map[string]any{"part": "free", "goroutines": workers, "ops_each": nops}
	}
}

// ---- (3) recorded histories checked with porcupine

type regInput struct {
	File  int
	Write bool
	Val   string
}

const c15width = 12

var c15model = porcupine.Model{
	Partition: func(history []porcupine.Operation) [][]porcupine.Operation {
		by := map[int][]porcupine.Operation{}
		for _, op := range history {
			f := op.Input.(regInput).File
			by[f] = append(by[f], op)
		}
		var out [][]porcupine.Operation
		for _, ops := range by {
			out = append(out, ops)
		}
		return out
	},
	Init: func() interface{} { return strings.Repeat("0", c15width) },
	Step: func(state, input, output interface{}) (bool, interface{}) {
		in := input.(regInput)
		if in.Write {
			return true, in.Val
		}
		return output.(string) == state.(string), state
	},
	DescribeOperation: func(input, output interface{}) string {
		in := input.(regInput)
		if in.Write {
			return fmt.Sprintf("f%d.WriteAt(%s)", in.File, in.Val)
		}
		return fmt.Sprintf("f%d.ReadAt -> %v", in.File, output)
	},
}

func c15porcupine(env *core.Env, cs c15case, idx int, res *core.CaseResult) {
	r := rand.New(rand.NewSource(env.Seed*21_000_011 + int64(idx)))
	m, _ := mem.NewFS()
	files := 3
	for f := 0; f < files; f++ {
		_ = hackpadfs.WriteFullFile(m, fmt.Sprintf("f%d", f), []byte(strings.Repeat("0", c15width)), 0o644)
	}
	clients := 2 + r.Intn(7)
	opsEach := 10 + r.Intn(30)
	var clock int64
	var mu sync.Mutex
	var history []porcupine.Operation
	seeds := make([]int64, clients)
	for i := range seeds {
		seeds[i] = r.Int63()
	}
	var wg sync.WaitGroup
	var failures []string
	hung, confirmed := withWatchdog(func() {
		for c := 0; c < clients; c++ {
			wg.Add(1)
			go func(c int) {
				defer wg.Done()
				cr := rand.New(rand.NewSource(seeds[c]))
				handles := make([]hackpadfs.File, files)
				for f := range handles {
					h, err := m.OpenFile(fmt.Sprintf("f%d", f), os.O_RDWR, 0)
					if err != nil {
						mu.Lock()
						failures = append(failures, "open: "+err.Error())
						mu.Unlock()
						return
					}
					handles[f] = h
					defer h.Close()
				}
				for i := 0; i < opsEach; i++ {
					f := cr.Intn(files)
					in := regInput{File: f, Write: cr.Intn(2) == 0}
					var out string
					call := atomic.AddInt64(&clock, 1)
					perr := core.Recover(func() {
						if in.Write {
							in.Val = fmt.Sprintf("%03d.%03d.%04d", c, i, idx%10000)[:c15width]
							n, err := hackpadfs.WriteAtFile(handles[f], []byte(in.Val), 0)
							if err != nil || n != c15width {
								out = fmt.Sprintf("write failed n=%d err=%v", n, err)
							}
						} else {
							buf := make([]byte, c15width)
							n, err := hackpadfs.ReadAtFile(handles[f], buf, 0)
							out = string(buf[:n])
							if n != c15width {
								out = fmt.Sprintf("short read n=%d err=%v", n, err)
							}
						}
					})
					ret := atomic.AddInt64(&clock, 1)
					mu.Lock()
					if perr != "" {
						failures = append(failures, "panic: "+perr)
					} else if in.Write && out != "" {
						failures = append(failures, out)
					}
					history = append(history, porcupine.Operation{ClientId: c, Input: in, Call: call, Output: out, Return: ret})
					mu.Unlock()
					if cr.Intn(4) == 0 {
						runtime.Gosched()
					}
				}
			}(c)
		}
		wg.Wait()
	})
	wit := map[string]any{"case": cs, "clients": clients, "ops_each": opsEach}
	if hung {
		if confirmed {
			res.Violate("C15|porcupine|deadlock", "clients stopped making progress; goroutine dump shows them parked on locks", wit)
		} else {
			res.Inconclusive = "history recording did not finish"
		}
		return
	}
	if len(failures) > 0 {
		res.Violate("C15|porcupine|operation-failed", "an in-range ReadAt/WriteAt failed under concurrency: "+failures[0], wit)
		return
	}
	result, info := porcupine.CheckOperationsVerbose(c15model, history, 60*time.Second)
	res.Count("porcupine_histories", 1)
	res.Count("porcupine_ops", len(history))
	res.Count("porcupine_partitions", files)
	overlap := 0
	for i := 1; i < len(history); i++ {
		if history[i].Call < history[i-1].Return {
			overlap++
		}
	}
	res.Nontrivial = overlap > 0
	switch result {
	case porcupine.Illegal:
		_ = info
		var lines []string
		for _, op := range history {
			in := op.Input.(regInput)
			if in.File == 0 {
				lines = append(lines, fmt.Sprintf("c%d [%d,%d] %s", op.ClientId, op.Call, op.Return, c15model.DescribeOperation(op.Input, op.Output)))
			}
		}
		if len(lines) > 60 {
			lines = lines[:60]
		}
		res.Violate("C15|porcupine|not-linearizable", fmt.Sprintf("a recorded history of %d WriteAt/ReadAt operations by %d clients on %d files is not linearizable against a register per file", len(history), clients, files), map[string]any{"case": cs, "file0_history": lines})
	case porcupine.Unknown:
		res.Inconclusive = "porcupine timed out"
	}
	if idx%19 == 0 {
		res.Sample = map[string]any{"part": "porcupine", "clients": clients, "ops": len(history), "overlapping_pairs": overlap, "verdict": string(result)}
	}
}
