package props

import (
	"fmt"
	"math/rand"
	"os"
	"runtime"
	"sort"
	"strings"
	"sync"
	"time"

	"hpverif/internal/core"
	"hpverif/internal/fsx"
	"hpverif/internal/kvs"

	"github.com/hack-pad/hackpadfs"
	"github.com/hack-pad/hackpadfs/keyvalue"
	"github.com/hack-pad/hackpadfs/mem"
)

// Cooperative scheduler for C15: real goroutines run the real keyvalue.FS over the real mem store; the store wrapper
// parks the running worker before every Transaction() (the store lock is not held there) and before lazy
// Data()/ReadDirNames() evaluations outside a transaction. Exactly one worker runs at a time, so an execution is a
// function of the sequence of scheduling choices, and choice sequences can be enumerated.

type coSched struct {
	mu        sync.Mutex
	cond      *sync.Cond
	turn      int    // worker allowed to run; -1: the scheduler decides
	state     []int  // 0 running/not started, 1 parked at a yield point, 2 finished
	inTxn     []bool // worker is between Transaction() and Commit/Abort
	prefix    []int  // forced choices (index into the enabled list)
	rnd       *rand.Rand
	trace     []int // chosen enabled-index per decision
	branching []int // number of enabled workers per decision
	switches  int   // decisions that did not continue the worker that just parked
	last      int
	aborted   bool
	entered   int
}

func newCoSched(n int, prefix []int, rnd *rand.Rand) *coSched {
	s := &coSched{turn: -1, state: make([]int, n), inTxn: make([]bool, n), prefix: prefix, rnd: rnd, last: -1}
	s.cond = sync.NewCond(&s.mu)
	return s
}

// park is called on the running worker's goroutine.
func (s *coSched) park(w int) {
	s.mu.Lock()
	s.state[w] = 1
	s.turn = -1
	s.cond.Broadcast()
	for s.turn != w && !s.aborted {
		s.cond.Wait()
	}
	s.state[w] = 0
	s.mu.Unlock()
}

// enter is a worker's first stop: it announces itself without taking the turn away from whoever is running.
func (s *coSched) enter(w int) {
	s.mu.Lock()
	s.state[w] = 1
	s.entered++
	s.cond.Broadcast()
	for s.turn != w && !s.aborted {
		s.cond.Wait()
	}
	s.state[w] = 0
	s.mu.Unlock()
}

func (s *coSched) finish(w int) {
	s.mu.Lock()
	s.state[w] = 2
	s.turn = -1
	s.cond.Broadcast()
	s.mu.Unlock()
}

// yieldPoint is called from the store wrapper's hook (on whatever worker is running).
func (s *coSched) yieldPoint(kind string) {
	s.mu.Lock()
	w := s.turn
	skip := w < 0 || s.aborted || (kind != "Transaction" && s.inTxn[w]) || (kind == "Transaction" && s.inTxn[w])
	s.mu.Unlock()
	if !skip {
		s.park(w)
	}
}

func (s *coSched) notify(what string) {
	s.mu.Lock()
	if w := s.turn; w >= 0 {
		s.inTxn[w] = what == "opened"
	}
	s.mu.Unlock()
}

// run drives the workers to completion; returns false if the watchdog fired.
func (s *coSched) run() bool {
	timer := time.AfterFunc(20*time.Second, func() {
		s.mu.Lock()
		s.aborted = true
		s.cond.Broadcast()
		s.mu.Unlock()
	})
	defer timer.Stop()
	deadline := time.Now().Add(20 * time.Second)
	for {
		s.mu.Lock()
		for (s.turn != -1 || s.entered < len(s.state)) && !s.aborted {
			s.cond.Wait() // every worker has announced itself, and the running worker parks or finishes
		}
		if s.aborted {
			s.mu.Unlock()
			return false
		}
		var enabled []int
		finished := 0
		for w, st := range s.state {
			switch st {
			case 1:
				enabled = append(enabled, w)
			case 2:
				finished++
			}
		}
		if len(enabled) == 0 {
			done := finished == len(s.state)
			s.mu.Unlock()
			if done {
				return true
			}
			// workers not started yet: give them a moment
			runtime.Gosched()
			if time.Now().After(deadline) {
				return false
			}
			continue
		}
		d := len(s.trace)
		choice := 0
		switch {
		case d < len(s.prefix):
			choice = s.prefix[d] % len(enabled)
		case s.rnd != nil:
			choice = s.rnd.Intn(len(enabled))
		default:
			// default: keep running the worker that just parked if it is enabled (no preemption)
			for i, w := range enabled {
				if w == s.last {
					choice = i
				}
			}
		}
		pick := enabled[choice]
		if s.last >= 0 && pick != s.last && s.state[s.last] == 1 {
			s.switches++
		}
		s.trace = append(s.trace, choice)
		s.branching = append(s.branching, len(enabled))
		s.last = pick
		s.turn = pick
		s.cond.Broadcast()
		s.mu.Unlock()
	}
}

// ---- programs

type c15op struct {
	W  int      `json:"w"`
	St fsx.Step `json:"op"`
}

type c15program struct {
	Workers [][]fsx.Step `json:"workers"`
	// Post: judged by a postcondition each goroutine can check for itself instead of by serializability (see c15postcondition)
	Post bool `json:"post,omitempty"`
}

func (p c15program) String() string {
	var parts []string
	for w, ops := range p.Workers {
		parts = append(parts, fmt.Sprintf("g%d: %s", w, fsx.HistoryString(ops)))
	}
	return strings.Join(parts, " || ")
}

var c15names = []string{"f", "g", "d", "d/x", "d/y", "e", "e/z"}

func c15genProgram(r *rand.Rand) c15program {
	nw := 2 + r.Intn(2)
	var p c15program
	for w := 0; w < nw; w++ {
		nops := 1 + r.Intn(3)
		if nw == 3 && nops == 3 {
			nops = 2
		}
		var ops []fsx.Step
		for i := 0; i < nops; i++ {
			name := c15names[r.Intn(len(c15names))]
			var st fsx.Step
			switch k := r.Intn(20); {
			case k < 4:
				st = fsx.Step{K: "Mkdir", P: name, Perm: 0o755}
			case k < 6:
				st = fsx.Step{K: "MkdirAll", P: name, Perm: 0o755}
			case k < 9:
				st = fsx.Step{K: "Create", P: name} // OpenFile(create|trunc) + Close, one FS method
			case k < 10:
				st = fsx.Step{K: "Open", P: name, Flag: os.O_RDWR | os.O_CREATE | os.O_EXCL, Perm: 0o644, Slot: 2}
			case k < 13:
				st = fsx.Step{K: "Remove", P: name}
			case k < 16:
				st = fsx.Step{K: "Rename", P: name, P2: c15names[r.Intn(len(c15names))]}
			case k < 18:
				st = fsx.Step{K: "Stat", P: name}
			case k < 19:
				st = fsx.Step{K: "Chmod", P: name, Perm: 0o600}
			default:
				st = fsx.Step{K: "H.ReadDir", Slot: 1, N: -1} // pre-opened handle on d
			}
			ops = append(ops, st)
		}
		p.Workers = append(p.Workers, ops)
	}
	return p
}

func c15initial(fsys hackpadfs.FS) {
	_ = hackpadfs.Mkdir(fsys, "d", 0o755)
	_ = hackpadfs.WriteFullFile(fsys, "d/x", []byte("dx"), 0o644)
	_ = hackpadfs.WriteFullFile(fsys, "f", []byte("init"), 0o644)
	_ = hackpadfs.Mkdir(fsys, "e", 0o755)
}

func c15outcome(results [][]fsx.Result, fsys hackpadfs.FS) string {
	var sb strings.Builder
	for w, rs := range results {
		for i, r := range rs {
			data := r.Data
			if strings.HasPrefix(data, "f ") || strings.HasPrefix(data, "d ") { // Stat: drop nothing, keep as is
			}
			fmt.Fprintf(&sb, "g%d.%d=%s/%s;", w, i, r.Err, data)
		}
	}
	snap, prob := fsx.Snapshot(fsys, nil)
	sb.WriteString("tree=" + snap.Hash() + prob)
	return sb.String()
}

// c15sequential returns the outcomes of every program-order-respecting sequential execution.
func c15sequential(p c15program) map[string]bool {
	out := map[string]bool{}
	idx := make([]int, len(p.Workers))
	var order []int
	total := 0
	for _, ops := range p.Workers {
		total += len(ops)
	}
	var rec func()
	rec = func() {
		if len(order) == total {
			m, _ := mem.NewFS()
			c15initial(m)
			hs := make([]fsx.Handles, len(p.Workers))
			for w := range hs {
				f, _ := m.Open("d")
				hs[w].F = []hackpadfs.File{nil, f}
			}
			results := make([][]fsx.Result, len(p.Workers))
			pos := make([]int, len(p.Workers))
			for _, w := range order {
				results[w] = append(results[w], fsx.Exec(m, p.Workers[w][pos[w]], &hs[w], nil))
				pos[w]++
			}
			out[c15outcome(results, m)] = true
			for w := range hs {
				hs[w].CloseAll()
			}
			return
		}
		for w := range p.Workers {
			if idx[w] < len(p.Workers[w]) {
				idx[w]++
				order = append(order, w)
				rec()
				order = order[:len(order)-1]
				idx[w]--
			}
		}
	}
	rec()
	return out
}

type c15exec struct {
	outcome   string
	trace     []int
	branching []int
	switches  int
	hung      bool
	results   [][]fsx.Result
	lockLeft  bool // all goroutines returned, but the final tree could not be read: the dump shows the reader parked on a lock
	panic     string
}

func c15execute(p c15program, prefix []int, rnd *rand.Rand) c15exec {
	s := newCoSched(len(p.Workers), prefix, rnd)
	wr := kvs.WrapTxn(mem.NewStoreVerif(), nil)
	fsys, err := keyvalue.NewFS(wr)
	if err != nil {
		return c15exec{panic: "NewFS: " + err.Error()}
	}
	c15initial(fsys)
	hs := make([]fsx.Handles, len(p.Workers))
	for w := range hs {
		f, _ := fsys.Open("d")
		hs[w].F = []hackpadfs.File{nil, f}
	}
	wr.Hook = func(ev kvs.Event) error {
		switch ev.Op {
		case "Transaction", "Data", "ReadDirNames":
			s.yieldPoint(ev.Op)
		}
		return nil
	}
	wr.Notify = s.notify
	results := make([][]fsx.Result, len(p.Workers))
	var pmu sync.Mutex
	panicked := ""
	for w := range p.Workers {
		go func(w int) {
			s.enter(w) // the scheduler decides who starts
			for _, st := range p.Workers[w] {
				r := fsx.Exec(fsys, st, &hs[w], nil)
				results[w] = append(results[w], r)
				if r.Panic != "" {
					pmu.Lock()
					panicked = st.String() + ": " + r.Panic
					pmu.Unlock()
				}
			}
			s.finish(w)
		}(w)
	}
	ok := s.run()
	ex := c15exec{trace: s.trace, branching: s.branching, switches: s.switches, hung: !ok, panic: panicked}
	if ok {
		ex.results = results
		wr.Hook, wr.Notify = nil, nil
		// every goroutine has returned: the store must be free. Reading the final tree under a watchdog catches a lock
		// that one of the operations never released (the read would otherwise park this process for good).
		if hung, confirmed := withWatchdog(func() { ex.outcome = c15outcome(results, fsys) }); hung {
			ex.hung = true
			ex.lockLeft = confirmed
		}
	}
	return ex
}

// c15pairOps is the concrete operation list from which all two-goroutine, one-operation-each programs are formed.
func c15pairOps(thorough bool) []fsx.Step {
	names := []string{"f", "g", "d", "d/x", "e", "e/z"}
	if thorough {
		names = c15names
	}
	var ops []fsx.Step
	for _, n := range names {
		ops = append(ops,
			fsx.Step{K: "Mkdir", P: n, Perm: 0o755}, fsx.Step{K: "MkdirAll", P: n, Perm: 0o755}, fsx.Step{K: "Create", P: n},
			fsx.Step{K: "Open", P: n, Flag: os.O_RDWR | os.O_CREATE | os.O_EXCL, Perm: 0o644, Slot: 2},
			fsx.Step{K: "Remove", P: n}, fsx.Step{K: "Stat", P: n}, fsx.Step{K: "Chmod", P: n, Perm: 0o600})
	}
	for _, r := range [][2]string{{"f", "g"}, {"f", "d/x"}, {"d/x", "f"}, {"d", "g"}, {"e", "d/y"}, {"d", "e/z"}, {"f", "e"}, {"d/x", "d/y"}, {"e", "g"}, {"g", "f"}} {
		ops = append(ops, fsx.Step{K: "Rename", P: r[0], P2: r[1]})
	}
	ops = append(ops, fsx.Step{K: "H.ReadDir", Slot: 1, N: -1})
	return ops
}

func c15pairCount(env *core.Env) int {
	n := len(c15pairOps(env.Thorough()))
	return n * (n + 1) / 2
}

func c15schedCount(env *core.Env) int {
	return c15pairCount(env)/40 + 1 + len(c15observerPrograms()) + len(c15postPrograms()) + env.Pick(200, 3000)
}

// c15postPrograms: goroutines that only create (MkdirAll of overlapping chains; nothing is ever removed) and then use what
// their own MkdirAll said is there. MkdirAll is known not to be atomic for an observer (F46) - but whatever the
// interleaving, once ITS MkdirAll(p) has returned nil a goroutine finds p and every directory above p.
func c15postPrograms() []c15program {
	mk := func(p string) fsx.Step { return fsx.Step{K: "MkdirAll", P: p, Perm: 0o755} }
	st := func(p string) fsx.Step { return fsx.Step{K: "Stat", P: p} }
	return []c15program{
		{Post: true, Workers: [][]fsx.Step{{mk("n/a/b")}, {mk("n/a/b"), st("n/a"), st("n")}}},
		{Post: true, Workers: [][]fsx.Step{{mk("n/a/b")}, {mk("n/a/b"), {K: "Create", P: "n/a/file"}}}},
		{Post: true, Workers: [][]fsx.Step{{mk("e/p/q")}, {mk("e/p/q"), st("e/p"), st("e/p/q")}}},
		{Post: true, Workers: [][]fsx.Step{{mk("n/a/b")}, {mk("n/a"), st("n"), {K: "Mkdir", P: "n/a/c", Perm: 0o755}}}},
		{Post: true, Workers: [][]fsx.Step{{mk("n/a/b/c")}, {mk("n/a/b"), st("n/a"), st("n")}}},
		{Post: true, Workers: [][]fsx.Step{{mk("n/a/b"), st("n/a")}, {mk("n/a/b"), st("n/a")}}},
		{Post: true, Workers: [][]fsx.Step{{mk("n/a/b")}, {mk("n/a/c")}, {mk("n/a/b"), st("n/a"), st("n")}}},
	}
}

// c15postcondition returns what a goroutine found missing after its own successful MkdirAll ("" = nothing).
func c15postcondition(p c15program, results [][]fsx.Result) string {
	for w, ops := range p.Workers {
		if w >= len(results) {
			continue
		}
		for i, st := range ops {
			if st.K != "MkdirAll" || i >= len(results[w]) || !results[w][i].OK() {
				continue
			}
			for j := i + 1; j < len(ops) && j < len(results[w]); j++ {
				use := ops[j]
				under := use.P == st.P || strings.HasPrefix(st.P, use.P+"/")
				inDir := strings.HasPrefix(st.P+"/", pathDir(use.P)+"/") // (Create/Mkdir of a new name in a directory of the chain)
				if (use.K == "Stat" && under || (use.K == "Create" || use.K == "Mkdir") && inDir) && !results[w][j].OK() {
					return fmt.Sprintf("g%d: %s returned nil, and then %s in the same goroutine failed: %s", w, st, use, results[w][j])
				}
			}
		}
	}
	return ""
}

func pathDir(p string) string {
	if i := strings.LastIndex(p, "/"); i > 0 {
		return p[:i]
	}
	return "."
}

// c15observerPrograms: one goroutine performs a single mutating operation, the other looks twice (at the two names
// involved, or at a name and its parent). Single-write operations must appear atomic to such an observer.
func c15observerPrograms() []c15program {
	var ps []c15program
	add := func(m fsx.Step, a, b string) {
		ps = append(ps, c15program{Workers: [][]fsx.Step{{m}, {{K: "Stat", P: a}, {K: "Stat", P: b}}}})
		ps = append(ps, c15program{Workers: [][]fsx.Step{{m}, {{K: "Stat", P: b}, {K: "Stat", P: a}}}})
	}
	for _, r := range [][2]string{{"f", "g"}, {"f", "d/x"}, {"d/x", "f"}, {"d/x", "d/y"}, {"d/x", "e/z"}} {
		add(fsx.Step{K: "Rename", P: r[0], P2: r[1]}, r[0], r[1])
	}
	for _, n := range []string{"g", "e/z", "d/y"} {
		parent := "."
		if i := strings.LastIndex(n, "/"); i > 0 {
			parent = n[:i]
		}
		add(fsx.Step{K: "Mkdir", P: n, Perm: 0o755}, n, parent)
		add(fsx.Step{K: "Create", P: n}, n, parent)
	}
	add(fsx.Step{K: "Remove", P: "f"}, "f", "g")
	add(fsx.Step{K: "Remove", P: "d/x"}, "d/x", "d")
	add(fsx.Step{K: "Chmod", P: "f", Perm: 0o600}, "f", "d/x")
	return ps
}

func c15opShape(st fsx.Step, init hackpadfs.FS) string {
	k := st.K
	if k == "Open" {
		k = "CreateExcl"
	}
	if k == "H.ReadDir" {
		return "DirHandle.ReadDir"
	}
	s := k + "[" + fsx.PathSit(init, st.P)
	if st.P2 != "" {
		s += "->" + fsx.PathSit(init, st.P2)
	}
	return s + "]"
}

// c15shape names a (minimised) program: per goroutine its operations with the situation of their targets in the
// initial tree, plus the relation between the paths of different goroutines.
func c15shape(p c15program) string {
	init, _ := mem.NewFS()
	c15initial(init)
	var per []string
	var paths [][]string
	for _, ops := range p.Workers {
		var ks, ps []string
		for _, st := range ops {
			ks = append(ks, c15opShape(st, init))
			if st.K == "H.ReadDir" {
				ps = append(ps, "d")
			} else {
				ps = append(ps, st.P)
			}
			if st.P2 != "" {
				ps = append(ps, st.P2)
			}
		}
		per = append(per, strings.Join(ks, ";"))
		paths = append(paths, ps)
	}
	sort.Strings(per)
	rel := "disjoint"
	for i := range paths {
		for j := i + 1; j < len(paths); j++ {
			for _, a := range paths[i] {
				for _, b := range paths[j] {
					switch {
					case a == b:
						rel = "same-path"
					case strings.HasPrefix(a, b+"/") || strings.HasPrefix(b, a+"/"):
						if rel == "disjoint" {
							rel = "parent-child"
						}
					}
				}
			}
		}
	}
	return strings.Join(per, " || ") + "|" + rel
}

type c15stats struct {
	explored, withPreemption int
	outcomes                 map[string]bool
	exhaustive               bool
}

// c15explore enumerates schedules of p (depth-first over choice sequences, then random walks) and returns the first
// execution that is not serializable, hangs or panics.
func c15explore(p c15program, limit int, r *rand.Rand) (*c15exec, string, c15stats) {
	var legal map[string]bool
	if !p.Post {
		legal = c15sequential(p)
	}
	st := c15stats{outcomes: map[string]bool{}, exhaustive: true}
	bad := func(ex c15exec) string {
		st.explored++
		if ex.switches > 0 {
			st.withPreemption++
		}
		switch {
		case ex.hung:
			return "hang"
		case ex.panic != "":
			return "panic"
		}
		st.outcomes[ex.outcome] = true
		if p.Post {
			if c15postcondition(p, ex.results) != "" {
				return "mkdirall-postcondition"
			}
			return ""
		}
		if !legal[ex.outcome] {
			return "not-serializable"
		}
		return ""
	}
	var prefix []int
	for {
		ex := c15execute(p, prefix, nil)
		if what := bad(ex); what != "" {
			return &ex, what, st
		}
		next := -1
		for d := len(ex.trace) - 1; d >= 0; d-- {
			if ex.trace[d]+1 < ex.branching[d] {
				next = d
				break
			}
		}
		if next < 0 {
			return nil, "", st
		}
		prefix = append(append([]int(nil), ex.trace[:next]...), ex.trace[next]+1)
		if st.explored >= limit {
			st.exhaustive = false
			break
		}
	}
	for i := 0; i < limit/2; i++ {
		ex := c15execute(p, nil, rand.New(rand.NewSource(r.Int63())))
		if what := bad(ex); what != "" {
			return &ex, what, st
		}
	}
	return nil, "", st
}

// c15minimise removes operations while some schedule of the smaller program still fails the same way.
func c15minimise(p c15program, what string, limit int, r *rand.Rand) c15program {
	for changed := true; changed; {
		changed = false
		for w := range p.Workers {
			for i := range p.Workers[w] {
				var q c15program
				for w2, ops := range p.Workers {
					var keep []fsx.Step
					for i2, st := range ops {
						if w2 == w && i2 == i {
							continue
						}
						keep = append(keep, st)
					}
					if len(keep) > 0 {
						q.Workers = append(q.Workers, keep)
					}
				}
				if len(q.Workers) < 2 {
					continue
				}
				if _, w2, _ := c15explore(q, limit, r); w2 == what {
					p, changed = q, true
					break
				}
			}
			if changed {
				break
			}
		}
	}
	return p
}

func c15sched(env *core.Env, cs c15case, idx int, res *core.CaseResult) {
	r := rand.New(rand.NewSource(env.Seed*22_000_019 + int64(cs.Rep)))
	limit := env.Pick(300, 3000)
	var programs []c15program
	pairBlocks := c15pairCount(env)/40 + 1
	if cs.Rep < pairBlocks {
		// a block of the complete pair enumeration: two goroutines, one operation each
		ops := c15pairOps(env.Thorough())
		k := 0
		for i := range ops {
			for j := i; j < len(ops); j++ {
				if k/40 == cs.Rep {
					programs = append(programs, c15program{Workers: [][]fsx.Step{{ops[i]}, {ops[j]}}})
				}
				k++
			}
		}
	} else if obs := cs.Rep - pairBlocks; obs < len(c15observerPrograms()) {
		programs = append(programs, c15observerPrograms()[obs])
	} else if post := cs.Rep - pairBlocks - len(c15observerPrograms()); post < len(c15postPrograms()) {
		programs = append(programs, c15postPrograms()[post])
	} else {
		programs = append(programs, c15genProgram(r))
	}
	res.Key = core.Hash(programs)
	for _, p := range programs {
		ex, what, st := c15explore(p, limit, r)
		res.Count("sched_programs", 1)
		res.Count("sched_executions", st.explored)
		res.Count("sched_executions_with_preemption", st.withPreemption)
		if st.exhaustive {
			res.Count("sched_programs_fully_enumerated", 1)
		}
		if st.withPreemption > 0 {
			res.Nontrivial = true
		}
		res.Seen("program_shapes", c15shape(p))
		if ex != nil {
			min, mex := p, ex
			if what != "hang" && what != "mkdirall-postcondition" { // (every re-execution of a hanging program waits for the watchdog again)
				min = c15minimise(p, what, limit, r)
				mex, _, _ = c15explore(min, limit, r)
			}
			shape := c15shape(min)
			detail := fmt.Sprintf("program [%s] (minimised from [%s]): ", min, p)
			wit := map[string]any{"program": p.String(), "minimal_program": min.String()}
			if mex != nil {
				wit["schedule"] = mex.trace
				wit["outcome"] = mex.outcome
			}
			switch what {
			case "hang":
				detail += "a scheduled execution did not finish: the running goroutine blocked while every other goroutine was parked outside the store lock"
				if ex.lockLeft {
					detail = fmt.Sprintf("program [%s]: every goroutine returned, but the final tree could not be read afterwards: the goroutine dump shows the reader parked on the store lock (an operation ended without releasing it)", p)
				}
			case "panic":
				detail += "panic: " + ex.panic
			case "mkdirall-postcondition":
				detail = fmt.Sprintf("program [%s] (nothing is ever removed in it): under one schedule %s", p, c15postcondition(p, ex.results))
				shape = "own-MkdirAll-returned-nil-but-a-directory-of-the-chain-is-missing"
			default:
				detail += fmt.Sprintf("a schedule produced results and a tree that no sequential order of the same operations produces (%d sequential outcomes exist)", len(c15sequential(min)))
			}
			if cls := c15class(min, shape); cls != "" && what == "not-serializable" {
				// the known lack of atomicity of check-then-act operations (F46) is one finding, not one per program shape
				shape = cls
			}
			wit["minimal_shape"] = c15shape(min)
			res.Violate("C15|sched|"+shape+"|"+what, detail, wit)
		}
		if res.Sample == nil && (idx%7 == 0) {
			res.Sample = map[string]any{"part": "sched", "program": p.String(), "schedules": st.explored, "with_preemption": st.withPreemption, "observed_outcomes": len(st.outcomes), "fully_enumerated": st.exhaustive}
		}
	}
}

// c15class recognises the two program classes in which keyvalue's check-then-act structure (look-up transactions
// followed by separate write transactions) is known not to be atomic; everything else keeps its specific shape.
func c15class(p c15program, shape string) string {
	if strings.HasSuffix(shape, "|disjoint") {
		return ""
	}
	init, _ := mem.NewFS()
	c15initial(init)
	mutators, multiStep, lists := 0, false, false
	for _, ops := range p.Workers {
		mut := false
		for _, st := range ops {
			switch st.K {
			case "H.ReadDir":
				lists = true
			case "Mkdir", "Create", "Open", "Remove", "Chmod":
				mut = true
			case "MkdirAll":
				mut, multiStep = true, true
			case "Rename":
				mut = true
				if sit := fsx.PathSit(init, st.P); sit == "dir" || sit == "emptydir" {
					multiStep = true // a directory is moved record by record
				}
			}
		}
		if mut {
			mutators++
		}
	}
	switch {
	case mutators >= 2:
		return "check-then-act:two-mutators-on-related-paths"
	case mutators == 1 && multiStep:
		return "multi-step-mutation-observed-half-done"
	case mutators == 1 && lists:
		return "directory-listing-is-not-a-snapshot"
	}
	return ""
}
