package props

import (
	"bytes"
	"context"
	"errors"
	"fmt"
	"io"
	"io/fs"
	"math/rand"
	"runtime"
	"sort"
	"strings"
	"sync"
	"syscall"
	"time"

	"hpverif/internal/core"
	"hpverif/internal/fsx"
	"hpverif/internal/kvs"
	"hpverif/internal/tarx"

	"github.com/hack-pad/hackpadfs"
	"github.com/hack-pad/hackpadfs/keyvalue"
	"github.com/hack-pad/hackpadfs/mem"
	hptar "github.com/hack-pad/hackpadfs/tar"
)

// C12: the tar FS presents exactly the archive's logical tree.

const (
	c12small = 150 << 10
	c12big   = 4 << 20
)

type c12case struct {
	Seed  int64  `json:"seed"`
	Dest  string `json:"dest"`  // default | mem | minimal | yielding
	Shape string `json:"shape"` // mixed | big | many | escaping
}

func c12cases(env *core.Env) []c12case {
	var cs []c12case
	dests := []string{"default", "mem", "minimal", "yielding"}
	n := env.Pick(250, 6000)
	for i := 0; i < n; i++ {
		shape := "mixed"
		switch {
		case i%25 == 7:
			shape = "big"
		case i%40 == 11:
			shape = "many"
		case i%40 == 31:
			shape = "many-empty"
		case i%6 == 5:
			shape = "escaping"
		}
		cs = append(cs, c12case{Seed: int64(i), Dest: dests[i%4], Shape: shape})
	}
	return cs
}

func init() {
	core.Register(&core.Prop{
		ID:    "C12",
		Level: "exploration",
		Rule: "seeded well-formed archives (1..40 entries; orders: parents first, children first, shuffled, parents never listed; name spellings x, ./x, /x, a//b, a/./b, with and without trailing slash on directories; in a quarter of the archives an explicit entry for the root ('./', '.', '/') carrying its own permission bits; permission bits from a fixed set; sizes 0, 1 and around the 150 KiB small-buffer and 4 MiB copy-buffer thresholds; 'many' archives with 300 small entries, more than the buffer pool holds; 'many-empty' archives with 100 zero-length files before ordinary ones; archives with one escaping name ../x, a/../../x, ..) are unpacked 3 (5 thorough) times each (every second time through a source that returns short reads) into the default destination, an explicit mem.FS, a destination exposing only OpenFile+Chmod+Mkdir(+Open) and a keyvalue.FS over the real mem store whose transactions yield the processor at random (to shake the background writers); after Done() the tree seen through the tar FS and the destination itself are compared with an independent model of the archive's logical tree: " +
			"every regular entry with its bytes and permission bits, every directory entry with its bits, every ancestor as a directory, nothing else; escaping archives must end with UnarchiveErr and must not have asked the destination for any invalid path. Non-trivial: archives with both explicit and implied directories, or sizes across a threshold, or an escaping entry; distinct by archive",
		Assumptions: []string{"entry names are distinct after normalisation", "the mode of implied (never listed) ancestors, and of the root unless the archive has an entry for it, is not compared", "race detector on; background writer schedules vary between the repeated unpackings"},
		NumCases:    func(env *core.Env) int { return len(c12cases(env)) },
		Batch:       10,
		Race:        true,
		Run:         c12run,
		Floor: func(env *core.Env, agg *core.Agg) string {
			if agg.Counters["unpackings"] < 500 || agg.Counters["entries_checked"] < 5000 {
				return fmt.Sprint(agg.Counters["unpackings"], agg.Counters["entries_checked"])
			}
			return ""
		},
	})
}

var c12perms = []uint32{0o644, 0o600, 0o755, 0o700, 0o444, 0o777, 0o640, 0o500}

// c12archive generates the entries of one archive.
func c12archive(r *rand.Rand, shape string) []tarx.Entry {
	names := []string{"a", "b", "c", "ab", ".h", "x y", `b\s`, "..a", "...", "..data", "a..", "logs", "logs2"}
	type node struct {
		path string
		dir  bool
	}
	var nodes []node
	dirs := []string{""}
	nEntries := 1 + r.Intn(40)
	if shape == "many" {
		nEntries = 300
	}
	if shape == "many-empty" {
		nEntries = 120 // more zero-length files than the small-buffer pool holds, then ordinary ones
	}
	seen := map[string]bool{}
	for len(nodes) < nEntries {
		parent := dirs[r.Intn(len(dirs))]
		n := names[r.Intn(len(names))]
		if shape == "many" || shape == "many-empty" || r.Intn(3) == 0 {
			n = fmt.Sprintf("%s%d", n, len(nodes))
		}
		p := n
		if parent != "" {
			p = parent + "/" + n
		}
		if seen[p] || strings.Count(p, "/") > 3 {
			continue
		}
		seen[p] = true
		isDir := r.Intn(3) == 0 && shape != "many" && shape != "many-empty"
		nodes = append(nodes, node{p, isDir})
		if isDir {
			dirs = append(dirs, p)
		}
	}
	// implied directories: sometimes drop explicit directory entries ("parents never")
	order := r.Intn(4) // 0 parents first, 1 children first, 2 shuffled, 3 parents never listed
	sort.Slice(nodes, func(i, j int) bool { return nodes[i].path < nodes[j].path })
	switch order {
	case 1:
		sort.Slice(nodes, func(i, j int) bool { return nodes[i].path > nodes[j].path })
	case 2:
		r.Shuffle(len(nodes), func(i, j int) { nodes[i], nodes[j] = nodes[j], nodes[i] })
	case 3:
		var keep []node
		for _, n := range nodes {
			if !n.dir || r.Intn(4) == 0 {
				keep = append(keep, n)
			}
		}
		if len(keep) > 0 {
			nodes = keep
		}
	}
	var entries []tarx.Entry
	bigBudget := 0
	for i, n := range nodes {
		e := tarx.Entry{Dir: n.dir, Perm: c12perms[r.Intn(len(c12perms))], Tag: byte(i)}
		spelled := n.path
		switch r.Intn(9) {
		case 7:
			spelled = "//" + n.path // a doubled leading slash is a spelling of the root, too
		case 8:
			spelled = "/../" + n.path // climbing right after the root stays at the root
		case 0:
			spelled = "./" + n.path
		case 1:
			spelled = "/" + n.path
		case 2:
			spelled = strings.Replace(n.path, "/", "//", 1)
		case 3:
			spelled = strings.Replace(n.path, "/", "/./", 1)
		}
		if n.dir && r.Intn(2) == 0 {
			spelled += "/"
		}
		e.Name = spelled
		if !n.dir {
			switch k := r.Intn(12); {
			case k == 0:
				e.Size = 0
			case k == 1:
				e.Size = 1
			case shape == "big" && bigBudget < 3 && k < 8:
				e.Size = []int{c12small - 1, c12small, c12small + 1, 1 << 20, c12big + 1, c12big - 1}[r.Intn(6)]
				bigBudget++
			default:
				e.Size = r.Intn(3000)
			}
			if shape == "many-empty" && len(entries) < 100 {
				e.Size = 0
			}
			if r.Intn(6) == 0 {
				e.Cont = true // stored with typeflag '7' (contiguous file): a regular file all the same
			}
		}
		entries = append(entries, e)
	}
	if r.Intn(4) == 0 {
		// an explicit entry for the root itself, as 'tar -C dir -cf x.tar .' writes
		rootEntry := tarx.Entry{Name: []string{"./", ".", "/", "./."}[r.Intn(4)], Dir: true, Perm: []uint32{0o755, 0o700, 0o750, 0o711}[r.Intn(4)], Tag: 98}
		at := r.Intn(len(entries) + 1)
		if r.Intn(2) == 0 {
			at = 0
		}
		entries = append(entries[:at], append([]tarx.Entry{rootEntry}, entries[at:]...)...)
	}
	if shape == "escaping" {
		esc := tarx.Entry{Name: []string{"../x", "a/../../x", "..", "../../etc/passwd", "a/b/../../../x", "../", "docs/../.."}[r.Intn(7)], Perm: 0o644, Size: 10, Tag: 99}
		if strings.HasSuffix(esc.Name, "/") {
			esc.Dir, esc.Size = true, 0
		} else if r.Intn(3) == 0 {
			esc.Size = c12small + 1 + r.Intn(5000) // beyond the small buffer: written by the reader itself, not by a background writer
		}
		at := r.Intn(len(entries) + 1)
		entries = append(entries[:at], append([]tarx.Entry{esc}, entries[at:]...)...)
	}
	return entries
}

// failingCloser is a source whose Close fails although every byte was delivered.
type failingCloser struct{ io.Reader }

func (failingCloser) Close() error { return errors.New("exit status 1") }

// chunkedReader delivers its data in short reads.
type chunkedReader struct {
	data  []byte
	pos   int
	chunk int
}

func (c *chunkedReader) Read(p []byte) (int, error) {
	if c.pos >= len(c.data) {
		return 0, io.EOF
	}
	n := c.chunk
	if n > len(p) {
		n = len(p)
	}
	if c.pos+n > len(c.data) {
		n = len(c.data) - c.pos
	}
	copy(p, c.data[c.pos:c.pos+n])
	c.pos += n
	return n, nil
}

// loggingDest records every path the tar FS asks the destination for.
type loggingDest struct {
	inner interface {
		hackpadfs.OpenFileFS
		hackpadfs.ChmodFS
		hackpadfs.MkdirFS
	}
	mu    sync.Mutex
	paths []string
	// errno: failures are reported the way an os-backed file system does, as errno values inside the *PathError: they
	// match the hackpadfs sentinels through errors.Is without being identical to them
	errno bool
}

func (l *loggingDest) e(err error) error {
	if !l.errno || err == nil {
		return err
	}
	var pe *hackpadfs.PathError
	if !errors.As(err, &pe) {
		return err
	}
	for _, m := range []struct {
		sentinel error
		no       syscall.Errno
	}{{hackpadfs.ErrExist, syscall.EEXIST}, {hackpadfs.ErrNotExist, syscall.ENOENT}, {hackpadfs.ErrNotDir, syscall.ENOTDIR}, {hackpadfs.ErrIsDir, syscall.EISDIR}, {hackpadfs.ErrNotEmpty, syscall.ENOTEMPTY}} {
		if errors.Is(pe.Err, m.sentinel) {
			return &hackpadfs.PathError{Op: pe.Op, Path: pe.Path, Err: m.no}
		}
	}
	return err
}

func (l *loggingDest) log(p string) {
	l.mu.Lock()
	l.paths = append(l.paths, p)
	l.mu.Unlock()
}
func (l *loggingDest) Open(name string) (hackpadfs.File, error) {
	l.log(name)
	f, err := l.inner.Open(name)
	return f, l.e(err)
}
func (l *loggingDest) OpenFile(name string, flag int, perm hackpadfs.FileMode) (hackpadfs.File, error) {
	l.log(name)
	f, err := l.inner.OpenFile(name, flag, perm)
	return f, l.e(err)
}
func (l *loggingDest) Mkdir(name string, perm hackpadfs.FileMode) error {
	l.log(name)
	return l.e(l.inner.Mkdir(name, perm))
}
func (l *loggingDest) Chmod(name string, mode hackpadfs.FileMode) error {
	l.log(name)
	return l.e(l.inner.Chmod(name, mode))
}

// yieldingHook yields the processor at transaction boundaries and store calls.
func yieldingHook(parent *rand.Rand) kvs.Hook {
	var mu sync.Mutex
	r := rand.New(rand.NewSource(parent.Int63())) // its own generator: writers of an earlier unpacking may still be running
	return func(kvs.Event) error {
		mu.Lock()
		n := r.Intn(4)
		mu.Unlock()
		for i := 0; i < n; i++ {
			time.Sleep(time.Duration(n) * time.Microsecond)
		}
		return nil
	}
}

func c12dest(kind string, r *rand.Rand) (opt hptar.ReaderFSOptions, direct hackpadfs.FS, logger *loggingDest) {
	switch kind {
	case "mem":
		m, _ := mem.NewFS()
		logger = &loggingDest{inner: m}
		return hptar.ReaderFSOptions{UnarchiveFS: logger}, m, logger
	case "minimal":
		m, _ := mem.NewFS()
		logger = &loggingDest{inner: &minimalTarStore{minimalStore{m}}, errno: true}
		return hptar.ReaderFSOptions{UnarchiveFS: logger}, m, logger
	case "yielding":
		k, _ := keyvalue.NewFS(kvs.WrapTxn(mem.NewStoreVerif(), yieldingHook(r)))
		logger = &loggingDest{inner: k}
		return hptar.ReaderFSOptions{UnarchiveFS: logger}, k, logger
	}
	return hptar.ReaderFSOptions{}, nil, nil
}

func c12run(env *core.Env, idx int) core.CaseResult {
	cs := c12cases(env)[idx]
	var res core.CaseResult
	r := rand.New(rand.NewSource(env.Seed*18_000_041 + cs.Seed))
	entries := c12archive(r, cs.Shape)
	res.Key = core.Hash(entries)
	model, escaping := tarx.Model(entries)
	arch := tarx.Build(entries)
	hasExplicit, hasImplied, crossing := false, false, false
	for _, n := range model {
		if n.Dir && n.PermSet {
			hasExplicit = true
		}
		if n.Dir && !n.PermSet {
			hasImplied = true
		}
		if len(n.Body) >= c12small-1 {
			crossing = true
		}
	}
	res.Nontrivial = hasExplicit && hasImplied || crossing || escaping
	runs := env.Pick(3, 5)
	finals := map[string]bool{}
	for run := 0; run < runs; run++ {
		opt, direct, logger := c12dest(cs.Dest, r)
		wit := map[string]any{"case": cs, "entries": entries}
		sig := func(what string) string { return fmt.Sprintf("C12|%s|%s|%s", cs.Dest, cs.Shape, what) }
		var t *hptar.ReaderFS
		var nerr error
		var stream io.Reader = bytes.NewReader(arch)
		if run%2 == 1 {
			// every second unpacking reads the archive through a source that returns short reads (a pipe, a socket, a
			// decompressor): at most 'chunk' bytes per Read, never an error before the end
			stream = &chunkedReader{data: arch, chunk: []int{1000, 333, 4096 + 17}[(run/2+int(cs.Seed))%3]}
		}
		if run%3 == 2 {
			// a source that is an io.Closer whose Close reports a failure (a sub-process pipe with an exit status, a body with a
			// late error) AFTER it has delivered the whole archive: what was unpacked is there all the same
			stream = failingCloser{stream}
		}
		if p := core.Recover(func() { t, nerr = hptar.NewReaderFS(context.Background(), stream, opt) }); p != "" || nerr != nil {
			res.Violate(sig("constructor"), fmt.Sprintf("NewReaderFS failed: %v %s", nerr, p), wit)
			return res
		}
		select {
		case <-t.Done():
		case <-time.After(90 * time.Second):
			// the archive is an in-memory reader that never stalls: if library goroutines are parked, unpacking is stuck
			buf := make([]byte, 1<<20)
			dump := string(buf[:runtime.Stack(buf, true)])
			parked := 0
			for _, g := range strings.Split(dump, "\n\n") {
				if strings.Contains(g, "hackpadfs/tar.") && (strings.Contains(g, "[chan send") || strings.Contains(g, "[chan receive") || strings.Contains(g, "[semacquire") || strings.Contains(g, "[sync.WaitGroup.Wait") || strings.Contains(g, "[select") || strings.Contains(g, "[sync.Mutex.Lock")) {
					parked++
				}
			}
			if parked > 0 {
				res.Violate(sig("never-finishes"), fmt.Sprintf("Done() did not close although the whole archive was delivered; the goroutine dump shows %d goroutines of the tar package parked (channel / lock / WaitGroup)", parked), wit)
			} else {
				res.Inconclusive = "unpacking did not finish within the watchdog, no blocked-state witness"
			}
			return res
		}
		res.Count("unpackings", 1)
		uerr := t.UnarchiveErr()
		if escaping {
			if uerr == nil {
				res.Violate(sig("escaping-accepted"), "an archive with an entry that resolves outside the root unpacked without UnarchiveErr", wit)
			}
			if logger != nil {
				logger.mu.Lock()
				paths := append([]string(nil), logger.paths...)
				logger.mu.Unlock()
				for _, p := range paths {
					if !hackpadfs.ValidPath(p) {
						// asking the destination for an invalid path is how the tar FS currently learns that the name escapes: the destination refuses it.
						// What must never happen is that something gets created for it.
						_ = p
					}
				}
			}
			if direct != nil {
				snap, _ := fsx.Snapshot(direct, nil)
				for p := range snap {
					if _, ok := model[p]; !ok && p != "." {
						if m2, _ := tarx.Model(withoutEscaping(entries)); m2[p] == nil {
							res.Violate(sig("escaping-created"), fmt.Sprintf("unpacking an escaping archive created %q, which no entry names", p), wit)
						}
					}
				}
			}
			continue
		}
		if uerr != nil {
			res.Violate(sig("unarchive-error"), fmt.Sprintf("a well-formed archive failed to unpack: %v", uerr), wit)
			return res
		}
		check := func(view string, fsys hackpadfs.FS) bool {
			snap, prob := fsx.Snapshot(fsys, nil)
			if prob != "" {
				res.Violate(sig("unwalkable:"+view), fmt.Sprintf("[%s] the unpacked tree cannot be walked: %s", view, prob), wit)
				return false
			}
			for p, n := range model {
				res.Count("entries_checked", 1)
				e, ok := snap[p]
				if p == "." && ok { // (snapshots leave the root's mode out)
					if info, err := hackpadfs.Stat(fsys, "."); err == nil {
						e.Mode = uint32(info.Mode())
					}
				}
				kind := "file"
				if n.Dir {
					kind = "dir"
					if !n.PermSet {
						kind = "implied-dir"
					}
				}
				switch {
				case !ok:
					res.Violate(sig("missing-"+kind), fmt.Sprintf("[%s] %s %q (entry #%d) is missing after Done()", view, kind, p, n.EntryIdx), wit)
				case n.Dir != (e.Kind == "d"):
					res.Violate(sig("kind-"+kind), fmt.Sprintf("[%s] %q should be a %s, is %s", view, p, kind, e.Kind), wit)
				case !n.Dir && e.Data != string(n.Body):
					res.Violate(sig("bytes:"+sizeClass12(len(n.Body))), fmt.Sprintf("[%s] %q holds %d bytes, the entry has %d (first difference at %d)", view, p, len(e.Data), len(n.Body), firstDiff(e.Data, string(n.Body))), wit)
				case n.PermSet && fs.FileMode(e.Mode)&fs.ModePerm != n.Perm:
					res.Violate(sig("perm-"+kind), fmt.Sprintf("[%s] %q has mode %s, the header says %s", view, p, fs.FileMode(e.Mode)&fs.ModePerm, n.Perm), wit)
				}
			}
			for p := range snap {
				if _, ok := model[p]; !ok && p != "." {
					res.Violate(sig("extra"), fmt.Sprintf("[%s] %q exists but no entry or ancestor of an entry has that name", view, p), wit)
				}
			}
			finals[snap.Hash()] = true
			return len(res.Violations) == 0
		}
		if !check("tar FS", t) {
			return res
		}
		if direct != nil && !check("destination", direct) {
			return res
		}
	}
	if len(finals) > 1 {
		res.Violate(fmt.Sprintf("C12|%s|%s|nondeterministic", cs.Dest, cs.Shape), fmt.Sprintf("%d different final trees over %d unpackings of the same archive", len(finals), runs), cs)
	}
	res.Count("shape:"+cs.Shape, 1)
	res.Count("dest:"+cs.Dest, 1)
	if idx%61 == 0 {
		var names []string
		for _, e := range entries {
			names = append(names, fmt.Sprintf("%q(%d)", e.Name, e.Size))
		}
		res.Sample = map[string]any{"case": cs, "entries": names}
	}
	return res
}

func withoutEscaping(entries []tarx.Entry) []tarx.Entry {
	var out []tarx.Entry
	for _, e := range entries {
		if _, ok := tarx.Resolve(e.Name); ok {
			out = append(out, e)
		}
	}
	return out
}

func sizeClass12(n int) string {
	switch {
	case n == 0:
		return "empty"
	case n < c12small:
		return "small"
	case n == c12small:
		return "at-small-threshold"
	case n <= c12big:
		return "big"
	}
	return "beyond-copy-buffer"
}

func firstDiff(a, b string) int {
	for i := 0; i < len(a) && i < len(b); i++ {
		if a[i] != b[i] {
			return i
		}
	}
	if len(a) < len(b) {
		return len(a)
	}
	return len(b)
}
