package props

import (
	"context"
	"errors"
	"fmt"
	"math/rand"
	"runtime"
	"strings"
	"sync"
	"time"

	"hpverif/internal/core"
	"hpverif/internal/kvs"

	"github.com/hack-pad/hackpadfs"
	"github.com/hack-pad/hackpadfs/keyvalue"
	"github.com/hack-pad/hackpadfs/keyvalue/blob"
	"github.com/hack-pad/hackpadfs/mem"
)

// C18: transactions — one result per call, in order; the store is always released.

type tcall struct {
	Op  string `json:"op"` // Get GetH Set SetH Abort Commit
	Key string `json:"k,omitempty"`
	H   string `json:"h,omitempty"` // ok fail abort-ok abort-fail
}

func (c tcall) String() string {
	switch c.Op {
	case "Abort", "Commit":
		return c.Op
	case "Get", "Set", "Del":
		return c.Op + "(" + c.Key + ")"
	}
	return c.Op + "(" + c.Key + "," + c.H + ")"
}

func c18symbols(keys []string) []tcall {
	var s []tcall
	hs := []string{"ok", "fail", "abort-ok", "abort-fail"}
	for _, k := range keys {
		s = append(s, tcall{Op: "Get", Key: k}, tcall{Op: "Set", Key: k})
		for _, h := range hs {
			s = append(s, tcall{Op: "GetH", Key: k, H: h}, tcall{Op: "SetH", Key: k, H: h})
		}
	}
	s = append(s, tcall{Op: "Abort"}, tcall{Op: "Commit"})
	return s
}

var c18once sync.Once
var c18enum [][]tcall

func c18lists() {
	c18once.Do(func() {
		syms := c18symbols([]string{"x", "y"})
		seen := map[string]bool{}
		var rec func(prefix []tcall, depth int)
		rec = func(prefix []tcall, depth int) {
			if len(prefix) > 0 {
				seq := normSeq(prefix)
				k := seqString(seq)
				if !seen[k] {
					seen[k] = true
					c18enum = append(c18enum, seq)
				}
			}
			if depth == 0 {
				return
			}
			for _, s := range syms {
				if len(prefix) > 0 && prefix[len(prefix)-1].Op == "Commit" {
					return
				}
				rec(append(append([]tcall(nil), prefix...), s), depth-1)
			}
		}
		rec(nil, 3)
		// keys in a parent/child relation and deletions (Set with a nil record): every key is its own
		syms = nil
		for _, k := range []string{"x", "x/c"} {
			syms = append(syms, tcall{Op: "Get", Key: k}, tcall{Op: "Set", Key: k}, tcall{Op: "Del", Key: k})
		}
		syms = append(syms, tcall{Op: "Commit"})
		rec(nil, 3)
		c18enum = append(c18enum, normSeq([]tcall{{Op: "Set", Key: "x/c"}, {Op: "Set", Key: "x"}, {Op: "Del", Key: "x"}, {Op: "Get", Key: "x/c"}}),
			normSeq([]tcall{{Op: "Set", Key: "x/c"}, {Op: "Del", Key: "x/c"}, {Op: "Get", Key: "x"}, {Op: "Get", Key: "x/c"}}))
	})
}

// normSeq truncates at the first Commit and appends one if there is none.
func normSeq(s []tcall) []tcall {
	var out []tcall
	for _, c := range s {
		out = append(out, c)
		if c.Op == "Commit" {
			return out
		}
	}
	return append(out, tcall{Op: "Commit"})
}

func seqString(s []tcall) string {
	var parts []string
	for _, c := range s {
		parts = append(parts, c.String())
	}
	return strings.Join(parts, " ")
}

const c18Block = 400

func c18layout(env *core.Env) (enumBlocks, randBlocks, conc int) {
	c18lists()
	enumBlocks = (len(c18enum) + c18Block - 1) / c18Block
	randBlocks = env.Pick(40000, 600000) / c18Block
	conc = env.Pick(200, 3000)
	return
}

func init() {
	core.Register(&core.Prop{
		ID:    "C18",
		Level: "exploration",
		Rule: "call sequences over {Get,GetHandler,Set,SetHandler,Abort,Commit} x keys x handlers {ok,fail,abort-then-ok,abort-then-fail}: all sequences up to length 3 over keys {x,y} (enumerated), random sequences of length 4..8 over {x,y,z}, each on the real mem transaction and on the serial fallback over a plain store, checked against a map model " +
			"(result count, order, ids, Get values, handler errors, no effect after abort, store usable and equal to the model afterwards); plus free-running groups of 2..3 concurrent transactions on the mem store under the race detector (pairs of keys written together must be read together); directed programs: handlers that call their own transaction, handlers that make 0..5 nested calls and then fail (their error is their own operation's error), a Set from a record whose contents cannot be read on a committed key (the old record stays), Commit with a cancelled context. Non-trivial: the sequence contains at least one Set or an abort; distinct by sequence text",
		Assumptions: []string{"Sets made before an Abort persist (neither implementation rolls back; the property does not ask for it)", "Commit of an aborted transaction may return either an error or the per-call results"},
		NumCases:    func(env *core.Env) int { a, b, c := c18layout(env); return a + b + c },
		Batch:       20,
		Race:        true,
		Run:         c18run,
		Describe:    func(env *core.Env, idx int) any { return fmt.Sprint("block ", idx) },
		Floor: func(env *core.Env, agg *core.Agg) string {
			if agg.Counters["sequences"] < 10000 || agg.Counters["aborted_sequences"] < 1000 || agg.Counters["concurrent_groups"] < 20 {
				return fmt.Sprint(agg.Counters)
			}
			return ""
		},
		Extra: func(env *core.Env, agg *core.Agg, cov map[string]any) {
			cov["enumerated_sequences_len_le_3"] = len(c18enum)
		},
	})
}

var errHandler = errors.New("handler-error")

func c18seqs(env *core.Env, idx int) [][]tcall {
	a, _, _ := c18layout(env)
	if idx < a {
		lo, hi := idx*c18Block, (idx+1)*c18Block
		if hi > len(c18enum) {
			hi = len(c18enum)
		}
		return c18enum[lo:hi]
	}
	r := rand.New(rand.NewSource(env.Seed*7919 + int64(idx)))
	syms := c18symbols([]string{"x", "y", "z"})
	var out [][]tcall
	for i := 0; i < c18Block; i++ {
		n := 4 + r.Intn(5)
		var s []tcall
		for j := 0; j < n; j++ {
			c := syms[r.Intn(len(syms))]
			if c.Op == "Commit" && j < n-1 && r.Intn(3) != 0 {
				continue
			}
			s = append(s, c)
		}
		out = append(out, normSeq(s))
	}
	return out
}

type c18impl struct {
	name string
	open func() (keyvalue.Store, func(keyvalue.TransactionOptions) (keyvalue.Transaction, error))
	// failSet: the store refuses every Set of this key (a quota, a read-only prefix); everything else works
	failSet string
}

func c18impls() []c18impl {
	return []c18impl{
		{name: "mem", open: func() (keyvalue.Store, func(keyvalue.TransactionOptions) (keyvalue.Transaction, error)) {
			s := mem.NewStoreVerif()
			return s, s.Transaction
		}},
		{name: "serial", open: func() (keyvalue.Store, func(keyvalue.TransactionOptions) (keyvalue.Transaction, error)) {
			s := kvs.NewPlain()
			return s, func(o keyvalue.TransactionOptions) (keyvalue.Transaction, error) {
				return keyvalue.TransactionOrSerial(s, o)
			}
		}},
		{name: "serial-failing-set", failSet: "y", open: func() (keyvalue.Store, func(keyvalue.TransactionOptions) (keyvalue.Transaction, error)) {
			s := kvs.NewPlain()
			s.Hook = func(ev kvs.Event) error {
				if ev.Op == "Set" && ev.Path == "y" {
					return errStoreFault
				}
				return nil
			}
			return s, func(o keyvalue.TransactionOptions) (keyvalue.Transaction, error) {
				return keyvalue.TransactionOrSerial(s, o)
			}
		}},
	}
}

func recordOf(val string) keyvalue.FileRecord {
	return keyvalue.NewBaseFileRecord(int64(len(val)), time.Unix(1, 0), 0o644, nil,
		func() (blob.Blob, error) { return blob.NewBytes([]byte(val)), nil }, nil)
}

func recordValue(r keyvalue.FileRecord) (string, error) {
	if r == nil {
		return "", errors.New("nil record")
	}
	b, err := r.Data()
	if err != nil {
		return "", err
	}
	return string(b.Bytes()), nil
}

func errClass18(err error) string {
	switch {
	case err == nil:
		return "nil"
	case errors.Is(err, errStoreFault):
		return "store"
	case errors.Is(err, errHandler):
		return "handler"
	case errors.Is(err, context.Canceled):
		return "canceled"
	case errors.Is(err, hackpadfs.ErrNotExist):
		return "notexist"
	}
	return "other"
}

var errStoreFault = errors.New("injected store write failure")

type c18exp struct {
	err string
	val string
	get bool
}

// withWatchdog runs f; if it does not return the goroutine dump is inspected for a parked lock acquisition.
func withWatchdog(f func()) (hung bool, confirmed bool) {
	done := make(chan struct{})
	go func() { defer close(done); f() }()
	select {
	case <-done:
		return false, false
	case <-time.After(10 * time.Second):
	}
	// not back after 10 s. The witness of a hang is a goroutine that is parked on a lock now AND still parked on it five
	// seconds later (on a loaded machine goroutines wait for locks all the time - briefly)
	parked := func() map[string]bool {
		buf := make([]byte, 1<<18)
		d := string(buf[:runtime.Stack(buf, true)])
		ids := map[string]bool{}
		for _, g := range strings.Split(d, "\n\n") {
			if !(strings.Contains(g, "sync.(*Mutex).Lock") || strings.Contains(g, "sync.Mutex.Lock") || strings.Contains(g, "sync.(*RWMutex)") || strings.Contains(g, "semacquire")) {
				continue
			}
			if i := strings.Index(g, " ["); i > 0 {
				ids[g[:i]] = true // "goroutine 123"
			}
		}
		return ids
	}
	first := parked()
	select {
	case <-done:
		return false, false
	case <-time.After(5 * time.Second):
	}
	for id := range parked() {
		if first[id] {
			return true, true
		}
	}
	return true, false
}

func c18exec(seq []tcall, impl c18impl, seqNo int, res *core.CaseResult, verbose bool) {
	viol := func(what, got, want, detail string) {
		res.Violate(fmt.Sprintf("C18|%s|%s|got=%s,want=%s", impl.name, what, got, want), detail+" in sequence ["+seqString(seq)+"] on "+impl.name, map[string]any{"impl": impl.name, "seq": seqString(seq)})
	}
	store, open := impl.open()
	model := map[string]string{}
	// a committed earlier transaction, so that Gets can observe previously committed state
	{
		txn, err := open(keyvalue.TransactionOptions{Mode: keyvalue.TransactionReadWrite})
		if err != nil {
			viol("setup", "error", "ok", err.Error())
			return
		}
		txn.Set("x", recordOf("x0"), blob.NewBytes([]byte("x0")))
		if _, err := txn.Commit(context.Background()); err != nil {
			viol("setup", "error", "ok", err.Error())
			return
		}
		model["x"] = "x0"
	}
	txn, err := open(keyvalue.TransactionOptions{Mode: keyvalue.TransactionReadWrite})
	if err != nil {
		viol("Transaction", "error", "ok", err.Error())
		return
	}
	aborted := false
	var exps []c18exp
	var ids []keyvalue.OpID
	handlerCalls := 0
	wantHandlerCalls := 0
	var results []keyvalue.OpResult
	var commitErr error
	committed := false
	for i, c := range seq {
		val := fmt.Sprintf("v%d.%d", seqNo, i)
		id := len(exps)
		mkHandler := func(kind string, expErr *string) keyvalue.OpHandler {
			return keyvalue.OpHandlerFunc(func(t keyvalue.Transaction, r keyvalue.OpResult) error {
				handlerCalls++
				if int(r.Op) != id {
					viol("handler-opid", fmt.Sprint(r.Op), fmt.Sprint(id), fmt.Sprintf("handler of call %d saw op id %d", id, r.Op))
				}
				if strings.HasPrefix(kind, "abort") {
					_ = t.Abort()
				}
				if strings.HasSuffix(kind, "fail") {
					return errHandler
				}
				return nil
			})
		}
		applyHandler := func(e *c18exp, kind string) {
			wantHandlerCalls++
			if strings.HasSuffix(kind, "fail") && e.err == "nil" {
				e.err = "handler"
			}
			if strings.HasPrefix(kind, "abort") {
				aborted = true
			}
		}
		var panicked string
		switch c.Op {
		case "Get", "GetH":
			e := c18exp{get: true, err: "nil"}
			if aborted {
				e.err = "canceled"
			} else {
				v, ok := model[c.Key]
				e.val = v
				if !ok {
					e.err = "notexist"
				}
				if c.Op == "GetH" {
					applyHandler(&e, c.H)
				}
			}
			panicked = core.Recover(func() {
				if c.Op == "Get" {
					ids = append(ids, txn.Get(c.Key))
				} else {
					ids = append(ids, txn.GetHandler(c.Key, mkHandler(c.H, nil)))
				}
			})
			exps = append(exps, e)
		case "Set", "SetH":
			e := c18exp{err: "nil"}
			if aborted {
				e.err = "canceled"
			} else {
				if impl.failSet != "" && impl.failSet == c.Key {
					e.err = "store" // the store's own error wins over the handler's; nothing is stored
				} else {
					model[c.Key] = val
				}
				if c.Op == "SetH" {
					applyHandler(&e, c.H)
				}
			}
			panicked = core.Recover(func() {
				if c.Op == "Set" {
					ids = append(ids, txn.Set(c.Key, recordOf(val), blob.NewBytes([]byte(val))))
				} else {
					ids = append(ids, txn.SetHandler(c.Key, recordOf(val), blob.NewBytes([]byte(val)), mkHandler(c.H, nil)))
				}
			})
			exps = append(exps, e)
		case "Del":
			e := c18exp{err: "nil"}
			if aborted {
				e.err = "canceled"
			} else {
				delete(model, c.Key) // a delete concerns exactly its key
			}
			panicked = core.Recover(func() { ids = append(ids, txn.Set(c.Key, nil, nil)) })
			exps = append(exps, e)
		case "Abort":
			panicked = core.Recover(func() { _ = txn.Abort() })
			aborted = true
		case "Commit":
			panicked = core.Recover(func() { results, commitErr = txn.Commit(context.Background()) })
			committed = true
		}
		if panicked != "" {
			viol(c.Op, "panic", "returns", fmt.Sprintf("call %d %s panicked: %s", i, c, panicked))
			return
		}
	}
	if !committed {
		if !aborted {
			return // the transaction is still open: the store is legitimately held
		}
		// ended by an Abort alone (explicit, or from inside a handler) and never committed: the store must be free again
		var p string
		var ferr error
		hung, confirmed := withWatchdog(func() {
			p = core.Recover(func() {
				t2, err := open(keyvalue.TransactionOptions{Mode: keyvalue.TransactionReadOnly})
				if err != nil {
					ferr = err
					return
				}
				t2.Get("x")
				_, ferr = t2.Commit(context.Background())
			})
		})
		switch {
		case hung && confirmed:
			viol("store-usable", "hang", "usable", "after a transaction that was ended by Abort alone a fresh transaction could not be opened: goroutine dump shows it parked on the store lock")
		case hung:
			res.Inconclusive = "fresh transaction did not return, no blocked-state witness"
		case p != "" || ferr != nil:
			viol("store-usable", "error", "usable", fmt.Sprintf("after a transaction that was ended by Abort alone a fresh transaction failed: %v %s", ferr, p))
		}
		return
	}
	if verbose {
		fmt.Printf("  [%s] %s -> %d results, commitErr=%v\n", impl.name, seqString(seq), len(results), commitErr)
	}
	for i, id := range ids {
		if int(id) != i {
			viol("opid", fmt.Sprint(id), fmt.Sprint(i), fmt.Sprintf("call %d was given operation id %d", i, id))
			break
		}
	}
	if handlerCalls != wantHandlerCalls {
		viol("handler-calls", fmt.Sprint(handlerCalls), fmt.Sprint(wantHandlerCalls), "handlers invoked a different number of times than calls made before the abort")
	}
	switch {
	case commitErr != nil && !aborted:
		viol("Commit", "error", "ok", "Commit of a live transaction failed: "+commitErr.Error())
	case commitErr == nil:
		if len(results) != len(exps) {
			viol("result-count", fmt.Sprint(len(results)), fmt.Sprint(len(exps)), fmt.Sprintf("Commit returned %d results for %d calls", len(results), len(exps)))
			break
		}
		for i, r := range results {
			e := exps[i]
			if int(r.Op) != i {
				viol("result-opid", fmt.Sprint(r.Op), fmt.Sprint(i), fmt.Sprintf("result %d carries operation id %d", i, r.Op))
				break
			}
			if got := errClass18(r.Err); got != e.err {
				viol("result-err", got, e.err, fmt.Sprintf("result %d has error %v, model expects %s", i, r.Err, e.err))
				break
			}
			if e.get && (e.err == "nil" || e.err == "handler") {
				v, err := recordValue(r.Record)
				if err != nil || v != e.val {
					viol("get-value", "other", "model", fmt.Sprintf("result %d: Get returned %q (%v), model holds %q", i, v, err, e.val))
					break
				}
			}
		}
	}
	// a finished transaction is finished: a call that arrives after its Commit does not reach the store (it would do so
	// outside any transaction, in the middle of whichever transaction holds the store at that moment)
	if p := core.Recover(func() {
		txn.Set("z", recordOf("late"), blob.NewBytes([]byte("late")))
		txn.Set("x", nil, nil)
		// (no second Commit: it would release a store the first one forgot to release)
	}); p == "" {
		res.Count("late_calls_after_commit", 1)
	}
	// the store must remain usable and hold what the model holds
	var finalRes []keyvalue.OpResult
	var finalErr error
	keys := []string{"x", "y", "z", "x/c"}
	var p string
	hung, confirmed := withWatchdog(func() {
		p = core.Recover(func() {
			t2, err := open(keyvalue.TransactionOptions{Mode: keyvalue.TransactionReadOnly})
			if err != nil {
				finalErr = err
				return
			}
			for _, k := range keys {
				t2.Get(k)
			}
			finalRes, finalErr = t2.Commit(context.Background())
		})
	})
	_ = store
	switch {
	case hung && confirmed:
		viol("store-usable", "hang", "usable", "a fresh transaction could not be opened after the sequence: goroutine dump shows it parked on the store lock")
		return
	case hung:
		res.Inconclusive = "fresh transaction did not return, no blocked-state witness"
		return
	case p != "":
		viol("store-usable", "panic", "usable", "fresh transaction panicked: "+p)
		return
	case finalErr != nil || len(finalRes) != len(keys):
		viol("store-usable", "error", "usable", fmt.Sprintf("fresh transaction failed: %v (%d results)", finalErr, len(finalRes)))
		return
	}
	for i, k := range keys {
		want, ok := model[k]
		got, err := "", finalRes[i].Err
		if err == nil {
			got, err = recordValue(finalRes[i].Record)
		}
		switch {
		case !ok && errClass18(err) != "notexist":
			viol("final-state", "present", "absent", fmt.Sprintf("key %s should be absent, got %q %v", k, got, err))
		case ok && (err != nil || got != want):
			viol("final-state", "other", "model", fmt.Sprintf("key %s holds %q (%v), model holds %q", k, got, err, want))
		}
	}
}

// c18directed: (a) handlers that make further calls on their own transaction: whatever order the results come in, there
// is exactly one per call and every call's operation id appears exactly once; what the nested Set wrote is in the store.
// (b) Commit with a context that is already cancelled: whatever Commit answers, the store is released (a fresh
// transaction opens, also after an additional Abort) and holds what was set.
func c18directed(impl c18impl, res *core.CaseResult) {
	viol := func(what, got, want, detail string) {
		res.Violate(fmt.Sprintf("C18|%s|%s|got=%s,want=%s", impl.name, what, got, want), detail+" on "+impl.name, map[string]any{"impl": impl.name, "part": "directed"})
	}
	fresh := func(open func(keyvalue.TransactionOptions) (keyvalue.Transaction, error), what string, keys ...string) []keyvalue.OpResult {
		var out []keyvalue.OpResult
		var ferr error
		var p string
		hung, confirmed := withWatchdog(func() {
			p = core.Recover(func() {
				t2, err := open(keyvalue.TransactionOptions{Mode: keyvalue.TransactionReadOnly})
				if err != nil {
					ferr = err
					return
				}
				for _, k := range keys {
					t2.Get(k)
				}
				out, ferr = t2.Commit(context.Background())
			})
		})
		switch {
		case hung && confirmed:
			viol(what+"|store-usable", "hang", "usable", "a fresh transaction could not be opened afterwards: goroutine dump shows it parked on the store lock")
			return nil
		case hung:
			res.Inconclusive = "fresh transaction did not return, no blocked-state witness"
			return nil
		case p != "" || ferr != nil || len(out) != len(keys):
			viol(what+"|store-usable", "error", "usable", fmt.Sprintf("a fresh transaction failed afterwards: %v %s (%d results)", ferr, p, len(out)))
			return nil
		}
		return out
	}
	// (a) nested calls
	for variant := 0; variant < 3; variant++ {
		_, open := impl.open()
		txn, err := open(keyvalue.TransactionOptions{Mode: keyvalue.TransactionReadWrite})
		if err != nil {
			viol("nested|Transaction", "error", "ok", err.Error())
			return
		}
		var ids []keyvalue.OpID
		nest := keyvalue.OpHandlerFunc(func(t keyvalue.Transaction, r keyvalue.OpResult) error {
			ids = append(ids, t.Get("x"))
			ids = append(ids, t.Set("z", recordOf("nested"), blob.NewBytes([]byte("nested"))))
			if variant == 2 {
				ids = append(ids, t.GetHandler("z", keyvalue.OpHandlerFunc(func(t2 keyvalue.Transaction, _ keyvalue.OpResult) error {
					ids = append(ids, t2.Get("z"))
					return nil
				})))
			}
			return nil
		})
		var results []keyvalue.OpResult
		var cerr error
		p := core.Recover(func() {
			ids = append(ids, txn.Set("x", recordOf("outer"), blob.NewBytes([]byte("outer"))))
			if variant == 1 {
				ids = append(ids, txn.SetHandler("x", recordOf("outer2"), blob.NewBytes([]byte("outer2")), nest))
			} else {
				ids = append(ids, txn.GetHandler("x", nest))
			}
			ids = append(ids, txn.Get("z"))
			results, cerr = txn.Commit(context.Background())
		})
		res.Count("nested_handler_programs", 1)
		if p != "" {
			viol("nested", "panic", "returns", "a handler that calls its own transaction panicked: "+p)
			continue
		}
		if cerr != nil {
			viol("nested|Commit", "error", "ok", "Commit failed: "+cerr.Error())
			continue
		}
		seenCall := map[keyvalue.OpID]int{}
		for _, id := range ids {
			seenCall[id]++
		}
		if len(seenCall) != len(ids) {
			viol("nested|opid", "duplicate", "unique", fmt.Sprintf("%d calls (some from inside a handler) were given the operation ids %v", len(ids), ids))
			continue
		}
		if len(results) != len(ids) {
			viol("nested|result-count", fmt.Sprint(len(results)), fmt.Sprint(len(ids)), fmt.Sprintf("Commit returned %d results for %d calls (ids %v)", len(results), len(ids), ids))
			continue
		}
		seenRes := map[keyvalue.OpID]int{}
		for _, r := range results {
			seenRes[r.Op]++
		}
		for _, id := range ids {
			if seenRes[id] != 1 {
				viol("nested|result-opid", "missing-or-duplicate", "one-per-call", fmt.Sprintf("call ids %v, but the results carry %v", ids, seenRes))
				break
			}
		}
		if out := fresh(open, "nested", "z"); out != nil {
			if v, err := recordValue(out[0].Record); out[0].Err != nil || err != nil || v != "nested" {
				viol("nested|final-state", "other", "model", fmt.Sprintf("the Set made from inside a handler is not in the store: z = %q (%v %v)", v, out[0].Err, err))
			}
		}
	}
	// (c) a handler that makes k further calls on its transaction and THEN fails: the failure is the error of the handler's own
	// operation, wherever that operation stands in the transaction and however many results the nested calls added
	for pos := 0; pos < 4; pos++ {
		for nested := 0; nested <= 5; nested++ {
			for _, set := range []bool{false, true} {
				_, open := impl.open()
				txn, err := open(keyvalue.TransactionOptions{Mode: keyvalue.TransactionReadWrite})
				if err != nil {
					viol("nested-then-error|Transaction", "error", "ok", err.Error())
					return
				}
				failing := keyvalue.OpHandlerFunc(func(t keyvalue.Transaction, r keyvalue.OpResult) error {
					for i := 0; i < nested; i++ {
						t.Get("x")
					}
					return errHandler
				})
				var outer keyvalue.OpID
				var results []keyvalue.OpResult
				var cerr error
				p := core.Recover(func() {
					for i := 0; i < pos; i++ {
						txn.Get("x")
					}
					if set {
						outer = txn.SetHandler("w", recordOf("w"), blob.NewBytes([]byte("w")), failing)
					} else {
						outer = txn.GetHandler("x", failing)
					}
					results, cerr = txn.Commit(context.Background())
				})
				res.Count("nested_then_error_programs", 1)
				what := fmt.Sprintf("a handler (call #%d of its transaction, SetHandler=%v) made %d Get calls on the transaction and then returned an error", pos+1, set, nested)
				if p != "" {
					viol("nested-then-error", "panic", "returns", what+": panic "+p)
					continue
				}
				reported := cerr != nil
				for _, r := range results {
					if r.Op == outer && r.Err != nil {
						reported = true
					}
				}
				if !reported {
					viol("nested-then-error|handler-error", "lost", "that-operation's-error", what+": Commit returned no error and the operation's result carries none")
				}
				_ = fresh(open, "nested-then-error", "x")
			}
		}
	}
	// (d) a Set whose source record cannot deliver its contents, on a key that holds a committed record: whether the call's
	// result or Commit reports it, a Set that failed has set nothing - later Gets (same and next transaction) see the old record
	for variant := 0; variant < 2; variant++ {
		_, open := impl.open()
		t1, err := open(keyvalue.TransactionOptions{Mode: keyvalue.TransactionReadWrite})
		if err != nil {
			viol("unreadable-source|Transaction", "error", "ok", err.Error())
			return
		}
		t1.Set("x", recordOf("old"), blob.NewBytes([]byte("old")))
		if _, err := t1.Commit(context.Background()); err != nil {
			viol("unreadable-source|Commit", "error", "ok", err.Error())
			continue
		}
		unreadable := keyvalue.NewBaseFileRecord(3, time.Unix(1, 0), 0o644, nil, func() (blob.Blob, error) { return nil, errStoreFault }, nil)
		var results []keyvalue.OpResult
		var cerr error
		var setID, getID keyvalue.OpID
		p := core.Recover(func() {
			t2, err := open(keyvalue.TransactionOptions{Mode: keyvalue.TransactionReadWrite})
			if err != nil {
				cerr = err
				return
			}
			if variant == 0 {
				setID = t2.Set("x", unreadable, nil)
			} else {
				setID = t2.SetHandler("x", unreadable, nil, keyvalue.OpHandlerFunc(func(keyvalue.Transaction, keyvalue.OpResult) error { return nil }))
			}
			getID = t2.Get("x")
			results, cerr = t2.Commit(context.Background())
		})
		res.Count("sets_from_unreadable_records", 1)
		if p != "" {
			viol("unreadable-source", "panic", "returns", "Set from a record whose Data() fails panicked: "+p)
			continue
		}
		failed := cerr != nil
		for _, r := range results {
			if r.Op == setID && r.Err != nil {
				failed = true
			}
		}
		if !failed {
			continue // (a store that does not need the contents at Set time: nothing to say here)
		}
		for _, r := range results {
			if r.Op == getID && cerr == nil {
				if v, err := recordValue(r.Record); r.Err != nil || err != nil || v != "old" {
					viol("unreadable-source|get-in-same-transaction", "other", "the-committed-record", fmt.Sprintf("x held \"old\"; a Set of x from a record whose Data() fails was reported as failed, and the Get of x that followed it in the transaction answers %q (%v %v)", v, r.Err, err))
				}
			}
		}
		if out := fresh(open, "unreadable-source", "x"); out != nil {
			if v, err := recordValue(out[0].Record); out[0].Err != nil || err != nil || v != "old" {
				viol("unreadable-source|final-state", "other", "the-committed-record", fmt.Sprintf("x held \"old\"; a Set of x from a record whose Data() fails was reported as failed, and afterwards x = %q (%v %v)", v, out[0].Err, err))
			}
		}
	}
	// (b) Commit with a cancelled context, then (second variant) an Abort on top
	for variant := 0; variant < 2; variant++ {
		_, open := impl.open()
		txn, err := open(keyvalue.TransactionOptions{Mode: keyvalue.TransactionReadWrite})
		if err != nil {
			viol("cancelled-commit|Transaction", "error", "ok", err.Error())
			return
		}
		ctx, cancel := context.WithCancel(context.Background())
		cancel()
		var cerr error
		p := core.Recover(func() {
			txn.Set("x", recordOf("kept"), blob.NewBytes([]byte("kept")))
			_, cerr = txn.Commit(ctx)
			if variant == 1 {
				_ = txn.Abort()
			}
		})
		res.Count("cancelled_context_commits", 1)
		if p != "" {
			viol("cancelled-commit", "panic", "returns", "Commit with a cancelled context panicked: "+p)
			continue
		}
		if out := fresh(open, "cancelled-commit", "x"); out != nil && cerr == nil {
			if v, err := recordValue(out[0].Record); out[0].Err != nil || err != nil || v != "kept" {
				viol("cancelled-commit|final-state", "other", "model", fmt.Sprintf("Commit reported success, but x = %q (%v %v)", v, out[0].Err, err))
			}
		}
	}
}

func c18run(env *core.Env, idx int) core.CaseResult {
	var res core.CaseResult
	a, b, _ := c18layout(env)
	if idx >= a+b {
		return c18concurrent(env, idx-a-b)
	}
	if idx == 0 {
		for _, impl := range c18impls() {
			c18directed(impl, &res)
		}
	}
	seqs := c18seqs(env, idx)
	res.Evals = 2 * len(seqs)
	for i, s := range seqs {
		nt, ab := false, false
		for _, c := range s {
			if c.Op == "Set" || c.Op == "SetH" {
				nt = true
			}
			if c.Op == "Abort" || strings.HasPrefix(c.H, "abort") {
				nt, ab = true, true
			}
		}
		if nt {
			res.NTKeys = append(res.NTKeys, core.Hash(seqString(s)))
		}
		if ab {
			res.Count("aborted_sequences", 1)
		}
		for _, impl := range c18impls() {
			c18exec(s, impl, idx*c18Block+i, &res, env.Verbose)
			if ab && len(s) > 1 && s[len(s)-1].Op == "Commit" {
				// the same sequence without the final Commit: a transaction ended by Abort alone must free the store too
				c18exec(s[:len(s)-1], impl, idx*c18Block+i, &res, env.Verbose)
				res.Count("abort_only_sequences", 1)
			}
		}
		for _, v := range res.Violations {
			if strings.Contains(v.Sig, "got=hang") {
				return res // every further sequence of this block would wait for the watchdog again
			}
		}
	}
	res.Count("sequences", len(seqs))
	if idx%5 == 0 {
		res.Sample = seqString(seqs[len(seqs)/2])
	}
	return res
}

// c18concurrent: 2..3 concurrent transactions on the real mem store; each writer sets a pair of keys to one
// unique value inside one transaction, readers read both keys inside one transaction and must see equal values.
// Some participants end their transaction by Abort or by an aborting handler followed by Commit.
// busyFront is a TransactionStore that refuses a transaction while another one is open (a store that answers "busy"
// instead of queueing); it is used through keyvalue.TransactionOrSerial, as the FS layer uses every store.
type busyFront struct {
	keyvalue.TransactionStore
	mu sync.Mutex
}

var errBusy = errors.New("store busy: another transaction is open")

func (b *busyFront) Transaction(o keyvalue.TransactionOptions) (keyvalue.Transaction, error) {
	if !b.mu.TryLock() {
		return nil, errBusy
	}
	t, err := b.TransactionStore.Transaction(o)
	if err != nil {
		b.mu.Unlock()
		return nil, err
	}
	return &busyTxn{Transaction: t, front: b}, nil
}

type busyTxn struct {
	keyvalue.Transaction
	front *busyFront
	once  sync.Once
}

func (t *busyTxn) Commit(ctx context.Context) ([]keyvalue.OpResult, error) {
	rs, err := t.Transaction.Commit(ctx)
	t.once.Do(t.front.mu.Unlock)
	return rs, err
}

func c18concurrent(env *core.Env, n int) core.CaseResult {
	var res core.CaseResult
	r := rand.New(rand.NewSource(env.Seed*104729 + int64(n)))
	var store keyvalue.TransactionStore = mem.NewStoreVerif()
	openTxn := store.Transaction
	if n%3 == 2 {
		front := &busyFront{TransactionStore: store}
		openTxn = func(o keyvalue.TransactionOptions) (keyvalue.Transaction, error) {
			return keyvalue.TransactionOrSerial(front, o)
		}
		res.Count("concurrent_groups_through_a_busy_front", 1)
	}
	workers := 2 + r.Intn(2)
	rounds := 30 + r.Intn(40)
	type plan struct {
		kind []int
		pair []int
	}
	plans := make([]plan, workers)
	for w := range plans {
		for i := 0; i < rounds; i++ {
			plans[w].kind = append(plans[w].kind, r.Intn(5))
			plans[w].pair = append(plans[w].pair, r.Intn(2))
		}
	}
	// initialise pairs
	{
		t, _ := store.Transaction(keyvalue.TransactionOptions{Mode: keyvalue.TransactionReadWrite})
		for p := 0; p < 2; p++ {
			t.Set(fmt.Sprintf("p%da", p), recordOf("init"), blob.NewBytes([]byte("init")))
			t.Set(fmt.Sprintf("p%db", p), recordOf("init"), blob.NewBytes([]byte("init")))
		}
		_, _ = t.Commit(context.Background())
	}
	var mu sync.Mutex
	torn, reads, writes, aborts := 0, 0, 0, 0
	var tornDetail string
	var panics []string
	hung, confirmed := withWatchdog(func() {
		var wg sync.WaitGroup
		for w := 0; w < workers; w++ {
			wg.Add(1)
			go func(w int) {
				defer wg.Done()
				p := core.Recover(func() {
					for i := 0; i < rounds; i++ {
						ka, kb := fmt.Sprintf("p%da", plans[w].pair[i]), fmt.Sprintf("p%db", plans[w].pair[i])
						val := fmt.Sprintf("w%d.%d", w, i)
						mode := keyvalue.TransactionReadWrite
						if plans[w].kind[i] == 0 {
							mode = keyvalue.TransactionReadOnly // what the FS layer's own look-ups use
						}
						t, err := openTxn(keyvalue.TransactionOptions{Mode: mode})
						if err != nil {
							continue // (the busy front refused: nothing was read or written)
						}
						switch plans[w].kind[i] {
						case 0, 1: // reader
							t.Get(ka)
							runtime.Gosched()
							t.Get(kb)
							rs, err := t.Commit(context.Background())
							if err == nil && len(rs) == 2 && rs[0].Err == nil && rs[1].Err == nil {
								a, _ := recordValue(rs[0].Record)
								b, _ := recordValue(rs[1].Record)
								mu.Lock()
								reads++
								if a != b {
									torn++
									tornDetail = fmt.Sprintf("read %s=%q %s=%q inside one transaction", ka, a, kb, b)
								}
								mu.Unlock()
							}
						case 2: // writer
							t.Set(ka, recordOf(val), blob.NewBytes([]byte(val)))
							for y := 0; y < 1+i%4; y++ {
								runtime.Gosched() // widen the window between the two Sets
							}
							t.Set(kb, recordOf(val), blob.NewBytes([]byte(val)))
							_, _ = t.Commit(context.Background())
							mu.Lock()
							writes++
							mu.Unlock()
						case 3: // a handler aborts before anything was written, the caller still issues its Sets and commits (the library's own pattern)
							t.GetHandler(ka, keyvalue.OpHandlerFunc(func(tx keyvalue.Transaction, r keyvalue.OpResult) error {
								return tx.Abort()
							}))
							runtime.Gosched()
							t.Set(ka, recordOf(val), blob.NewBytes([]byte(val)))
							t.Set(kb, recordOf(val+"!"), blob.NewBytes([]byte(val+"!")))
							_, _ = t.Commit(context.Background())
							mu.Lock()
							aborts++
							mu.Unlock()
						case 4: // plain Abort before anything was written
							t.Get(ka)
							_ = t.Abort()
							_, _ = t.Commit(context.Background()) // (ends the transaction for the busy front as well)
							mu.Lock()
							aborts++
							mu.Unlock()
						}
					}
				})
				if p != "" {
					mu.Lock()
					panics = append(panics, p)
					mu.Unlock()
				}
			}(w)
		}
		wg.Wait()
	})
	wit := map[string]any{"workers": workers, "rounds": rounds, "n": n}
	switch {
	case hung && confirmed:
		res.Violate("C18|mem|concurrent|got=hang,want=progress", "concurrent transactions stopped making progress; goroutine dump shows them parked on the store lock", wit)
	case hung:
		res.Inconclusive = "concurrent group did not finish, no blocked-state witness"
	}
	if len(panics) > 0 {
		res.Violate("C18|mem|concurrent|got=panic,want=returns", "panic in a concurrent transaction: "+panics[0], wit)
	}
	if torn > 0 {
		res.Violate("C18|mem|concurrent|got=partial,want=isolated", fmt.Sprintf("%d transactions observed another transaction's partial effects: %s", torn, tornDetail), wit)
	}
	res.Nontrivial = reads > 0 && writes > 0
	res.Key = fmt.Sprint("conc", n)
	res.Count("concurrent_groups", 1)
	res.Count("concurrent_reads", reads)
	res.Count("concurrent_writes", writes)
	res.Count("concurrent_aborted_txns", aborts)
	if n%20 == 0 {
		res.Sample = map[string]any{"concurrent_group": wit, "reads": reads, "writes": writes, "aborts": aborts}
	}
	return res
}
