package props

import (
	"bytes"
	"context"
	"fmt"
	"os"
	"path/filepath"
	"strings"
	"sync"
	"time"

	"hpverif/internal/capfs"
	"hpverif/internal/core"
	"hpverif/internal/fsx"

	"github.com/hack-pad/hackpadfs"
	"github.com/hack-pad/hackpadfs/cache"
	"github.com/hack-pad/hackpadfs/mem"
	"github.com/hack-pad/hackpadfs/mount"
	hpos "github.com/hack-pad/hackpadfs/os"
	hptar "github.com/hack-pad/hackpadfs/tar"
)

// C05: failures are typed, sentinel-matchable and name the caller's path.

// A stack presents the logical test namespace under prefix P of a top-level FS; the reference is a
// flattened mirror in one os directory, addressed with the same top-level names.
type c05stack struct {
	name     string
	prefix   string
	readOnly bool // setup must be applied before the FS is built (cache, tar)
}

var c05stacks = []c05stack{
	{"mem", "", false}, {"mem-deep", "d", false},
	{"mount0", "", false}, {"mount-cross", "", false}, {"mount-cross(no-rename)", "", false}, {"mount1", "m", false}, {"mount1-deep", "m/d", false}, {"mount2", "m/n", false}, {"mount-nested", "m/n", false}, {"mount-nested-inner", "m", false},
	{"sub-dot(mem)", "", false}, {"sub-dot(mount1)", "m", false}, {"mount-lookalike", "ab/a", false}, {"sub(mem)", "", false}, {"sub(mem)-deep", "d", false}, {"sub(mount1)", "", false}, {"sub(mount-above)", "m", false}, {"sub(sub(mem))", "", false},
	{"os1", "", false}, {"os1-deep", "d", false}, {"os2", "", false}, {"os3", "", false},
	{"cache", "", true}, {"cache-deep", "d", true}, {"tar", "", true}, {"tar-deep", "d", true}, {"tar-failed", "", true}, {"tar-failed-deep", "d", true},
}

// stacks whose top directory is itself a mount point of the top-level mount.FS
var c05topIsMountPoint = map[string]bool{"mount1": true, "mount2": true, "mount-nested": true, "mount-nested-inner": true, "sub-dot(mount1)": true, "sub(mount-above)": true}

type c05built struct {
	fs      hackpadfs.FS
	setupFS hackpadfs.FS // where setup steps are applied for read-only stacks
	cleanup func()
	finish  func() error // builds the read-only FS after setup
}

func c05build(env *core.Env, st c05stack) (*c05built, error) {
	b := &c05built{cleanup: func() {}}
	mk := func() *mem.FS { m, _ := mem.NewFS(); return m }
	switch st.name {
	case "mem", "mem-deep":
		b.fs = mk()
	case "mount0", "mount1", "mount1-deep", "mount2", "mount-cross", "mount-cross(no-rename)":
		root := mk()
		mf, _ := mount.NewFS(root)
		_ = hackpadfs.Mkdir(root, "zz", 0o755)
		_ = mf.AddMount("zz", mk())
		if st.name != "mount0" {
			_ = hackpadfs.Mkdir(root, "m", 0o755)
			m1 := mk()
			var mounted hackpadfs.FS = m1
			if st.name == "mount-cross(no-rename)" {
				// the file system mounted at m offers everything mem has, except Rename (moves into it are always copies)
				masked, _, err := capfs.New(m1, capfs.Native(m1)&^capfs.FSBit("Rename"), capfs.AllFile)
				if err != nil {
					return nil, err
				}
				mounted = masked
			}
			if err := mf.AddMount("m", mounted); err != nil {
				return nil, err
			}
			if st.name == "mount2" {
				_ = hackpadfs.Mkdir(m1, "n", 0o755)
				if err := mf.AddMount("m/n", mk()); err != nil {
					return nil, err
				}
			}
		}
		b.fs = mf
	case "mount-nested", "mount-nested-inner":
		// a mount.FS mounted inside a mount.FS: m -> inner mount FS, inside it n -> mem
		root := mk()
		mf, _ := mount.NewFS(root)
		_ = hackpadfs.Mkdir(root, "m", 0o755)
		innerRoot := mk()
		_ = hackpadfs.Mkdir(innerRoot, "n", 0o755)
		inner, _ := mount.NewFS(innerRoot)
		if err := inner.AddMount("n", mk()); err != nil {
			return nil, err
		}
		if err := mf.AddMount("m", inner); err != nil {
			return nil, err
		}
		b.fs = mf
	case "sub-dot(mem)":
		v, err := hackpadfs.Sub(mk(), ".")
		if err != nil {
			return nil, err
		}
		b.fs = v
	case "sub-dot(mount1)":
		root := mk()
		mf, _ := mount.NewFS(root)
		_ = hackpadfs.Mkdir(root, "m", 0o755)
		if err := mf.AddMount("m", mk()); err != nil {
			return nil, err
		}
		v, err := hackpadfs.Sub(mf, ".")
		if err != nil {
			return nil, err
		}
		b.fs = v
	case "mount-lookalike":
		// a two-element mount point whose elements also occur as names below it (ab/a/a, ab/a/ab ...)
		root := mk()
		mf, _ := mount.NewFS(root)
		_ = hackpadfs.MkdirAll(root, "ab/a", 0o755)
		if err := mf.AddMount("ab/a", mk()); err != nil {
			return nil, err
		}
		b.fs = mf
	case "sub(mem)", "sub(mem)-deep":
		p := mk()
		_ = hackpadfs.MkdirAll(p, "top", 0o755)
		v, err := hackpadfs.Sub(p, "top")
		if err != nil {
			return nil, err
		}
		b.fs = v
	case "sub(sub(mem))":
		p := mk()
		_ = hackpadfs.MkdirAll(p, "top/in", 0o755)
		v, err := hackpadfs.Sub(p, "top")
		if err == nil {
			v, err = hackpadfs.Sub(v, "in")
		}
		if err != nil {
			return nil, err
		}
		b.fs = v
	case "sub(mount1)", "sub(mount-above)":
		root := mk()
		mf, _ := mount.NewFS(root)
		dir := "m"
		if st.name == "sub(mount-above)" {
			_ = hackpadfs.MkdirAll(root, "base/m", 0o755)
			if err := mf.AddMount("base/m", mk()); err != nil {
				return nil, err
			}
			dir = "base"
		} else {
			_ = hackpadfs.Mkdir(root, "m", 0o755)
			if err := mf.AddMount("m", mk()); err != nil {
				return nil, err
			}
		}
		v, err := hackpadfs.Sub(mf, dir)
		if err != nil {
			return nil, err
		}
		b.fs = v
	case "os1", "os1-deep", "os2", "os3":
		d, err := os.MkdirTemp(env.Scratch, "c05os-")
		if err != nil {
			return nil, err
		}
		b.cleanup = func() { _ = os.RemoveAll(d) }
		_ = os.Chmod(d, 0o777)
		_ = os.MkdirAll(filepath.Join(d, "s1", "s2"), 0o777)
		var v hackpadfs.FS
		v, err = hpos.NewFS().Sub(d[1:])
		if st.name == "os2" || st.name == "os3" {
			if err == nil {
				v, err = hackpadfs.Sub(v, "s1")
			}
		}
		if st.name == "os3" && err == nil {
			v, err = hackpadfs.Sub(v, "s2")
		}
		if err != nil {
			return nil, err
		}
		b.fs = v
	case "cache", "cache-deep":
		src := mk()
		b.setupFS = src
		b.finish = func() error {
			c, err := cache.NewReadOnlyFS(src, mk(), cache.ReadOnlyOptions{})
			b.fs = c
			return err
		}
	case "tar", "tar-deep", "tar-failed", "tar-failed-deep":
		src := mk()
		b.setupFS = src
		b.finish = func() error {
			var items []treeItem
			snap, _ := fsx.Snapshot(src, nil)
			var paths []string
			for p := range snap {
				if p != "." {
					paths = append(paths, p)
				}
			}
			sortStrings(paths)
			for _, p := range paths {
				e := snap[p]
				items = append(items, treeItem{Path: p, Dir: e.Kind == "d", Perm: e.Mode & 0o777, Data: e.Data})
			}
			if strings.HasPrefix(st.name, "tar-failed") {
				// the archive ends with an entry BELOW a regular file (or below a file added for the purpose): unpacking
				// fails there with a path error, and every later call goes through the FS's after-failure paths
				// (the blocking file is larger than the 150 KiB small buffer: it is written in the foreground, so it exists for
				// certain when the entry below it arrives - small files are written by background goroutines)
				blocker := c05prefix(st.prefix, "zz-file")
				items = append(items, treeItem{Path: blocker, Perm: 0o644, Data: strings.Repeat("z", 200<<10)})
				items = append(items, treeItem{Path: blocker + "/below", Perm: 0o644, Data: "never"})
			}
			t, err := hptar.NewReaderFS(context.Background(), bytes.NewReader(buildTarVerbatim(items)), hptar.ReaderFSOptions{})
			if err != nil {
				return err
			}
			select {
			case <-t.Done():
			case <-time.After(60 * time.Second):
				return fmt.Errorf("tar did not finish")
			}
			b.fs = t
			if strings.HasPrefix(st.name, "tar-failed") {
				if t.UnarchiveErr() == nil {
					return fmt.Errorf("the archive with an entry below a regular file unpacked without error")
				}
				return nil
			}
			return t.UnarchiveErr()
		}
	default:
		return nil, fmt.Errorf("unknown stack %s", st.name)
	}
	return b, nil
}

func sortStrings(s []string) {
	for i := 1; i < len(s); i++ {
		for j := i; j > 0 && s[j] < s[j-1]; j-- {
			s[j], s[j-1] = s[j-1], s[j]
		}
	}
}

func c05prefix(prefix, p string) string {
	if p == "" || prefix == "" {
		return p
	}
	if p == "." {
		return prefix
	}
	return prefix + "/" + p
}

func c05prefixStep(stack c05stack, st fsx.Step) fsx.Step {
	if strings.HasPrefix(stack.name, "mount-cross") {
		// names whose first element is "b" live in the file system mounted at "m"; everything else in the root file
		// system: the matrix's renames from a... to b... cross the mount boundary
		cross := func(p string) string {
			if p == "b" || strings.HasPrefix(p, "b/") {
				return "m/" + p
			}
			return p
		}
		st.P = cross(st.P)
		if st.P2 != "" {
			st.P2 = cross(st.P2)
		}
		return st
	}
	prefix := stack.prefix
	st.P = c05prefix(prefix, st.P)
	if st.P2 != "" {
		st.P2 = c05prefix(prefix, st.P2)
	}
	return st
}

var c05readOps = map[string]bool{"Stat": true, "Lstat": true, "LstatOrStat": true, "ReadDir": true, "ReadFile": true, "OpenClose": true}

type c05case struct {
	Stack int
	Case  int // index into c01matrix, or -1 for extra directed cases
}

var c05sentinels = map[string]bool{"ErrNotExist": true, "ErrExist": true, "ErrIsDir": true, "ErrNotDir": true, "ErrNotEmpty": true, "ErrInvalid": true, "ErrClosed": true}

// c05extra: failing calls the C01 matrix leaves out because their success would remove or rename the root -
// here only their failure is of interest (the top of the logical namespace as a Rename/Symlink destination or source).
var c05extraOnce sync.Once
var c05extra []c01case

func c05extraBuild() {
	c05extraOnce.Do(func() {
		file, _ := fsx.SituationSetup("file", "a")
		dir, _ := fsx.SituationSetup("dir", "a")
		add := func(name string, setup []fsx.Step, op fsx.Step) {
			c05extra = append(c05extra, c01case{Name: name, Hist: append(append([]fsx.Step(nil), setup...), op), NSetup: len(setup)})
		}
		add("Rename/file->root", file, fsx.Step{K: "Rename", P: "a", P2: "."})
		add("Rename/dir->root", dir, fsx.Step{K: "Rename", P: "a", P2: "."})
		add("Rename/missing->root", nil, fsx.Step{K: "Rename", P: "c", P2: "."})
		add("Rename/root->child", dir, fsx.Step{K: "Rename", P: ".", P2: "a/c"})
		add("Rename/root->root", nil, fsx.Step{K: "Rename", P: ".", P2: "."})
		// a directory moved into its own subtree: EINVAL from the kernel itself on os-backed stacks
		add("Rename/dir->own-subtree", dir, fsx.Step{K: "Rename", P: "a", P2: "a/c"})
		add("Rename/dir->own-subtree-deeper", append(append([]fsx.Step(nil), dir...), fsx.Step{K: "Mkdir", P: "a/b", Perm: 0o755}), fsx.Step{K: "Rename", P: "a", P2: "a/b/c"})
		// a directory moved into a SIBLING whose name merely begins with its own name (a, ab): not its own subtree - the
		// destination decides (an existing file: ENOTDIR; below a file: ENOTDIR; a non-empty directory: ENOTEMPTY)
		look := append(append([]fsx.Step(nil), dir...), fsx.Step{K: "Mkdir", P: "ab", Perm: 0o755}, fsx.Step{K: "WriteFullFile", P: "ab/f", Data: "x", Perm: 0o644}, fsx.Step{K: "Mkdir", P: "ab/d", Perm: 0o755}, fsx.Step{K: "WriteFullFile", P: "ab/d/in", Data: "x", Perm: 0o644})
		add("Rename/dir->file-in-lookalike-sibling", look, fsx.Step{K: "Rename", P: "a", P2: "ab/f"})
		add("Rename/dir->below-file-in-lookalike-sibling", look, fsx.Step{K: "Rename", P: "a", P2: "ab/f/x"})
		add("Rename/dir->nonempty-dir-in-lookalike-sibling", look, fsx.Step{K: "Rename", P: "a", P2: "ab/d"})
		add("Rename/dir->missing-parent-in-lookalike-sibling", look, fsx.Step{K: "Rename", P: "a", P2: "ab/nope/x"})
		add("Rename/file-in-lookalike-sibling->dir", look, fsx.Step{K: "Rename", P: "ab/f", P2: "a"})
		add("Symlink/file->root", file, fsx.Step{K: "Symlink", P: "a", P2: "."})
		add("Mkdir/root", nil, fsx.Step{K: "Mkdir", P: ".", Perm: 0o755})
		// Remove of the top itself: os.Remove(".") is EINVAL whatever the directory holds (the reference, which removes by
		// path, cannot show that: the expectation is set by hand in c05run for stacks without a prefix)
		add("Remove/top-nonempty", dir, fsx.Step{K: "Remove", P: "."})
		add("Remove/top-empty", nil, fsx.Step{K: "Remove", P: "."})
		add("OpenClose/root-create-excl", nil, fsx.Step{K: "OpenClose", P: ".", Flag: os.O_RDWR | os.O_CREATE | os.O_EXCL, Perm: 0o644})
		add("WriteFullFile/root", nil, fsx.Step{K: "WriteFullFile", P: ".", Data: "x", Perm: 0o644})
		add("ReadFile/root", nil, fsx.Step{K: "ReadFile", P: "."})
	})
}

func c05cases(env *core.Env) []c05case {
	c01build()
	c05extraBuild()
	var cs []c05case
	for si := range c05stacks {
		for ci := range c01matrix {
			cs = append(cs, c05case{si, ci})
		}
		for ci := range c05extra {
			cs = append(cs, c05case{si, len(c01matrix) + ci})
		}
	}
	// failing steps harvested from random histories (writable stacks)
	for si, st := range c05stacks {
		if st.readOnly {
			continue
		}
		for i := 0; i < env.Pick(150, 5000); i++ {
			cs = append(cs, c05case{si, -1 - i})
		}
	}
	return cs
}

func init() {
	core.Register(&core.Prop{
		ID:    "C05",
		Level: "exploration",
		Rule: "differential monitor on FAILING calls: every case of the C01 situation matrix (all namespace operations x target situations x argument variants, Rename over source x destination situations) plus invalid-name calls is issued with the caller's top-level name through 22 layer stacks (mem; mount with the target 0, 1, 2 mounts deep, below a mounted directory, across a mount boundary, and through a mount.FS mounted inside a mount.FS; generic Sub of mem / of a mount / above a mount / of a Sub; os.FS under 1..3 Sub roots; cache; tar) and on a flattened mirror of the same namespace in one os directory; whenever the subject fails its error must be *PathError / *LinkError, its path fields must equal what os names for the same failure (the name passed in when os succeeds), never empty/absolute/inner, " +
			"and its class must equal os's class when that is one of the seven sentinels; unsupported operations must answer ErrNotImplemented. Non-trivial: cases in which the subject failed at least once; distinct by (stack, case)",
		Assumptions: []string{"reference error paths are Go os error paths made relative to the mirror's root", "cache and tar stacks only issue read operations (Open/Stat/ReadDir/ReadFile); their trees are built before the FS is constructed", "the Op field of errors is not compared"},
		NumCases:    func(env *core.Env) int { return len(c05cases(env)) },
		Batch:       400,
		Run:         c05run,
		Floor: func(env *core.Env, agg *core.Agg) string {
			if agg.Counters["failing_calls_checked"] < 8000 || agg.DistinctCount("stack_op_situation") < 500 {
				return fmt.Sprintf("failing=%d cells=%d", agg.Counters["failing_calls_checked"], agg.DistinctCount("stack_op_situation"))
			}
			return ""
		},
	})
}

func c05run(env *core.Env, idx int) core.CaseResult {
	var res core.CaseResult
	fsx.RecordErrors.Store(true)
	cc := c05cases(env)[idx]
	stack := c05stacks[cc.Stack]
	var cs c01case
	var gen *fsx.Gen
	if cc.Case >= len(c01matrix) {
		cs = c05extra[cc.Case-len(c01matrix)]
	} else if cc.Case >= 0 {
		cs = c01matrix[cc.Case]
	} else {
		gen = fsx.NewGen(env.Seed*9_000_011+int64(idx), fmt.Sprintf("e%d", idx))
		cs = c01case{Name: fmt.Sprintf("random%d", cc.Case), Hist: make([]fsx.Step, 6+gen.R.Intn(30))}
		cs.NSetup = len(cs.Hist)
	}
	res.Key = core.Hash([]any{stack.name, cs.Name, fsx.HistoryString(cs.Hist)})
	ref, err := fsx.NewOSRef(env.Scratch)
	if err != nil {
		res.Inconclusive = err.Error()
		return res
	}
	defer ref.Cleanup()
	b, err := c05build(env, stack)
	if err != nil {
		res.Violate("C05|"+stack.name+"|setup|got=fail,want=ok", "cannot build the stack: "+err.Error(), nil)
		return res
	}
	defer b.cleanup()
	// the prefix directory exists on both sides
	if strings.HasPrefix(stack.name, "mount-cross") {
		_ = hackpadfs.MkdirAll(ref, "m", 0o755)
	}
	if stack.prefix != "" {
		_ = hackpadfs.MkdirAll(ref, stack.prefix, 0o755)
		target := b.fs
		if stack.readOnly {
			target = b.setupFS
		}
		_ = hackpadfs.MkdirAll(target, stack.prefix, 0o755)
	}
	var rh, sh fsx.Handles
	defer rh.CloseAll()
	defer sh.CloseAll()
	steps := cs.Hist
	// invalid-name variants of the main operation ride along as extra steps
	nInvalid := 0
	if gen == nil && cs.NSetup < len(cs.Hist) {
		main := cs.Hist[cs.NSetup]
		steps = append([]fsx.Step(nil), steps...)
		for _, bad := range []string{"", "x/", "/x", "a/../b"} {
			v := main
			v.P = bad
			steps = append(steps, v)
			nInvalid++
		}
		// follow-up lookups on the same FS instance, at, below and above the name the main operation used: an answer
		// remembered for one name must not be given for another
		below, below2, above := main.P+"/c", main.P+"/c/ab", "."
		if main.P == "." {
			below, below2 = "c", "c/ab"
		}
		if i := strings.LastIndex(main.P, "/"); i > 0 {
			above = main.P[:i]
		}
		for _, p := range []string{main.P, below, below2, above, main.P} {
			steps = append(steps, fsx.Step{K: "Stat", P: p})
		}
		steps = append(steps, fsx.Step{K: "OpenClose", P: below, Flag: os.O_RDONLY}, fsx.Step{K: "ReadDir", P: below}, fsx.Step{K: "ReadFile", P: below2}, fsx.Step{K: "Stat", P: below})
		if strings.HasPrefix(stack.name, "tar-failed") {
			// names at and below the entry at which unpacking failed
			for _, p := range []string{"zz-file/below", "zz-file/below/c", "zz-file", "zz-file/other"} {
				steps = append(steps, fsx.Step{K: "OpenClose", P: p, Flag: os.O_RDONLY}, fsx.Step{K: "Stat", P: p})
			}
		}
	}
	for i, raw := range steps {
		if gen != nil {
			tree, _ := fsx.Snapshot(ref, nil)
			if stack.prefix != "" { // generate inside the logical namespace
				sub := fsx.Snap{}
				for p, e := range tree {
					if p == stack.prefix {
						sub["."] = e
					} else if strings.HasPrefix(p, stack.prefix+"/") {
						sub[p[len(stack.prefix)+1:]] = e
					}
				}
				tree = sub
			}
			for try := 0; ; try++ {
				raw = gen.Namespace(tree, false)
				st := c05prefixStep(stack, raw)
				if try > 20 || !env.Known.KnownSituation("C05", fmt.Sprintf("C05|%s|%s|%s|", c05stackKind(stack.name), st.K, c05sit(ref, st))) {
					break
				}
			}
			steps[i] = raw
		}
		st := c05prefixStep(stack, raw)
		invalidRide := i >= len(cs.Hist) && i < len(cs.Hist)+nInvalid
		if invalidRide {
			st = raw // invalid names are passed as they are
			if raw.P2 != "" {
				st.P2 = c05prefix(stack.prefix, raw.P2)
			}
		}
		if c05touchesMountPoint(stack, st) {
			continue
		}
		if stack.readOnly {
			if i < cs.NSetup {
				_ = fsx.Exec(ref, st, &rh, nil)
				_ = fsx.Exec(b.setupFS, st, &sh, nil)
				continue
			}
			if b.fs == nil {
				if err := b.finish(); err != nil {
					res.Violate("C05|"+stack.name+"|setup|got=fail,want=ok", "cannot build the read-only FS: "+err.Error(), nil)
					return res
				}
			}
			if !c05readOps[st.K] || st.K == "OpenClose" && st.Flag != os.O_RDONLY {
				continue
			}
		}
		sit := c05sit(ref, st)
		if invalidRide {
			sit = "invalid-name"
		}
		var rr fsx.Result
		if st.K == "Remove" && raw.P == "." && !invalidRide {
			if stack.name != "mem" && stack.name != "mount0" && stack.name != "sub-dot(mem)" {
				if c05topIsMountPoint[stack.name] && !stack.readOnly {
					// the top is a mount point: os has no counterpart whose class could be compared, but whatever the
					// answer is, it is a *PathError naming the path passed in, the second time as well as the first
					for rep := 1; rep <= 2; rep++ {
						sr := fsx.Exec(b.fs, st, &sh, nil)
						if sr.OK() || sr.Panic != "" {
							break
						}
						res.Count("failing_calls_checked", 1)
						res.Nontrivial = true
						if sr.Typ != "PathError" || sr.EPath != st.P {
							res.Violate(fmt.Sprintf("C05|%s|Remove|mount-point|path:%s", c05stackKind(stack.name), c05pathKind(sr.EPath, st.P)), fmt.Sprintf("[%s] %s (a mount point), call %d: %s names %q, expected the path passed in", stack.name, st, rep, sr, sr.EPath), map[string]any{"stack": stack.name, "step": st.String(), "repetition": rep})
							break
						}
					}
				}
				continue // (only where "." is the file system's own root: the top of a Sub view or os root is a directory of its parent)
			}
			rr = fsx.Result{Err: "ErrInvalid", Typ: "PathError", EPath: "."}
		} else if !invalidRide {
			rr = fsx.Exec(ref, st, &rh, nil)
		} else {
			// the reference does not validate names; the expectation is the property's: ErrInvalid naming the name passed in
			rr = fsx.Result{Err: "ErrInvalid", Typ: "PathError", EPath: st.P, EOld: st.P, ENew: st.P2}
			if st.K == "Rename" || st.K == "Symlink" {
				rr.Typ = "LinkError"
			}
		}
		sr := fsx.Exec(b.fs, st, &sh, nil)
		if env.Verbose {
			fmt.Printf("step %d %-40s [%s]\n   os : %s (path %q old %q new %q)\n   sub: %s (path %q old %q new %q)\n", i, st, sit, rr, rr.EPath, rr.EOld, rr.ENew, sr, sr.EPath, sr.EOld, sr.ENew)
		}
		if sr.Panic != "" {
			res.Violate(fmt.Sprintf("C05|%s|%s|%s|panic", c05stackKind(stack.name), st.K, sit), fmt.Sprintf("[%s] %s panicked: %s", stack.name, st, sr.Panic), nil)
			break
		}
		if sr.OK() {
			if !rr.OK() && !strings.HasPrefix(stack.name, "tar-failed") {
				break // success where os fails is C01's concern; the states have diverged
			}
			continue
		}
		res.Nontrivial = true
		res.Count("failing_calls_checked", 1)
		res.Seen("stack_op_situation", stack.name+"|"+st.K+"|"+sit)
		res.Seen("type_class_pairs", sr.Typ+"/"+sr.Err)
		wit := map[string]any{"stack": stack.name, "prefix": stack.prefix, "history": fsx.HistoryString(steps[:i+1]), "step": st.String()}
		sigBase := fmt.Sprintf("C05|%s|%s|%s|", c05stackKind(stack.name), st.K, sit)
		detail := func(what string) string {
			return fmt.Sprintf("[%s] %s: %s; subject error: %s (Path=%q Old=%q New=%q); os: %s (Path=%q Old=%q New=%q)", stack.name, st, what, sr, sr.EPath, sr.EOld, sr.ENew, rr, rr.EPath, rr.EOld, rr.ENew)
		}
		two := st.K == "Rename" || st.K == "Symlink"
		wantTyp := "PathError"
		if two {
			wantTyp = "LinkError"
		}
		if sr.Typ != wantTyp {
			res.Violate(sigBase+"type="+sr.Typ+",want="+wantTyp, detail("wrong error type"), wit)
		} else if two {
			wantOld, wantNew := st.P, st.P2
			if !rr.OK() && rr.Typ == "LinkError" {
				wantOld, wantNew = rr.EOld, rr.ENew
			}
			if sr.EOld != wantOld || sr.ENew != wantNew {
				res.Violate(sigBase+"path:"+c05pathKind(sr.EOld, wantOld)+"/"+c05pathKind(sr.ENew, wantNew), detail(fmt.Sprintf("error names %q -> %q, expected %q -> %q", sr.EOld, sr.ENew, wantOld, wantNew)), wit)
			}
		} else {
			want := st.P
			if !rr.OK() && rr.Typ == "PathError" && sr.Err != "ErrNotImplemented" {
				want = rr.EPath
			}
			if sr.EPath != want {
				res.Violate(sigBase+"path:"+c05pathKind(sr.EPath, want), detail(fmt.Sprintf("error names %q, expected %q", sr.EPath, want)), wit)
			}
		}
		if !rr.OK() && c05sentinels[rr.Err] && sr.Err != rr.Err && sr.Err != "ErrNotImplemented" && (invalidRide || !strings.HasPrefix(stack.name, "tar-failed")) { // (after a failed unpack the FS answers valid names with the unpack error: type and path are checked, the class is its own; an invalid name is still an invalid name)
			res.Violate(sigBase+"class="+sr.Err+",want="+rr.Err, detail("error matches a different sentinel than os's"), wit)
		}
		if rr.OK() && !strings.HasPrefix(stack.name, "tar-failed") {
			break // failure where os succeeds: states diverged (C01's concern)
		}
	}
	// errors already handed to the caller do not change afterwards (all errors this process has seen since the last look)
	for _, ch := range fsx.ChangedErrors() {
		res.Violate("C05|returned-error-changed-later", fmt.Sprintf("[%s] %s: the error object a caller holds was rewritten by a later call", stack.name, ch), map[string]any{"stack": stack.name, "history": fsx.HistoryString(steps)})
		break
	}
	if idx%499 == 0 {
		res.Sample = map[string]any{"stack": stack.name, "prefix": stack.prefix, "case": cs.Name, "history": fsx.HistoryString(cs.Hist)}
	}
	return res
}

// c05touchesMountPoint: removing or renaming the mount point itself is not an operation on the mirrored namespace.
func c05touchesMountPoint(stack c05stack, st fsx.Step) bool {
	if !strings.HasPrefix(stack.name, "mount-cross") {
		return false
	}
	switch st.K {
	case "Remove", "RemoveAll", "Rename":
		return st.P == "m" || st.P2 == "m"
	}
	return false
}

// c05pathKind describes how a reported path differs from the expected one.
func c05pathKind(got, want string) string {
	switch {
	case got == want:
		return "ok"
	case got == "":
		return "empty"
	case strings.HasPrefix(got, "/"):
		return "absolute"
	case strings.HasSuffix(want, "/"+got) || want != got && strings.HasSuffix(want, got) && got != "":
		return "inner"
	case strings.HasSuffix(got, "/"+want):
		return "outer"
	case strings.HasPrefix(got, want+"/"):
		return "descendant"
	case strings.HasPrefix(want, got+"/") || got == ".":
		return "ancestor"
	}
	return "other"
}

// c05stackKind groups layer stacks for signatures.
func c05stackKind(name string) string {
	switch {
	case strings.HasPrefix(name, "mem"):
		return "kv"
	case strings.HasPrefix(name, "mount"):
		return "mount"
	case strings.HasPrefix(name, "sub(mount"), strings.HasPrefix(name, "sub-dot(mount"):
		return "sub-mount"
	case strings.HasPrefix(name, "sub("), strings.HasPrefix(name, "sub-dot("):
		return "sub"
	case strings.HasPrefix(name, "os"):
		return "os"
	case strings.HasPrefix(name, "cache"):
		return "cache"
	case strings.HasPrefix(name, "tar"):
		return "tar"
	}
	return name
}

// c05sit is the coarse failure situation: the kinds of the named paths; open flags reduced to create / no create.
func c05sit(ref hackpadfs.FS, st fsx.Step) string {
	switch st.K {
	case "Rename", "Symlink":
		a, b := fsx.PathSit(ref, st.P), fsx.PathSit(ref, st.P2)
		if a == "belowfile" || b == "belowfile" {
			return "through-a-regular-file"
		}
		return fmt.Sprintf("src=%s,dst=%s,rel=%s", a, b, fsx.Relation(st.P, st.P2))
	case "OpenClose", "Open":
		c := "open"
		if st.Flag&os.O_CREATE != 0 {
			c = "create"
		}
		return c + ",target=" + fsx.PathSit(ref, st.P)
	}
	return "target=" + fsx.PathSit(ref, st.P)
}
