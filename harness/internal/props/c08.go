package props

import (
	"fmt"
	"os"
	"path/filepath"
	"sort"
	"strings"
	"sync"
	"syscall"

	"hpverif/internal/capfs"
	"hpverif/internal/core"
	"hpverif/internal/fsx"

	"github.com/hack-pad/hackpadfs"
	"github.com/hack-pad/hackpadfs/mem"
	"github.com/hack-pad/hackpadfs/mount"
	hpos "github.com/hack-pad/hackpadfs/os"
)

// C08: package helpers give the same result on every capability subset.

type c08case struct {
	Base     string `json:"base"` // os | mem | mount
	Helper   string `json:"helper"`
	Off      uint32 `json:"off"`      // FS interfaces hidden (subset of the helper's relevant ones)
	FileOff  uint32 `json:"file_off"` // file interfaces hidden on handles
	ArgIndex int    `json:"arg"`
	State    int    `json:"state,omitempty"`   // 0: the fixed start tree; >0: a seeded random start tree (thorough)
	Variant  int    `json:"variant,omitempty"` // argument variant (Chmod: which mode)
}

var c08bases = []string{"os", "mem", "mount", "mount-os"}

var c08targets = []string{"f", "d", "e", "new", "nope/new", "f/x", ".", "d/x", "d/sub/deeper", "ln", "../f", "d/../f", "", "lnd/sub/deeper", "lnd/x", "sp", "spd",
	// a backslash or a colon inside an element is an ordinary name byte for every fallback, too
	`w\x/y`, `d/c:x/z`}

// c08mkdirPerms: permission arguments for Mkdir/MkdirAll (variant 0 first), incl. ones without owner write/execute
var c08mkdirPerms = []uint32{0o750, 0o555, 0o500, 0, 0o777}

// c08openFlags: flag sets for the OpenFile helper (variant 0 is the first)
var c08openFlags = []int{os.O_RDWR | os.O_CREATE, os.O_RDONLY, os.O_RDONLY | os.O_TRUNC, os.O_WRONLY | os.O_APPEND, os.O_RDWR | os.O_CREATE | os.O_EXCL, os.O_RDONLY | os.O_APPEND, os.O_WRONLY | os.O_TRUNC}

// c08subSecond: for the Sub helper's nested variant (a view of "d", then a view of this inside it)
var c08subSecond = []string{"y", ".", "x", "missing", "../f", "..", "y/../../f", "", "y/"}

// helper -> the Step kinds that invoke it
// c08chmodModes: plain permission bits, and modes carrying the special bits Chmod may set.
var c08chmodModes = []uint32{0o604, uint32(os.ModeSticky) | 0o755, uint32(os.ModeSetuid) | 0o700, uint32(os.ModeSetuid|os.ModeSticky) | 0o751,
	// the permission bits the targets already have, with a special bit more or less (f: 0644, d/e/sp: 0755, spd: 0777)
	uint32(os.ModeSticky) | 0o644, uint32(os.ModeSetgid) | 0o755, 0o755, 0o777}

func c08step(helper, target string, variant ...int) fsx.Step {
	st := fsx.Step{K: helper, P: target, Perm: 0o640, Data: "payload-" + helper, MTime: 1_600_000_000}
	switch helper {
	case "OpenFile":
		st.K, st.Flag = "Open", os.O_RDWR|os.O_CREATE // the handle is closed by the caller; no I/O of the harness's own
		if len(variant) > 0 {
			st.Flag = c08openFlags[variant[0]%len(c08openFlags)]
		}
	case "Sub":
		if len(variant) > 0 && variant[0] > 0 {
			// nested: Sub("d") of the subject, then Sub(second) of that view
			st.K, st.P, st.P2 = "SubSub", "d", c08subSecond[(variant[0]-1)%len(c08subSecond)]
		}
	case "Mkdir", "MkdirAll":
		st.Perm = 0o750
		if len(variant) > 0 {
			st.Perm = c08mkdirPerms[variant[0]%len(c08mkdirPerms)]
		}
	case "WriteFullFile":
		if len(variant) > 0 && variant[0] > 0 {
			st.Data = []string{"", "p", ""}[variant[0]%3] // shorter than what the existing targets hold, and empty
		}
	case "Rename", "Symlink":
		if helper == "Rename" && len(variant) > 0 && variant[0] > 0 {
			// through a Sub view of "d": d/x -> d/x-renamed (or a missing source)
			st.K, st.P, st.P2 = "SubRename", "d", []string{"x", "x", "missing"}[variant[0]%3]
			return st
		}
		if helper == "Symlink" && len(variant) > 0 && variant[0] > 0 {
			// through a Sub view of "d": a link x-lnk -> x (or to a missing name), read back through the view
			st.K, st.P, st.P2 = "SubSymlink", "d", []string{"x", "x", "missing"}[variant[0]%3]
			return st
		}
		st.P, st.P2 = "f", target
		if target == "f" {
			st.P, st.P2 = "d", "renamed"
		}
	case "Chown":
		st.N, st.Off = 1234, 5678 // uid and gid differ (the process is root inside its jail)
	case "Chmod":
		st.Perm = 0o604
		if len(variant) > 0 {
			st.Perm = c08chmodModes[variant[0]%len(c08chmodModes)]
		}
	}
	return st
}

var c08fileHelpers = []string{"H.Write", "H.ReadAt", "H.WriteAt", "H.ReadDir", "H.Seek", "H.Sync", "H.Truncate", "H.Chmod"}
var c08fileIface = map[string]string{"H.Write": "Write", "H.ReadAt": "ReadAt", "H.WriteAt": "WriteAt", "H.ReadDir": "ReadDir", "H.Seek": "Seek", "H.Sync": "Sync", "H.Truncate": "Truncate", "H.Chmod": "Chmod"}

// file interface a FS helper's fallback relies on
var c08helperFileIface = map[string]string{"Chmod": "Chmod", "Chown": "Chown", "Chtimes": "Chtimes", "ReadDir": "ReadDir", "WriteFullFile": "Write"}

var c08once sync.Once
var c08list []c08case

func c08native(base string) uint32 {
	switch base {
	case "os":
		return capfs.Native(hpos.NewFS())
	case "mem":
		m, _ := mem.NewFS()
		return capfs.Native(m)
	}
	m, _ := mem.NewFS()
	mf, _ := mount.NewFS(m)
	return capfs.Native(mf) // mount and mount-os
}

func c08build() {
	c08once.Do(func() {
		helpers := make([]string, 0, len(capfs.Relevant))
		for h := range capfs.Relevant {
			helpers = append(helpers, h)
		}
		sort.Strings(helpers)
		for _, base := range c08bases {
			nat := c08native(base)
			for _, h := range helpers {
				var rel []uint32
				for _, n := range capfs.Relevant[h] {
					if b := capfs.FSBit(n); nat&b != 0 {
						rel = append(rel, b)
					}
				}
				for sub := 0; sub < 1<<len(rel); sub++ {
					var off uint32
					for i, b := range rel {
						if sub&(1<<i) != 0 {
							off |= b
						}
					}
					if !capfs.HasMask(nat &^ off) {
						continue
					}
					fileOffs := []uint32{0}
					if fi, ok := c08helperFileIface[h]; ok {
						fileOffs = append(fileOffs, capfs.FileBit(fi))
					}
					for _, fo := range fileOffs {
						for ai := range c08targets {
							c08list = append(c08list, c08case{Base: base, Helper: h, Off: off, FileOff: fo, ArgIndex: ai})
							if h == "Chmod" {
								for v := 1; v < len(c08chmodModes); v++ {
									c08list = append(c08list, c08case{Base: base, Helper: h, Off: off, FileOff: fo, ArgIndex: ai, Variant: v})
								}
							}
							if h == "OpenFile" && ai < 3 { // targets f, d, e
								for v := 1; v < len(c08openFlags); v++ {
									c08list = append(c08list, c08case{Base: base, Helper: h, Off: off, FileOff: fo, ArgIndex: ai, Variant: v})
								}
							}
							if (h == "Mkdir" || h == "MkdirAll") && (c08targets[ai] == "new" || c08targets[ai] == "d/sub/deeper" || c08targets[ai] == "nope/new" || c08targets[ai] == "lnd/sub/deeper" || strings.ContainsAny(c08targets[ai], `\:`)) {
								for v := 1; v < len(c08mkdirPerms); v++ {
									c08list = append(c08list, c08case{Base: base, Helper: h, Off: off, FileOff: fo, ArgIndex: ai, Variant: v})
								}
							}
							if h == "WriteFullFile" && ai < 4 {
								for v := 1; v <= 2; v++ {
									c08list = append(c08list, c08case{Base: base, Helper: h, Off: off, FileOff: fo, ArgIndex: ai, Variant: v})
								}
							}
							if (h == "Rename" || h == "Symlink") && ai == 0 {
								for v := 1; v <= 2; v++ {
									c08list = append(c08list, c08case{Base: base, Helper: h, Off: off, FileOff: fo, ArgIndex: ai, Variant: v})
								}
							}
							if h == "Sub" && ai == 0 {
								for v := 1; v <= len(c08subSecond); v++ {
									c08list = append(c08list, c08case{Base: base, Helper: h, Off: off, FileOff: fo, ArgIndex: ai, Variant: v})
								}
							}
						}
					}
				}
			}
			for _, fh := range c08fileHelpers {
				for _, fo := range []uint32{0, capfs.FileBit(c08fileIface[fh])} {
					for ai := 0; ai < 2; ai++ {
						c08list = append(c08list, c08case{Base: base, Helper: fh, FileOff: fo, ArgIndex: ai})
						if fh == "H.ReadAt" || fh == "H.WriteAt" || fh == "H.Seek" || fh == "H.Truncate" {
							for v := 1; v <= 2; v++ {
								c08list = append(c08list, c08case{Base: base, Helper: fh, FileOff: fo, ArgIndex: ai, Variant: v})
							}
						}
						if fh == "H.Chmod" {
							for v := 1; v < len(c08chmodModes); v++ {
								c08list = append(c08list, c08case{Base: base, Helper: fh, FileOff: fo, ArgIndex: ai, Variant: v})
							}
						}
					}
				}
			}
		}
	})
}

func init() {
	core.Register(&core.Prop{
		ID:    "C08",
		Level: "fault_enumeration",
		Rule: "twin execution full vs masked: generated wrapper types (tools/gen_capfs.py, one Go type per method set) expose every subset of the optional interfaces a helper's dispatch can consult, over os.FS (natively implements everything, so each fallback is compared with the optimised path it replaces), mem.FS and mount.FS over mem; for every helper x subset x 9 targets (existing file/dir/empty dir, missing, missing parent, below a file, root, nested) the masked run must give the full run's result class, data and final tree, or fail with ErrNotImplemented leaving the tree unchanged. Handles come with subsets of the file interfaces for the *File helpers and for fallbacks that rely on them. " +
			"Fault enumeration: the clean masked run's primitive calls are counted (N) and the helper is re-run on a fresh state once per k<N with the k-th primitive failing; a helper that then reports success must have produced the fault-free result and state. Non-trivial: masked subsets that actually took a fallback (primitive log differs from the full run); distinct by (base, helper, hidden interfaces, target)",
		Assumptions: []string{"interfaces the base FS does not implement natively cannot be exposed; the subset lattice is taken over the native ones", "Symlink runs on os.FS only", "a failing file.Close after a completed read-only helper is not 'work not done': the oracle demands the fault-free result and state whenever success is reported"},
		NumCases:    func(env *core.Env) int { c08build(); return len(c08list) * env.Pick(3, 60) },
		Batch:       150,
		Run:         c08run,
		Floor: func(env *core.Env, agg *core.Agg) string {
			if agg.Counters["fault_runs"] < 1500 || agg.Counters["fallback_taking_runs"] < 500 {
				return fmt.Sprint(agg.Counters["fault_runs"], agg.Counters["fallback_taking_runs"])
			}
			return ""
		},
	})
}

// c08withLink: the start tree contains a symbolic link (only for the helpers whose contract distinguishes links:
// Lstat and Stat; LstatOrStat is by contract 'whichever is supported' and the removal fallbacks are not link-aware).
var c08withLink bool

type c08world struct {
	fs      hackpadfs.FS // wrapped
	base    *capfs.Base
	inner   hackpadfs.FS
	cleanup func()
}

var c08items = []treeItem{{Path: "d", Dir: true, Perm: 0o755}, {Path: "d/x", Perm: 0o644, Data: "dx"}, {Path: "d/y", Dir: true, Perm: 0o700}, {Path: "d/y/z", Perm: 0o600, Data: "deep"},
	{Path: "e", Dir: true, Perm: 0o755}, {Path: "f", Perm: 0o644, Data: "ffff"},
	// entries that carry the special mode bits (set with Chmod after creation, see newC08World)
	{Path: "sp", Perm: 0o755, Data: "special"}, {Path: "spd", Dir: true, Perm: 0o777}}

var c08specialModes = map[string]hackpadfs.FileMode{"sp": hackpadfs.ModeSetuid | hackpadfs.ModeSetgid | 0o755, "spd": hackpadfs.ModeSticky | 0o777}

func newC08World(env *core.Env, base string, off, fileOff uint32, state ...int) (*c08world, error) {
	w := &c08world{cleanup: func() {}}
	switch base {
	case "os", "mount-os":
		d, err := os.MkdirTemp(env.Scratch, "c08-")
		if err != nil {
			return nil, err
		}
		_ = os.Chmod(d, 0o777)
		w.cleanup = func() { _ = os.RemoveAll(d) }
		v, err := hpos.NewFS().Sub(filepath.Clean(d)[1:])
		if err != nil {
			return nil, err
		}
		w.inner = v
	case "mem":
		m, _ := mem.NewFS()
		w.inner = m
	case "mount":
		root, _ := mem.NewFS()
		mf, _ := mount.NewFS(root)
		_ = hackpadfs.Mkdir(root, "d", 0o755)
		m2, _ := mem.NewFS()
		if err := mf.AddMount("d", m2); err != nil {
			return nil, err
		}
		w.inner = mf
	}
	for _, it := range c08items {
		if it.Path == "d" && base == "mount" {
			continue
		}
		if err := buildTree(w.inner, []treeItem{it}); err != nil {
			return nil, err
		}
		if m, ok := c08specialModes[it.Path]; ok {
			_ = hackpadfs.Chmod(w.inner, it.Path, m)
		}
	}
	if len(state) > 0 && state[0] > 0 {
		// a seeded random start tree on top of the fixed one
		gen := fsx.NewGen(env.Seed*14_000_029+int64(state[0]), fmt.Sprintf("s%d", state[0]))
		var hs fsx.Handles
		for i := 0; i < 12; i++ {
			tree, _ := fsx.Snapshot(w.inner, nil)
			st := gen.Namespace(tree, false)
			if st.K == "RemoveAll" && st.P == "d" && base == "mount" {
				continue
			}
			_ = fsx.Exec(w.inner, st, &hs, nil)
		}
		hs.CloseAll()
	}
	if base == "os" || base == "mount-os" {
		// a symbolic link to a directory, so that paths THROUGH a link exist (mem has no links: there lnd is simply missing)
		_ = hackpadfs.Symlink(w.inner, "d", "lnd")
	}
	if (base == "os" || base == "mount-os") && c08withLink {
		// a symbolic link, so that Lstat and Stat can be told apart
		_ = hackpadfs.Symlink(w.inner, "f", "ln")
	}
	if base == "mount-os" {
		// a mount.FS with the os.FS as its root and nothing mounted: every helper goes through the MountFS branch
		mf, err := mount.NewFS(w.inner)
		if err != nil {
			return nil, err
		}
		w.inner = mf
	}
	nat := capfs.Native(w.inner)
	fsys, b, err := capfs.New(w.inner, nat&^off, capfs.AllFile&^fileOff)
	if err != nil {
		return nil, err
	}
	w.fs, w.base = fsys, b
	return w, nil
}

func c08apply(w *c08world, cs c08case, failAt int, partial ...bool) (fsx.Result, fsx.Snap, []string) {
	var hs fsx.Handles
	defer hs.CloseAll()
	w.base.Reset(failAt)
	setPartial := func() {
		if len(partial) > 0 && partial[0] {
			w.base.Partial = true
		}
	}
	setPartial()
	var r fsx.Result
	if strings.HasPrefix(cs.Helper, "H.") {
		target := []string{"f", "d"}[cs.ArgIndex]
		flag := os.O_RDWR
		if target == "d" {
			flag = os.O_RDONLY
		}
		if cs.Variant == 2 && cs.Helper != "H.Chmod" && target != "d" {
			flag = os.O_WRONLY // a handle that cannot read (positional reads must fail without moving anything)
		}
		w.base.Reset(-1)
		o := fsx.Exec(w.fs, fsx.Step{K: "Open", P: target, Flag: flag}, &hs, nil)
		if !o.OK() {
			return o, nil, nil
		}
		w.base.Reset(failAt)
		setPartial()
		st := fsx.Step{K: cs.Helper, N: 2, Data: "hw", Off: 1, Perm: 0o600}
		if cs.Variant > 0 {
			st.Perm = c08chmodModes[cs.Variant%len(c08chmodModes)]
		}
		if cs.Helper == "H.ReadDir" {
			st.N = -1 // a page of a listing is in unspecified order; compare complete listings
		}
		if cs.Variant >= 1 && cs.Helper != "H.Chmod" {
			st.N = 100 // crosses the end of the file
		}
		r = fsx.Exec(w.fs, st, &hs, nil)
		calls := append([]string(nil), w.base.Calls...)
		fired := w.base.Fired
		// where the handle stands afterwards is part of the result: the position is read back, and a write through the
		// handle (fault-free) shows in the tree where it landed
		w.base.Reset(-1)
		if target != "d" && cs.Helper != "H.Close" {
			pos := fsx.Exec(w.fs, fsx.Step{K: "H.Seek", Off: 0, Whence: 1}, &hs, nil)
			r.Data += fmt.Sprintf(" |pos=%d,%s", pos.N, pos.Err)
			_ = fsx.Exec(w.fs, fsx.Step{K: "H.Write", Data: "Z"}, &hs, nil)
		}
		w.base.Fired = fired
		hs.CloseAll()
		snap, _ := fsx.Snapshot(w.inner, nil)
		return r, snap, calls
	} else {
		st := c08step(cs.Helper, c08targets[cs.ArgIndex], cs.Variant)
		if st.K == "SubSub" {
			// the two Sub calls run under the fault plan; what the nested view shows is read afterwards, fault-free
			st.N = 1
			r = fsx.Exec(w.fs, st, &hs, nil)
			calls := append([]string(nil), w.base.Calls...)
			fired := w.base.Fired
			if r.OK() {
				w.base.Reset(-1)
				st.N = 0
				r.Data = fsx.Exec(w.fs, st, &hs, nil).Data
			}
			w.base.Reset(-1)
			w.base.Fired = fired
			hs.CloseAll()
			snap, _ := fsx.Snapshot(w.inner, nil)
			return r, snap, calls
		}
		if st.K == "Create" {
			// the handle Create returns is open for reading and writing, whichever way the helper got it: after the call
			// (fault plan off) two bytes are written through it and read back
			var f hackpadfs.File
			r, f = fsx.CreateKeep(w.fs, st.P)
			calls := append([]string(nil), w.base.Calls...)
			fired := w.base.Fired
			w.base.Reset(-1)
			if f != nil && r.OK() {
				r.Data = fsx.HandleRoundTrip(f)
				_ = f.Close()
			}
			w.base.Fired = fired
			snap, _ := fsx.Snapshot(w.inner, nil)
			return r, snap, calls
		}
		r = fsx.Exec(w.fs, st, &hs, nil)
		if st.K == "Chown" {
			// who owns the target afterwards is the effect of the call (read from the file system underneath, past the masks)
			if info, err := hackpadfs.LstatOrStat(w.inner, st.P); err == nil {
				if s, ok := info.Sys().(*syscall.Stat_t); ok {
					r.Data += fmt.Sprintf(" |owner=%d:%d", s.Uid, s.Gid)
				}
			}
		}
	}
	calls := append([]string(nil), w.base.Calls...)
	hs.CloseAll()
	snap, _ := fsx.Snapshot(w.inner, nil)
	return r, snap, calls
}

func c08run(env *core.Env, idx int) core.CaseResult {
	c08build()
	cs := c08list[idx%len(c08list)]
	c08withLink = cs.Helper == "Lstat" || cs.Helper == "Stat" || cs.Helper == "LstatOrStat"
	cs.State = idx / len(c08list)
	var res core.CaseResult
	res.Key = core.Hash(cs)
	if cs.Helper == "Symlink" && cs.Base != "os" && cs.Base != "mount-os" {
		return res
	}
	hidden := capfs.MaskString(cs.Off, capfs.FSInterfaces)
	if cs.FileOff != 0 {
		hidden += ",file:" + capfs.MaskString(cs.FileOff, capfs.FileInterfaces)
	}
	if cs.Helper == "RemoveAll" {
		nat := c08native(cs.Base)
		if exposed := nat &^ cs.Off; exposed&(capfs.FSBit("Remove")|capfs.FSBit("RemoveAll")|capfs.FSBit("Mount")) == 0 {
			hidden = "no-way-to-remove" // one situation: the file system offers neither Remove nor RemoveAll (nor a mount to delegate to)
		}
	}
	target := ""
	if !strings.HasPrefix(cs.Helper, "H.") {
		target = c08targets[cs.ArgIndex]
	}
	wit := map[string]any{"case": cs, "hidden": hidden, "target": target}
	sig := func(what string) string {
		return fmt.Sprintf("C08|%s|%s|hidden=%s|%s", cs.Base, cs.Helper, hidden, what)
	}

	fullBase := cs.Base
	if cs.Base == "mount-os" {
		fullBase = "os" // reference: the os.FS applied directly (everything native)
	}
	full, err := newC08World(env, fullBase, 0, 0, cs.State)
	if err != nil {
		res.Inconclusive = "setup: " + err.Error()
		return res
	}
	defer full.cleanup()
	start, _ := fsx.Snapshot(full.inner, nil)
	if strings.HasPrefix(cs.Helper, "H.") {
		// "unchanged" for a handle helper: what the harness's own follow-up (position read back, one byte written through
		// the handle) leaves when the helper is not called at all
		if bw, err := newC08World(env, cs.Base, cs.Off, cs.FileOff, cs.State); err == nil { // (same masks: the follow-up write needs Write exposed too)
			noop := cs
			noop.Helper = "H.Stat"
			_, start, _ = c08apply(bw, noop, -1)
			bw.cleanup()
		}
	}
	fr, fsnap, fcalls := c08apply(full, cs, -1)

	masked, err := newC08World(env, cs.Base, cs.Off, cs.FileOff, cs.State)
	if err != nil {
		res.Inconclusive = "setup: " + err.Error()
		return res
	}
	defer masked.cleanup()
	mr, msnap, mcalls := c08apply(masked, cs, -1)
	res.Count("twin_runs", 1)
	if strings.Join(fcalls, ",") != strings.Join(mcalls, ",") {
		res.Nontrivial = true
		res.Count("fallback_taking_runs", 1)
	}
	res.Seen("helper_subsets", cs.Base+"|"+cs.Helper+"|"+hidden)
	if env.Verbose {
		fmt.Printf("full  : %s calls=%v\nmasked: %s calls=%v\n", fr, fcalls, mr, mcalls)
	}
	if mr.Panic != "" {
		res.Violate(sig("panic"), fmt.Sprintf("%s(%q) on %s with %s hidden panicked: %s", cs.Helper, target, cs.Base, hidden, mr.Panic), wit)
		return res
	}
	kd, dd := fsx.Diff(msnap, fsnap)
	same := mr.Err == fr.Err && mr.Data == fr.Data && kd == ""
	if cs.Helper == "LstatOrStat" && target == "ln" && kd == "" {
		// by contract LstatOrStat describes the link itself only where Lstat is offered; without it, it follows the link
		// (different data, or ErrNotExist when the link dangles). Compared only when the masked run did call Lstat.
		// (The link is there for the fault enumeration below: a failing Lstat must not be papered over by Stat.)
		// (decided from what the masked file system offers, not from what the helper happened to call: a helper that
		// could reach Lstat - directly or through Mount - and calls Stat instead is exactly the defect)
		exposed := c08native(cs.Base) &^ cs.Off
		if exposed&(capfs.FSBit("Lstat")|capfs.FSBit("Mount")) == 0 {
			same = true
		}
	}
	notImpl := mr.Err == "ErrNotImplemented"
	if !same {
		if notImpl {
			if k, d := fsx.Diff(msnap, start); k != "" {
				res.Violate(sig("notimplemented-but-changed:"+k), fmt.Sprintf("%s(%q) on %s with %s hidden failed with ErrNotImplemented but changed the tree: %s", cs.Helper, target, cs.Base, hidden, d), wit)
			}
		} else if k0, _ := fsx.Diff(msnap, start); hidden == "no-way-to-remove" && mr.OK() && k0 == "" {
			// one situation (F25b), whatever the target and whatever the full run answers for it: nothing can be removed,
			// nothing was, and the helper says it is done
			// (F25b is about directories: for each of them only its own Remove is missing, which the helper tolerates. A file
			// below the target is another matter: its removal failed, which is an error however tolerant the helper is
			// about directories)
			shape := "directories-only"
			for p, e := range start {
				if p != "." && (target == "." || strings.HasPrefix(p, target+"/")) && e.Kind != "d" {
					shape = "holds-files"
					dd += " [holds " + p + "]"
					break
				}
			}
			res.Violate(sig("success-with-nothing-removed:"+shape), fmt.Sprintf("%s(%q) on %s, which offers no way to remove anything, returned nil and removed nothing (primitives %v); with everything exposed it returns %s and the tree differs: %s", cs.Helper, target, cs.Base, mcalls, fr, dd), wit)
		} else if mr.Err != fr.Err {
			res.Violate(sig("result:got="+mr.Err+",want="+fr.Err), fmt.Sprintf("%s(%q) on %s with %s hidden returned %s (primitives %v); with everything exposed it returns %s", cs.Helper, target, cs.Base, hidden, mr, mcalls, fr), wit)
		} else if mr.Data != fr.Data {
			res.Violate(sig("data"), fmt.Sprintf("%s(%q) on %s with %s hidden returned %q; with everything exposed %q", cs.Helper, target, cs.Base, hidden, mr.Data, fr.Data), wit)
		} else {
			res.Violate(sig("state:"+kd), fmt.Sprintf("%s(%q) on %s with %s hidden (result %s) leaves a different tree than with everything exposed: %s", cs.Helper, target, cs.Base, hidden, mr.Err, dd), wit)
		}
	}
	// fault enumeration over the primitives of the masked run
	type faultRun struct {
		k       int
		partial bool
	}
	var faultRuns []faultRun
	for k := range mcalls {
		faultRuns = append(faultRuns, faultRun{k, false})
		if mcalls[k] == "file.ReadDir" || mcalls[k] == "file.Read" || mcalls[k] == "file.Write" || mcalls[k] == "Rename" {
			faultRuns = append(faultRuns, faultRun{k, true}) // also failing part-way: part of the result plus the error
		}
	}
	for _, fr := range faultRuns {
		k := fr.k
		w, err := newC08World(env, cs.Base, cs.Off, cs.FileOff, cs.State)
		if err != nil {
			break
		}
		r, snap, _ := c08apply(w, cs, k, fr.partial)
		fired := w.base.Fired
		w.cleanup()
		if !fired {
			continue
		}
		res.Count("fault_runs", 1)
		res.Seen("faulted_primitives", cs.Helper+"|"+mcalls[k])
		if r.Panic != "" {
			res.Violate(sig("fault:"+mcalls[k]+"|panic"), fmt.Sprintf("%s(%q) panicked when primitive #%d (%s) failed: %s", cs.Helper, target, k, mcalls[k], r.Panic), wit)
			continue
		}
		if r.OK() {
			// success may only be reported if the work was done: same data and state as the fault-free masked run
			if kd, dd := fsx.Diff(snap, msnap); kd != "" || r.Data != mr.Data || !mr.OK() {
				res.Violate(sig("fault:"+mcalls[k]+"|reported-success"), fmt.Sprintf("%s(%q) on %s with %s hidden returned nil although primitive #%d (%s) failed and the work was not done (%s %s)", cs.Helper, target, cs.Base, hidden, k, mcalls[k], kd, dd), wit)
			} else {
				res.Count("faults_tolerated_with_work_done", 1)
			}
		}
	}
	if idx%331 == 0 {
		res.Sample = map[string]any{"base": cs.Base, "helper": cs.Helper, "hidden": hidden, "target": target, "primitives_masked_run": mcalls, "primitives_full_run": fcalls}
	}
	return res
}
