package props

import (
	"bufio"
	"errors"
	"fmt"
	"io"
	iofs "io/fs"
	"os"
	"os/exec"
	"path/filepath"
	"runtime"
	"strconv"
	"strings"
	"syscall"

	"hpverif/internal/core"
	"hpverif/internal/fsx"

	"github.com/hack-pad/hackpadfs"
	hpos "github.com/hack-pad/hackpadfs/os"
)

// C09: os.FS maps names to OS paths inside its root, reversibly.

type c09conv struct {
	GOOS string
	Sep  rune
	Vol  string // volume given to the FS ('' = default)
}

var c09convs = []c09conv{{"linux", '/', ""}, {"windows", '\\', ""}, {"windows", '\\', "C:"}, {"windows", '\\', "D:"}, {"windows", '\\', `\\host\share`}}

var c09chains = [][]string{{}, {"tmp"}, {"root"}, {"tmp", "root"}, {"tmp/root"}, {"tmp", "rootx"}, {"root", "a b"}, {"tmp", "root", "rootx"}, {"a", "b/c", "."},
	// first elements that begin with dots (hidden directories, "..." is an ordinary name), directly on the unrooted file system
	{".hid"}, {".hid/sub", "a"}, {"...", "root"}, {".", ".hid"}, {"."}, {".", "."}}

var c09elems = []string{"a", "root", "rootx", ".", "..", "", `a\b`, `..\x`, "C:", "tmp", "caf\xe9"} // (the last one is not valid UTF-8: no FS path has it)

func c09names() []string {
	var out []string
	var rec func(prefix []string, depth int)
	rec = func(prefix []string, depth int) {
		if len(prefix) > 0 {
			s := strings.Join(prefix, "/")
			out = append(out, s, s+"/", "/"+s)
		}
		if depth == 0 {
			return
		}
		for _, e := range c09elems {
			rec(append(append([]string(nil), prefix...), e), depth-1)
		}
	}
	rec(nil, 3)
	return append(out, "", "/", ".", "./", "a/b/c/d", "ü/ö")
}

// effective volume under a convention
func (c c09conv) vol() string {
	if c.GOOS == "windows" && c.Vol == "" {
		return "C:"
	}
	return c.Vol
}

// modelVolume is the harness's Windows VolumeName: drive letters and UNC shares.
func modelVolume(goos, p string) string {
	if goos != "windows" {
		return ""
	}
	if len(p) >= 2 && p[1] == ':' && (p[0] >= 'a' && p[0] <= 'z' || p[0] >= 'A' && p[0] <= 'Z') {
		return p[:2]
	}
	isSep := func(b byte) bool { return b == '\\' || b == '/' }
	if len(p) >= 5 && isSep(p[0]) && isSep(p[1]) && !isSep(p[2]) {
		// \\host\share
		i := 2
		for i < len(p) && !isSep(p[i]) {
			i++
		}
		if i < len(p)-1 {
			j := i + 1
			for j < len(p) && !isSep(p[j]) {
				j++
			}
			if j > i+1 {
				return p[:j]
			}
		}
	}
	return ""
}

func rootElems(chain []string) []string {
	var el []string
	for _, d := range chain {
		for _, e := range strings.Split(d, "/") {
			if e != "." && e != "" {
				el = append(el, e)
			}
		}
	}
	return el
}

// modelToOS: the OS path is exactly volume + separator + root elements + name elements.
func modelToOS(c c09conv, chain []string, name string) (string, bool) {
	if !hackpadfs.ValidPath(name) {
		return "", false
	}
	el := rootElems(chain)
	if name != "." {
		el = append(el, strings.Split(name, "/")...)
	}
	return c.vol() + string(c.Sep) + strings.Join(el, string(c.Sep)), true
}

// location resolves an OS path lexically under the convention: (elements, absolute, escapedAboveRoot)
func location(c c09conv, p string) (el []string, abs bool, ok bool) {
	v := modelVolume(c.GOOS, p)
	if v != c.vol() {
		return nil, false, false
	}
	rest := p[len(v):]
	isSep := func(r rune) bool { return r == '/' || (c.GOOS == "windows" && r == '\\') }
	if rest == "" || !isSep(rune(rest[0])) {
		return nil, false, true
	}
	for _, e := range strings.FieldsFunc(rest, isSep) {
		switch e {
		case ".":
		case "..":
			if len(el) > 0 {
				el = el[:len(el)-1]
			}
		default:
			el = append(el, e)
		}
	}
	return el, true, true
}

func hasPrefixElems(el, prefix []string) bool {
	if len(el) < len(prefix) {
		return false
	}
	for i := range prefix {
		if el[i] != prefix[i] {
			return false
		}
	}
	return true
}

type c09case struct {
	Conv  int
	Chain int
	Part  string // names | ospaths | kernel
}

func c09cases() []c09case {
	var cs []c09case
	for ci := range c09convs {
		for ri := range c09chains {
			cs = append(cs, c09case{ci, ri, "names"}, c09case{ci, ri, "ospaths"})
			if c09convs[ci].GOOS == "linux" {
				cs = append(cs, c09case{ci, ri, "subvolume"})
			}
		}
	}
	return cs
}

func init() {
	core.RegisterCommand("c09strace", c09straceChild)
	core.Register(&core.Prop{
		ID:    "C09",
		Level: "exploration",
		Rule: "an independent lexical model (split, resolve, compare by elements; no path.Join/TrimPrefix) decides, for 5 conventions (linux '/', windows '\\' with volumes '', C:, D:, a UNC share; driven on Linux through the verif shims with a harness VolumeName) x 9 chains of 0..3 Sub roots (incl. look-alikes root/rootx, a space, 'tmp/root' in one call) x every string of up to 3 elements over {a, root, rootx, tmp, ., .., '', a\\b, ..\\x, C:} with and without leading/trailing separators: ToOSPath of a valid name is exactly volume+sep+root+name and lexically inside the root, invalid names are refused; FromOSPath(ToOSPath(n)) = n; FromOSPath of every generated OS path (canonical, unclean, outside the root, look-alike prefixes, other volumes, relative) either fails or returns a valid FS path denoting the same location, and must fail for relative paths and paths outside the root. " +
			"Kernel part (linux): failing and succeeding calls under each chain run under strace: every path reaching the kernel is inside the root and error paths are the caller's FS-relative names. The name/OS-path spaces are enumerated completely for the stated alphabet (exhaustive for that finite space). Non-trivial: evaluations of valid names or in-root OS paths; distinct by (convention, chain, string)",
		Assumptions: []string{"Windows conventions are exercised lexically on Linux; errors_windows.go never runs", "non-absolute Windows inputs are not fed to the shim (the public FromOSPath filters them with the host's filepath.IsAbs, which only exists for the host OS)"},
		NumCases:    func(env *core.Env) int { return len(c09cases()) },
		Batch:       6,
		Run:         c09run,
		PreParent: func(env *core.Env) []core.CaseResult {
			// the kernel part needs strace, so it runs from the parent; each helper process confines itself (chroot)
			var out []core.CaseResult
			for ri, chain := range c09chains {
				var r core.CaseResult
				r.Idx = -1 - ri
				r.Key = fmt.Sprint("kernel", ri)
				c09kernel(env, chain, &r)
				out = append(out, r)
			}
			return out
		},
		Exhaustive: func(env *core.Env) bool { return true },
		Floor: func(env *core.Env, agg *core.Agg) string {
			if agg.Counters["to_os_evaluations"] < 50000 || agg.Counters["from_os_evaluations"] < 50000 || agg.Counters["kernel_calls"] < 100 {
				return fmt.Sprint(agg.Counters)
			}
			return ""
		},
	})
}

func c09fs(c c09conv, chain []string) (*hpos.FS, error) {
	base := hpos.NewFS()
	if c.Vol != "" {
		base = base.VerifSubVolume(c.Vol)
	}
	var cur hackpadfs.FS = base
	for _, d := range chain {
		n, err := cur.(*hpos.FS).Sub(d)
		if err != nil {
			return nil, err
		}
		cur = n
	}
	return cur.(*hpos.FS), nil
}

func c09run(env *core.Env, idx int) core.CaseResult {
	cs := c09cases()[idx]
	var res core.CaseResult
	conv, chain := c09convs[cs.Conv], c09chains[cs.Chain]
	fsys, err := c09fs(conv, chain)
	if err != nil {
		res.Violate("C09|setup|Sub", fmt.Sprintf("Sub chain %v failed: %v", chain, err), cs)
		return res
	}
	convName := conv.GOOS
	if conv.Vol != "" {
		convName += "+vol"
	}
	wit := func(s string) any {
		return map[string]any{"convention": conv.GOOS, "volume": conv.Vol, "chain": chain, "input": s}
	}
	rootEl := rootElems(chain)
	toOS := func(n string) (string, error) { return fsys.VerifToOSPath(conv.GOOS, conv.Sep, "ospath", n) }
	fromOS := func(p string) (string, error) {
		if conv.GOOS == "linux" {
			return fsys.FromOSPath(p) // the public function on its own OS
		}
		return fsys.VerifFromOSPath(conv.GOOS, conv.Sep, func(s string) string { return modelVolume(conv.GOOS, s) }, "ospath", p)
	}
	names := c09names()
	if cs.Part == "subvolume" {
		// the public SubVolume on its own OS: every candidate is either refused, or the file system it returns (and
		// the Sub roots below it) still maps root+name and back
		for _, vol := range []string{"", "/", "//", "C:", `C:\`, "tmp", "/tmp", ".", `\`, " ", "/.", `\\host\share`} {
			var top hackpadfs.FS
			var verr error
			if p := core.Recover(func() { top, verr = hpos.NewFS().SubVolume(vol) }); p != "" {
				res.Violate("C09|linux|SubVolume|panic", fmt.Sprintf("SubVolume(%q) panicked: %s", vol, p), wit(vol))
				continue
			}
			res.Count("subvolume_candidates", 1)
			if verr != nil {
				continue
			}
			res.Count("subvolume_accepted", 1)
			cur := top
			ok := true
			for _, d := range chain {
				n, err := cur.(*hpos.FS).Sub(d)
				if err != nil {
					res.Violate("C09|linux|SubVolume|Sub", fmt.Sprintf("after SubVolume(%q), Sub chain %v failed: %v", vol, chain, err), wit(vol))
					ok = false
					break
				}
				cur = n
			}
			if !ok {
				continue
			}
			vfs := cur.(*hpos.FS)
			if len(chain) > 0 {
				// SubVolume on a file system that already has a Sub root: refused, or the root stays where it is
				if again, aerr := vfs.SubVolume(vol); aerr == nil {
					res.Count("subvolume_after_sub_accepted", 1)
					if afs, ok := again.(*hpos.FS); ok {
						want, _ := modelToOS(conv, chain, "probe")
						if got, gerr := afs.ToOSPath("probe"); gerr != nil || got != want {
							res.Violate("C09|linux|SubVolume|after-Sub|root-lost", fmt.Sprintf("Sub chain %v, then SubVolume(%q) was accepted and the file system now maps \"probe\" to %q, %v; the root puts it at %q", chain, vol, got, gerr, want), wit(vol))
						}
					}
				}
			}
			for _, n := range names {
				res.Evals++
				want, valid := modelToOS(conv, chain, n)
				got, gerr := vfs.ToOSPath(n)
				if !valid {
					if gerr == nil {
						res.Violate("C09|linux|SubVolume|ToOSPath|invalid-accepted", fmt.Sprintf("after SubVolume(%q): ToOSPath(%q) returned %q for an invalid name", vol, n, got), wit(n))
					}
					continue
				}
				res.NTKeys = append(res.NTKeys, core.Hash([]any{cs.Conv, cs.Chain, "vol", vol, n}))
				if gerr != nil || got != want {
					res.Violate("C09|linux|SubVolume|ToOSPath|not-root-joined-name", fmt.Sprintf("after SubVolume(%q) and Sub chain %v: ToOSPath(%q) = %q, %v; want %q (the only volume on this OS is the empty one)", vol, chain, n, got, gerr, want), wit(n))
					continue
				}
				if back, berr := vfs.FromOSPath(got); berr != nil || back != n {
					res.Violate("C09|linux|SubVolume|roundtrip", fmt.Sprintf("after SubVolume(%q) and Sub chain %v: FromOSPath(ToOSPath(%q)=%q) = %q, %v", vol, chain, n, got, back, berr), wit(n))
				}
			}
		}
		res.Sample = map[string]any{"convention": conv.GOOS, "chain": chain, "part": "SubVolume candidates"}
		return res
	}
	if cs.Part == "names" {
		for _, n := range names {
			res.Count("to_os_evaluations", 1)
			want, valid := modelToOS(conv, chain, n)
			var got string
			var gerr error
			if p := core.Recover(func() { got, gerr = toOS(n) }); p != "" {
				res.Violate("C09|"+convName+"|ToOSPath|panic", fmt.Sprintf("ToOSPath(%q) panicked: %s", n, p), wit(n))
				continue
			}
			if !valid {
				if gerr == nil {
					res.Violate("C09|"+convName+"|ToOSPath|invalid-accepted", fmt.Sprintf("ToOSPath(%q) returned %q for an invalid name", n, got), wit(n))
				} else if fsx.Class(gerr) != "ErrInvalid" {
					res.Violate("C09|"+convName+"|ToOSPath|invalid-wrong-class", fmt.Sprintf("ToOSPath(%q) failed with %v", n, gerr), wit(n))
				}
				continue
			}
			res.NTKeys = append(res.NTKeys, core.Hash([]any{cs.Conv, cs.Chain, n}))
			if gerr != nil {
				res.Violate("C09|"+convName+"|ToOSPath|valid-refused", fmt.Sprintf("ToOSPath(%q) failed: %v", n, gerr), wit(n))
				continue
			}
			if got != want {
				res.Violate("C09|"+convName+"|ToOSPath|not-root-joined-name", fmt.Sprintf("ToOSPath(%q) = %q, want %q", n, got, want), wit(n))
				continue
			}
			el, abs, ok := location(conv, got)
			if !ok || !abs || !hasPrefixElems(el, rootEl) {
				shape := "plain"
				if strings.ContainsRune(n, '\\') {
					shape = "name-with-backslash"
				}
				res.Violate("C09|"+convName+"|ToOSPath|outside-root|"+shape, fmt.Sprintf("ToOSPath(%q) = %q resolves to %v, outside the root %v under the %s convention", n, got, el, rootEl, conv.GOOS), wit(n))
				continue
			}
			// inverse
			back, berr := fromOS(got)
			res.Count("roundtrips", 1)
			if berr != nil || back != n {
				shape := "plain"
				if strings.ContainsRune(n, '\\') && conv.GOOS == "windows" {
					shape = "name-with-backslash"
				}
				res.Violate("C09|"+convName+"|roundtrip|"+shape, fmt.Sprintf("FromOSPath(ToOSPath(%q)=%q) = %q, %v", n, got, back, berr), wit(n))
			}
		}
		res.Evals = len(names)
		res.Sample = map[string]any{"convention": conv.GOOS, "volume": conv.Vol, "chain": chain, "names": len(names), "example": names[len(names)/3]}
		return res
	}
	// OS paths: built from volume variants x separators x elements
	var ospaths []string
	vols := []string{conv.vol()}
	if conv.GOOS == "windows" {
		vols = append(vols, "D:", "c:", `\\host\share`, `\\host\other`, "")
	}
	seps := []string{string(conv.Sep)}
	if conv.GOOS == "windows" {
		seps = append(seps, "/")
	}
	for _, n := range names {
		for _, v := range vols {
			for _, sp := range seps {
				body := strings.ReplaceAll(n, "/", sp)
				ospaths = append(ospaths, v+sp+strings.Join(rootEl, sp)+sp+body, v+sp+body)
			}
		}
		if conv.GOOS == "linux" {
			ospaths = append(ospaths, n, strings.Join(rootEl, "/")+"/"+n) // relative
		}
	}
	res.Evals = len(ospaths)
	for _, p := range ospaths {
		res.Count("from_os_evaluations", 1)
		el, abs, volOK := location(conv, p)
		inside := volOK && abs && hasPrefixElems(el, rootEl)
		if conv.GOOS == "windows" && (!volOK || !abs) && modelVolume(conv.GOOS, p) == "" {
			continue // not absolute under Windows rules: filtered by the public function's IsAbs (see assumptions)
		}
		var got string
		var gerr error
		if pn := core.Recover(func() { got, gerr = fromOS(p) }); pn != "" {
			res.Violate("C09|"+convName+"|FromOSPath|panic", fmt.Sprintf("FromOSPath(%q) panicked: %s", p, pn), wit(p))
			continue
		}
		rel := "."
		if inside && len(el) > len(rootEl) {
			rel = strings.Join(el[len(rootEl):], "/")
		}
		canonical := false
		if inside && hackpadfs.ValidPath(rel) {
			if c, ok := modelToOS(conv, chain, rel); ok && c == p {
				canonical = true
			}
		}
		if inside {
			res.NTKeys = append(res.NTKeys, core.Hash([]any{cs.Conv, cs.Chain, "os", p}))
		}
		switch {
		case gerr == nil && !iofs.ValidPath(got):
			res.Violate("C09|"+convName+"|FromOSPath|returns-invalid-fs-path", fmt.Sprintf("FromOSPath(%q) = %q, which is not a valid FS path (root %v)", p, got, rootEl), wit(p))
		case gerr == nil && !inside:
			why := "outside-root"
			if !abs {
				why = "relative"
			} else if !volOK {
				why = "other-volume"
			}
			res.Violate("C09|"+convName+"|FromOSPath|accepts-"+why, fmt.Sprintf("FromOSPath(%q) = %q although the path is %s (root %v)", p, got, why, rootEl), wit(p))
		case gerr == nil && got != rel:
			res.Violate("C09|"+convName+"|FromOSPath|wrong-location", fmt.Sprintf("FromOSPath(%q) = %q, the path denotes %q below the root", p, got, rel), wit(p))
		case gerr != nil && canonical:
			res.Violate("C09|"+convName+"|FromOSPath|canonical-refused", fmt.Sprintf("FromOSPath(%q) failed (%v) although it is exactly ToOSPath(%q)", p, gerr, rel), wit(p))
		case gerr != nil && fsx.Class(gerr) != "ErrInvalid":
			res.Violate("C09|"+convName+"|FromOSPath|wrong-class", fmt.Sprintf("FromOSPath(%q) failed with %v", p, gerr), wit(p))
		}
	}
	res.Sample = map[string]any{"convention": conv.GOOS, "volume": conv.Vol, "chain": chain, "os_paths": len(ospaths), "example": ospaths[len(ospaths)/3]}
	return res
}

// ---- kernel part

func c09kernel(env *core.Env, chain []string, res *core.CaseResult) {
	if _, err := exec.LookPath("strace"); err != nil {
		res.Inconclusive = "strace not available"
		return
	}
	base, err := os.MkdirTemp(env.Scratch, "c09k-")
	if err != nil {
		res.Inconclusive = err.Error()
		return
	}
	_ = os.Chmod(base, 0o777)
	exe, _ := os.Executable()
	logf := base + ".strace"
	out, err := exec.Command("strace", "-f", "-e", "trace=%file", "-o", logf, exe, "c09strace", base, strings.Join(chain, "|")).Output()
	if err != nil {
		res.Inconclusive = "strace run failed: " + err.Error()
		return
	}
	root := "/jail" // the helper chroots into base and works below /jail
	for _, e := range rootElems(chain) {
		root += "/" + e
	}
	tid := ""
	for _, l := range strings.Split(string(out), "\n") {
		switch {
		case strings.HasPrefix(l, "TID "):
			tid = strings.TrimSpace(l[4:])
		case strings.HasPrefix(l, "BADERR "):
			res.Violate("C09|linux|kernel|error-path", "an OS error did not name the caller's FS-relative path: "+l[7:], map[string]any{"chain": chain})
		case strings.HasPrefix(l, "CALLS "):
			n, _ := strconv.Atoi(strings.TrimSpace(l[6:]))
			res.Count("kernel_calls", n)
		}
	}
	f, err := os.Open(logf)
	if err != nil {
		res.Inconclusive = err.Error()
		return
	}
	defer f.Close()
	defer os.Remove(logf)
	sc := bufio.NewScanner(f)
	sc.Buffer(make([]byte, 1<<20), 1<<26)
	in, invalid := false, false
	seen := 0
	for sc.Scan() {
		m := c04markRe.FindStringSubmatch(sc.Text())
		if m == nil || m[1] != tid {
			continue
		}
		arg := m[3]
		if strings.HasPrefix(arg, "/VERIF-MARK-") {
			in = strings.Contains(arg, "-b-")
			invalid = strings.Contains(arg, "-i-")
			continue
		}
		if invalid {
			// a call with an invalid name is running: nothing may reach the kernel at all
			res.Violate("C09|linux|kernel|syscall-for-invalid-name", fmt.Sprintf("a %s syscall (%q) was issued while an operation with an invalid name was running: invalid names must be refused before any OS call", m[2], arg), map[string]any{"chain": chain, "syscall": sc.Text()})
			invalid = false
			continue
		}
		if !in || !strings.HasPrefix(arg, "/") {
			continue
		}
		seen++
		if arg != root && !strings.HasPrefix(arg, root+"/") {
			res.Violate("C09|linux|kernel|path-outside-root", fmt.Sprintf("a %s syscall was issued for %q, outside the root %q", m[2], arg, root), map[string]any{"chain": chain, "syscall": sc.Text()})
		}
	}
	res.Count("kernel_paths_seen", seen)
	res.Nontrivial = seen > 0
	if seen == 0 {
		res.Inconclusive = "strace monitor saw no path between the markers"
	}
}

func c09straceChild(args []string) int {
	if len(args) < 2 {
		return 2
	}
	base := args[0]
	var chain []string
	if args[1] != "" {
		chain = strings.Split(args[1], "|")
	}
	runtime.LockOSThread()
	inner := filepath.Join(base, "jail")
	_ = os.MkdirAll(inner, 0o777)
	if err := core.Jail(base); err != nil {
		fmt.Println("NOJAIL", err)
		return 2
	}
	base = "/jail" // all paths below are relative to the chroot
	root := base
	for _, e := range rootElems(chain) {
		root += "/" + e
	}
	_ = os.MkdirAll(root, 0o777)
	_ = os.WriteFile(filepath.Join(filepath.Dir(root), "outside-file"), []byte("x"), 0o644)
	var cur hackpadfs.FS
	cur, err := hpos.NewFS().Sub(base[1:])
	if err != nil {
		return 2
	}
	var hs fsx.Handles
	for _, d := range chain {
		// failing calls on every intermediate file system before the next Sub: nothing learnt from them may leak into the child
		for _, st := range []fsx.Step{{K: "Stat", P: "missing-on-parent"}, {K: "Rename", P: "missing-on-parent", P2: "x"}, {K: "Mkdir", P: "missing-on-parent/x", Perm: 0o755}} {
			_ = fsx.Exec(cur, st, &hs, nil)
		}
		if cur, err = cur.(*hpos.FS).Sub(d); err != nil {
			return 2
		}
	}
	// Sub itself validates its argument, on a file system that already has a root as well: a dir whose JOIN with the root is
	// a fine path ("../other" below "a/b") is still an invalid name, and accepting it would move the view out of its parent
	for _, bad := range []string{"../other", "..", "x/../../..", "/etc", "", "x/", "./x", "x//y", "../" + filepath.Base(root)} {
		v, err := cur.(*hpos.FS).Sub(bad)
		if err == nil || !errors.Is(err, hackpadfs.ErrInvalid) {
			where := ""
			if osfs, ok := v.(*hpos.FS); ok && osfs != nil {
				if p, perr := osfs.ToOSPath("probe"); perr == nil {
					where = " (the view maps \"probe\" to " + p + ")"
				}
			}
			fmt.Printf("BADERR Sub(%q) on a file system with %d Sub roots -> %v, want ErrInvalid%s\n", bad, len(chain)+1, err, where)
		}
	}
	fmt.Printf("TID %d\n", syscall.Gettid())
	mark := func(tag string) { _ = syscall.Access("/VERIF-MARK-"+tag+"-0", 0) }
	steps := []fsx.Step{
		{K: "Mkdir", P: "d", Perm: 0o755}, {K: "WriteFullFile", P: "d/f", Data: "x", Perm: 0o644}, {K: "Stat", P: "missing"}, {K: "Mkdir", P: "d", Perm: 0o755},
		{K: "Remove", P: "d"}, {K: "Rename", P: "missing", P2: "d/x"}, {K: "Rename", P: "d/f", P2: "nodir/x"}, {K: "ReadDir", P: "d/f"}, {K: "ReadFile", P: "d"},
		{K: "WriteFullFile", P: `a\b`, Data: "bs", Perm: 0o644}, {K: "WriteFullFile", P: "..a", Data: "dots", Perm: 0o644}, {K: "Stat", P: `..\outside-file`}, {K: "Stat", P: "d/..x"},
		{K: "MkdirAll", P: "d/f/g", Perm: 0o755}, {K: "Chmod", P: "nope", Perm: 0o600}, {K: "RemoveAll", P: "d/f/z"}, {K: "OpenClose", P: ".", Flag: os.O_RDWR}, {K: "Stat", P: "."},
		{K: "Symlink", P: "d/f", P2: "d"}, {K: "Lstat", P: "nolink"}, {K: "Chtimes", P: "zz", MTime: 5}, {K: "Create", P: "d/f/under-file"},
	}
	// names that begin with the very elements the root consists of (root tmp/root, name tmp/root/missing/x): the
	// error names the caller's name, not what is left after taking the root off twice
	for _, rel := range []string{strings.Join(rootElems(chain), "/"), strings.TrimPrefix(root, "/")} {
		if rel == "" {
			continue
		}
		for _, k := range []string{"Create", "Stat", "Mkdir", "OpenClose", "Remove", "ReadFile", "Chmod", "Lstat"} {
			steps = append(steps, fsx.Step{K: k, P: rel + "/missing/x", Perm: 0o755, Flag: os.O_RDWR | os.O_CREATE})
		}
		steps = append(steps, fsx.Step{K: "Mkdir", P: rel, Perm: 0o755}, fsx.Step{K: "Mkdir", P: rel, Perm: 0o755}, fsx.Step{K: "Create", P: rel}, fsx.Step{K: "Rename", P: rel + "/nope", P2: rel + "/nope2"})
	}
	n := 0
	for _, st := range steps {
		mark("b")
		r := fsx.Exec(cur, st, &hs, nil)
		mark("e")
		n++
		if !r.OK() {
			bad := ""
			switch r.Typ {
			case "PathError":
				related := r.EPath == st.P
				if st.K == "MkdirAll" || st.K == "RemoveAll" { // may name an ancestor or a descendant of the argument
					related = related || strings.HasPrefix(st.P, r.EPath+"/") || strings.HasPrefix(r.EPath, st.P+"/")
				}
				if r.EPath == "" || strings.HasPrefix(r.EPath, "/") || (strings.Contains(r.EPath, "jail") && !strings.Contains(st.P, "jail")) || !related {
					bad = fmt.Sprintf("%s -> Path=%q", st, r.EPath)
				}
			case "LinkError":
				if r.EOld != st.P || r.ENew != st.P2 {
					bad = fmt.Sprintf("%s -> Old=%q New=%q", st, r.EOld, r.ENew)
				}
			default:
				bad = fmt.Sprintf("%s -> untyped %s", st, r.ErrText)
			}
			if bad != "" {
				fmt.Println("BADERR " + bad)
			}
		}
	}
	// errors coming back from the OS through an open HANDLE name the FS-relative path the handle was opened with as well
	_ = hackpadfs.WriteFullFile(cur, "hf", []byte("0123456789"), 0o644)
	_ = hackpadfs.Mkdir(cur, "hd", 0o755)
	for _, hc := range []struct {
		name string
		flag int
	}{{"hf", os.O_RDONLY}, {"hf", os.O_WRONLY}, {"hd", os.O_RDONLY}, {"hf", -1}} {
		flag := hc.flag
		if flag < 0 {
			flag = os.O_RDWR
		}
		mark("b")
		h, oerr := hackpadfs.OpenFile(cur, hc.name, flag, 0)
		if oerr != nil {
			mark("e")
			fmt.Printf("BADERR OpenFile(%q, %d) -> %v\n", hc.name, flag, oerr)
			continue
		}
		if hc.flag < 0 {
			_ = h.Close() // every call below fails on a closed handle
		}
		buf := make([]byte, 4)
		calls := []struct {
			op string
			f  func() error
		}{
			{"Read", func() error { _, err := h.Read(buf); return err }},
			{"ReadAt", func() error { _, err := hackpadfs.ReadAtFile(h, buf, 1); return err }},
			{"ReadAt(-1)", func() error { _, err := hackpadfs.ReadAtFile(h, buf, -1); return err }},
			{"Write", func() error { _, err := hackpadfs.WriteFile(h, []byte("w")); return err }},
			{"WriteAt", func() error { _, err := hackpadfs.WriteAtFile(h, []byte("w"), 2); return err }},
			{"WriteAt(-1)", func() error { _, err := hackpadfs.WriteAtFile(h, []byte("w"), -1); return err }},
			{"ReadFrom", func() error {
				rf, ok := h.(io.ReaderFrom)
				if !ok {
					return nil
				}
				_, err := rf.ReadFrom(strings.NewReader("from"))
				return err
			}},
			{"Seek(-1)", func() error { _, err := hackpadfs.SeekFile(h, -1, io.SeekStart); return err }},
			{"Seek(whence 9)", func() error { _, err := hackpadfs.SeekFile(h, 0, 9); return err }},
			{"Truncate", func() error { return hackpadfs.TruncateFile(h, 3) }},
			{"Truncate(-1)", func() error { return hackpadfs.TruncateFile(h, -1) }},
			{"ReadDir", func() error { _, err := hackpadfs.ReadDirFile(h, -1); return err }},
			{"Sync", func() error { return hackpadfs.SyncFile(h) }},
			{"Chmod", func() error { return hackpadfs.ChmodFile(h, 0o644) }},
			{"Stat", func() error { _, err := h.Stat(); return err }},
			{"Close", func() error { return h.Close() }},
			{"Close again", func() error { return h.Close() }},
		}
		for _, c := range calls {
			var err error
			if p := core.Recover(func() { err = c.f() }); p != "" {
				fmt.Printf("BADERR %s on the handle of %q (flag %d) panicked: %s\n", c.op, hc.name, hc.flag, p)
				continue
			}
			n++
			if err == nil || err == io.EOF {
				continue
			}
			var pe *hackpadfs.PathError
			if errors.As(err, &pe) {
				if pe.Path != hc.name {
					fmt.Printf("BADERR %s on the handle opened as %q (flag %d) -> Path=%q [%v]\n", c.op, hc.name, hc.flag, pe.Path, err)
				}
			} else if strings.Contains(err.Error(), "jail") {
				fmt.Printf("BADERR %s on the handle opened as %q (flag %d) -> %v (an OS path in an untyped error)\n", c.op, hc.name, hc.flag, err)
			}
		}
		mark("e")
	}
	// invalid names, alone and as either name of a two-name operation: refused as ErrInvalid, naming the arguments, before any OS call
	for _, bad := range []string{"", "../b", "b/", "/b", "x/../b", "./b", "d//f", "..", "d/.."} {
		for _, st := range []fsx.Step{{K: "Stat", P: bad}, {K: "OpenClose", P: bad, Flag: os.O_RDWR | os.O_CREATE, Perm: 0o644}, {K: "Mkdir", P: bad, Perm: 0o755}, {K: "MkdirAll", P: bad, Perm: 0o755}, {K: "Remove", P: bad}, {K: "RemoveAll", P: bad},
			{K: "Chmod", P: bad, Perm: 0o600}, {K: "Chtimes", P: bad, MTime: 5}, {K: "Chtimes", P: bad, N: 2}, {K: "ReadDir", P: bad}, {K: "Lstat", P: bad},
			{K: "Rename", P: bad, P2: "d/f"}, {K: "Rename", P: "d/f", P2: bad}, {K: "Rename", P: "..a", P2: bad}, {K: "Symlink", P: "d/f", P2: bad}} {
			mark("i")
			r := fsx.Exec(cur, st, &hs, nil)
			mark("e")
			n++
			two := st.K == "Rename" || st.K == "Symlink"
			if r.Err != "ErrInvalid" || (!two && r.EPath != st.P) || (two && (r.EOld != st.P || r.ENew != st.P2)) {
				fmt.Printf("BADERR %s (invalid name) -> %s Path=%q Old=%q New=%q\n", st, r, r.EPath, r.EOld, r.ENew)
			}
		}
	}
	// the file system without any root (NewFS() itself): OS errors name the caller's name there as well, not the absolute path
	unrooted := hpos.NewFS()
	var uh fsx.Handles
	for _, st := range []fsx.Step{{K: "Stat", P: root[1:] + "/missing-u"}, {K: "Mkdir", P: root[1:] + "/missing-u/x", Perm: 0o755}, {K: "Remove", P: root[1:] + "/missing-u"}, {K: "ReadFile", P: root[1:] + "/missing-u"},
		{K: "OpenClose", P: root[1:] + "/missing-u/f", Flag: os.O_RDWR | os.O_CREATE, Perm: 0o644}, {K: "Rename", P: root[1:] + "/missing-u", P2: root[1:] + "/missing-v"}, {K: "Chmod", P: root[1:] + "/missing-u", Perm: 0o600}} {
		mark("b")
		r := fsx.Exec(unrooted, st, &uh, nil)
		mark("e")
		n++
		switch {
		case r.OK():
		case r.Typ == "PathError" && r.EPath != st.P:
			fmt.Printf("BADERR (file system without a root) %s -> Path=%q\n", st, r.EPath)
		case r.Typ == "LinkError" && (r.EOld != st.P || r.ENew != st.P2):
			fmt.Printf("BADERR (file system without a root) %s -> Old=%q New=%q\n", st, r.EOld, r.ENew)
		}
	}
	fmt.Printf("CALLS %d\n", n)
	return 0
}
