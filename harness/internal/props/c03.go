package props

import (
	"errors"
	"fmt"
	"os"
	"runtime"
	"strings"
	"sync"
	"time"

	"hpverif/internal/core"
	"hpverif/internal/fsx"
	"hpverif/internal/kvs"

	"github.com/hack-pad/hackpadfs"
	"github.com/hack-pad/hackpadfs/keyvalue"
	"github.com/hack-pad/hackpadfs/mem"
	"github.com/hack-pad/hackpadfs/mount"
)

// C03: the namespace is always a well-formed tree (closure walker after every step, on the subject alone).

type c03subject struct {
	name    string
	fs      hackpadfs.FS // what the history is driven through
	whole   hackpadfs.FS // what the invariant is evaluated on (the parent of a view)
	budget  *kvs.Budget
	viewTop bool // history must not remove/rename '.' (it is a directory of the parent, not a root)
}

func budgetedMem(b *kvs.Budget) (hackpadfs.FS, error) {
	return keyvalue.NewFS(kvs.WrapTxn(mem.NewStoreVerif(), b.Hook))
}

// newMount3 builds a mount.FS over budgeted in-memory file systems with mount points a, a/b, ab and c/a.
func newMount3(b *kvs.Budget) (*mount.FS, map[string]hackpadfs.FS, error) {
	parts := map[string]hackpadfs.FS{}
	root, err := budgetedMem(b)
	if err != nil {
		return nil, nil, err
	}
	parts["."] = root
	m, err := mount.NewFS(root)
	if err != nil {
		return nil, nil, err
	}
	// an attempt to mount over the root itself: refused, or else whatever it leaves behind is walked like everything else
	if over, err := budgetedMem(b); err == nil {
		_ = hackpadfs.WriteFullFile(over, "only-in-the-fs-mounted-over-the-root", []byte("x"), 0o644)
		_ = m.AddMount(".", over)
	}
	for _, p := range []string{"a", "a/b", "ab", "c/a"} {
		if err := hackpadfs.MkdirAll(m, p, 0o755); err != nil {
			return nil, nil, fmt.Errorf("mkdir %s: %w", p, err)
		}
		f, err := budgetedMem(b)
		if err != nil {
			return nil, nil, err
		}
		if err := m.AddMount(p, f); err != nil {
			return nil, nil, fmt.Errorf("addmount %s: %w", p, err)
		}
		parts[p] = f
	}
	return m, parts, nil
}

var c03subjectNames = []string{"memc", "kvplain", "mount", "sub(memc,a)", "sub(mount,a)", "sub(mount,.)", "sub(sub(memc,a),b)"}

func newC03Subject(name string) (*c03subject, error) {
	b := &kvs.Budget{Max: fsx.StoreCallBudget}
	switch name {
	case "memc":
		f, err := budgetedMem(b)
		return &c03subject{name: name, fs: f, whole: f, budget: b}, err
	case "kvplain":
		p := kvs.NewPlain()
		p.Hook = b.Hook
		f, err := keyvalue.NewFS(p)
		return &c03subject{name: name, fs: f, whole: f, budget: b}, err
	case "mount":
		m, _, err := newMount3(b)
		return &c03subject{name: name, fs: m, whole: m, budget: b}, err
	case "sub(memc,a)", "sub(sub(memc,a),b)":
		f, err := budgetedMem(b)
		if err != nil {
			return nil, err
		}
		if err := hackpadfs.MkdirAll(f, "a/b", 0o755); err != nil {
			return nil, err
		}
		v, err := hackpadfs.Sub(f, "a")
		if err == nil && name != "sub(memc,a)" {
			v, err = hackpadfs.Sub(v, "b")
		}
		return &c03subject{name: name, fs: v, whole: f, budget: b, viewTop: true}, err
	case "sub(mount,a)", "sub(mount,.)":
		m, _, err := newMount3(b)
		if err != nil {
			return nil, err
		}
		dir := "a"
		if name == "sub(mount,.)" {
			dir = "."
		}
		v, err := hackpadfs.Sub(m, dir)
		return &c03subject{name: name, fs: v, whole: m, budget: b, viewTop: dir != "."}, err
	}
	return nil, fmt.Errorf("unknown subject %s", name)
}

var c03once sync.Once
var c03directed []c01case

func c03build() {
	c03once.Do(func() {
		c01build()
		c03directed = append(c03directed, c01matrix...)
		add := func(name string, h ...fsx.Step) { c03directed = append(c03directed, c01case{Name: name, Hist: h}) }
		dir, _ := fsx.SituationSetup("deepdir", "a")
		add("remove-root-empty", fsx.Step{K: "Remove", P: "."}, fsx.Step{K: "Mkdir", P: "a", Perm: 0o755})
		add("remove-root-nonempty", append(dir, fsx.Step{K: "Remove", P: "."})...)
		add("removeall-root", append(dir, fsx.Step{K: "RemoveAll", P: "."}, fsx.Step{K: "Mkdir", P: "c", Perm: 0o755})...)
		add("rename-root-away", append(dir, fsx.Step{K: "Rename", P: ".", P2: "c"})...)
		add("rename-root-into-self", append(dir, fsx.Step{K: "Rename", P: ".", P2: "a/c"})...)
		add("rename-onto-root", append(dir, fsx.Step{K: "Rename", P: "a", P2: "."})...)
		add("rename-file-onto-root", fsx.Step{K: "WriteFullFile", P: "c", Data: "x", Perm: 0o644}, fsx.Step{K: "Rename", P: "c", P2: "."})
		add("mkdir-root", fsx.Step{K: "Mkdir", P: ".", Perm: 0o700}, fsx.Step{K: "MkdirAll", P: ".", Perm: 0o700})
		add("write-root", fsx.Step{K: "WriteFullFile", P: ".", Data: "x", Perm: 0o644})
		add("rename-dir-into-own-subtree-with-existing-child", append(dir, fsx.Step{K: "Rename", P: "a", P2: "a/b/ab"}, fsx.Step{K: "Rename", P: "a", P2: "a/b/c/ab"})...)
		add("remove-parent-of-populated-dir", append(dir, fsx.Step{K: "Remove", P: "a"}, fsx.Step{K: "Remove", P: "a/b"}, fsx.Step{K: "RemoveAll", P: "a/b"}, fsx.Step{K: "Remove", P: "a"})...)
		add("file-to-dir-and-back", fsx.Step{K: "WriteFullFile", P: "a", Data: "x", Perm: 0o644}, fsx.Step{K: "Remove", P: "a"}, fsx.Step{K: "Mkdir", P: "a", Perm: 0o755},
			fsx.Step{K: "WriteFullFile", P: "a/b", Data: "y", Perm: 0o644}, fsx.Step{K: "Rename", P: "a/b", P2: "b"}, fsx.Step{K: "Rename", P: "b", P2: "a/b"}, fsx.Step{K: "Rename", P: "a", P2: "ab"}, fsx.Step{K: "Remove", P: "a"})
		// metadata and data calls through open handles (also handles on directories and on the root)
		for _, target := range []string{"a", "."} {
			for _, op := range []fsx.Step{{K: "H.Chmod", Perm: 0o700}, {K: "H.Chmod", Perm: 0o644}, {K: "H.Chtimes", MTime: 1_500_000_000}, {K: "H.Truncate", Off: 0}, {K: "H.Truncate", Off: 5}, {K: "H.Write", Data: "x"}, {K: "H.WriteAt", Data: "x", Off: 2}, {K: "H.Sync"}} {
				add("handle-on-dir:"+target+":"+op.K, append(append([]fsx.Step(nil), dir...), fsx.Step{K: "Open", P: target, Flag: os.O_RDONLY}, op, fsx.Step{K: "H.Close"})...)
			}
		}
		// handles that outlive their name: the directory chain above the file is removed (or replaced by a file) and the handle is used again
		for _, op := range []fsx.Step{{K: "H.Write", Data: "late"}, {K: "H.WriteAt", Data: "late", Off: 1}, {K: "H.Truncate", Off: 1}, {K: "H.Chmod", Perm: 0o600}, {K: "H.Chtimes", MTime: 1_500_000_000}, {K: "H.Sync"}, {K: "H.Close"}} {
			add("stale-handle:parent-removed:"+op.K, append(append([]fsx.Step(nil), dir...), fsx.Step{K: "Open", P: "a/b/c", Flag: os.O_RDWR}, fsx.Step{K: "RemoveAll", P: "a"}, op, fsx.Step{K: "H.Close"})...)
			add("stale-handle:parent-now-file:"+op.K, append(append([]fsx.Step(nil), dir...), fsx.Step{K: "Open", P: "a/b/c", Flag: os.O_RDWR}, fsx.Step{K: "RemoveAll", P: "a"}, fsx.Step{K: "WriteFullFile", P: "a", Data: "f", Perm: 0o644}, op, fsx.Step{K: "H.Close"})...)
			add("stale-handle:dir-at-its-path:"+op.K, []fsx.Step{{K: "WriteFullFile", P: "c", Data: "file", Perm: 0o644}, {K: "Open", P: "c", Flag: os.O_RDWR}, {K: "Remove", P: "c"}, {K: "Mkdir", P: "c", Perm: 0o755}, {K: "WriteFullFile", P: "c/ab", Data: "child", Perm: 0o644}, op, {K: "H.Close"}}...)
			add("stale-handle:renamed-away:"+op.K, append(append([]fsx.Step(nil), dir...), fsx.Step{K: "Open", P: "a/b/c", Flag: os.O_RDWR}, fsx.Step{K: "Rename", P: "a", P2: "c"}, op, fsx.Step{K: "H.Close"})...)
		}
		// a move across mount points onto an existing file, next to entries that look like the library's temporary names
		add("rename-across-mount-points-over-existing-next-to-temp-lookalikes", fsx.Step{K: "WriteFullFile", P: "b", Data: "top", Perm: 0o644}, fsx.Step{K: "WriteFullFile", P: "a/c", Data: "old", Perm: 0o600},
			fsx.Step{K: "WriteFullFile", P: "a/c.rename-0", Data: "bystander0", Perm: 0o644}, fsx.Step{K: "WriteFullFile", P: "a/c.rename-1", Data: "bystander1", Perm: 0o644}, fsx.Step{K: "WriteFullFile", P: "a/.c.rename-0", Data: "hidden", Perm: 0o644},
			fsx.Step{K: "Rename", P: "b", P2: "a/c"}, fsx.Step{K: "ReadFile", P: "a/c"}, fsx.Step{K: "ReadFile", P: "a/c.rename-0"}, fsx.Step{K: "Rename", P: "a/c", P2: "ab/c"}, fsx.Step{K: "Rename", P: "ab/c", P2: "a/c.rename-1"})
		add("rename-across-mount-points", fsx.Step{K: "WriteFullFile", P: "c", Data: "top", Perm: 0o644}, fsx.Step{K: "Rename", P: "c", P2: "a/c"}, fsx.Step{K: "Rename", P: "a/c", P2: "a/b/c"},
			fsx.Step{K: "Rename", P: "a/b/c", P2: "ab/c"}, fsx.Step{K: "Rename", P: "ab/c", P2: "c"}, fsx.Step{K: "Rename", P: "a", P2: "b"}, fsx.Step{K: "Rename", P: "a/b", P2: "b"}, fsx.Step{K: "RemoveAll", P: "a"})
	})
}

func c03layout(env *core.Env) (directed, random int) {
	c03build()
	return len(c03directed) * len(c03subjectNames), env.Pick(400, 12000) * len(c03subjectNames)
}

// c03faultHistories: multi-record operations whose steps are ordered so that a store failure in the middle leaves a
// well-formed tree (new directory written before its children move, old one deleted last ...). One store call fails per run.
func c03faultHistories() [][]fsx.Step {
	deep := []fsx.Step{{K: "Mkdir", P: "a", Perm: 0o755}, {K: "WriteFullFile", P: "a/b", Data: "1", Perm: 0o644}, {K: "WriteFullFile", P: "a/ab", Data: "2", Perm: 0o600},
		{K: "Mkdir", P: "a/c", Perm: 0o755}, {K: "WriteFullFile", P: "a/c/b", Data: "3", Perm: 0o644}}
	var hs [][]fsx.Step
	for _, op := range []fsx.Step{
		{K: "Rename", P: "a", P2: "c"},
		{K: "Rename", P: "a/c", P2: "b"},
		{K: "RemoveAll", P: "a"},
		{K: "Remove", P: "a/b"},
		{K: "Remove", P: "a"},   // not empty: must stay whatever fails on the way
		{K: "Remove", P: "a/c"}, // not empty either
		{K: "Rename", P: "a/c", P2: "a/b"},
		{K: "MkdirAll", P: "b/c/ab", Perm: 0o755},
		{K: "MkdirAll", P: "a/c/ab/b", Perm: 0o700},
		{K: "OpenClose", P: "a", Flag: os.O_RDWR | os.O_CREATE, Perm: 0o644, Data: "x"},
		{K: "OpenClose", P: "a/c", Flag: os.O_WRONLY | os.O_CREATE | os.O_TRUNC, Perm: 0o644, Data: "x"},
		{K: "WriteFullFile", P: "a/c", Data: "over a directory", Perm: 0o644},
		{K: "WriteFullFile", P: "a/b", Data: "replace", Perm: 0o600},
		{K: "Mkdir", P: "a/b", Perm: 0o755},
		{K: "Chmod", P: "a/c", Perm: 0o700},
		{K: "Rename", P: "a/b", P2: "a/c/b"},
		{K: "Rename", P: "a/b", P2: "a/c"},
	} {
		hs = append(hs, append(append([]fsx.Step(nil), deep...), op))
	}
	return hs
}

func init() {
	core.Register(&core.Prop{
		ID:    "C03",
		Level: "exploration",
		Rule: "invariant walker: after every step (successful or failed) of a history the complete closure of candidate paths (alphabet a,b,c,ab to depth 3 plus every listed name, not only what listings reveal) is probed with Stat, Open, handle Stat and ReadDir and checked for: root is a directory; every existing path has a directory parent that lists it; every listed entry can be Stat'ed and opened with agreeing kinds; no duplicate names. " +
			"Termination is decided on logical steps: one operation may make at most 3000 store calls. Subjects: keyvalue.FS over the real mem store, over a plain Store, mount.FS with mount points a, a/b, ab, c/a, and Sub views (dir, mount point, '.', nested). Cases: the C01 situation matrix plus root removal/rename and own-subtree renames on every subject, random histories incl. operations on the root, and multi-record operations (directory rename, RemoveAll, MkdirAll, create over a directory) repeated with each of their store calls failing once. Non-trivial: >=1 mutation succeeded and >=1 step failed; distinct by subject+history",
		Assumptions: []string{"for Sub views the history does not remove or rename the view's own top directory (it is an ordinary directory of the parent); the invariant is evaluated on the parent file system", "store-call budget 3000 per operation on trees of <= 40 entries stands in for 'every operation terminates'"},
		NumCases:    func(env *core.Env) int { d, r := c03layout(env); return d + r + len(c03faultHistories()) },
		Batch:       150,
		Run:         c03run,
		Floor: func(env *core.Env, agg *core.Agg) string {
			if agg.Counters["states_walked"] < 5000 || agg.Counters["probes"] < 200000 || agg.DistinctCount("tree_shapes") < 100 {
				return fmt.Sprintf("states=%d probes=%d shapes=%d", agg.Counters["states_walked"], agg.Counters["probes"], agg.DistinctCount("tree_shapes"))
			}
			return ""
		},
	})
}

// c03faultRun: the last operation of the history is repeated on a fresh keyvalue.FS over a plain store once per store
// call it makes, with that call failing; after the failing (or surviving) operation the closure must be a tree.
func c03faultRun(env *core.Env, hist []fsx.Step, res *core.CaseResult) {
	cands := fsx.Candidates(fsx.Names, 3)
	run := func(failAt int) (calls int, fired bool, r fsx.Result, fsys hackpadfs.FS) {
		p := kvs.NewPlain()
		fsys, _ = keyvalue.NewFS(p)
		var hs fsx.Handles
		for _, st := range hist[:len(hist)-1] {
			_ = fsx.Exec(fsys, st, &hs, nil)
		}
		p.Hook = func(ev kvs.Event) error {
			calls++
			if calls-1 == failAt {
				fired = true
				return errors.New("injected store failure")
			}
			return nil
		}
		r = fsx.Exec(fsys, hist[len(hist)-1], &hs, nil)
		p.Hook = nil
		hs.CloseAll()
		return
	}
	n, _, _, _ := run(-1)
	op := hist[len(hist)-1]
	for k := 0; k < n; k++ {
		_, fired, r, fsys := run(k)
		if !fired {
			continue
		}
		res.Count("fault_states_walked", 1)
		probs, probes := fsx.Closure(fsys, cands)
		res.Count("probes", probes)
		res.Count("states_walked", 1)
		for _, pr := range probs {
			res.Violate(fmt.Sprintf("C03|kv|%s|store-failure-in-the-middle|%s", op.K, pr[0]), fmt.Sprintf("[kvplain] %s with store call #%d of %d failing (result %s): %s", op, k, n, r, pr[1]), map[string]any{"history": fsx.HistoryString(hist), "fault_index": k})
			break
		}
	}
	res.Nontrivial = n > 1
	res.Key = core.Hash("fault|" + fsx.HistoryString(hist))
}

func c03run(env *core.Env, idx int) core.CaseResult {
	var res core.CaseResult
	d, rnd := c03layout(env)
	if idx >= d+rnd {
		c03faultRun(env, c03faultHistories()[idx-d-rnd], &res)
		return res
	}
	ns := len(c03subjectNames)
	sname := c03subjectNames[idx%ns]
	var cs c01case
	random := idx >= d
	if !random {
		cs = c03directed[idx/ns]
	} else {
		cs = c01case{Name: fmt.Sprintf("random-%d", (idx-d)/ns)}
	}
	sub, err := newC03Subject(sname)
	if err != nil {
		res.Violate("C03|"+sname+"|setup|got=fail,want=ok", "cannot build subject: "+err.Error(), nil)
		return res
	}
	cands := fsx.Candidates(fsx.Names, 3)
	if sub.viewTop {
		// the invariant is evaluated on the parent: the view's names lie one or two levels deeper there
		top := map[string]string{"sub(memc,a)": "a", "sub(mount,a)": "a", "sub(sub(memc,a),b)": "a/b"}[sname]
		for _, c := range fsx.Candidates(fsx.Names, 3) {
			if c != "." {
				cands = append(cands, top+"/"+c)
			}
		}
	}
	var gen *fsx.Gen
	nsteps := len(cs.Hist)
	if random {
		gen = fsx.NewGen(env.Seed*2_000_003+int64(idx), fmt.Sprintf("w%d", idx))
		nsteps = 4 + gen.R.Intn(env.Pick(22, 36))
	}
	var hs fsx.Handles
	defer hs.CloseAll()
	var hist []fsx.Step
	slots := map[int][2]string{} // slot -> path, situation of the path when the handle was opened
	okMut, failed := 0, 0
	tree, _ := fsx.Snapshot(sub.fs, nil)
	check := func(st fsx.Step, sit string, i int, sigOps ...string) bool {
		opName := st.K
		if len(sigOps) > 0 {
			opName = sigOps[0]
		}
		probs, probes := fsx.Closure(sub.whole, cands)
		res.Count("states_walked", 1)
		res.Count("probes", probes)
		for _, p := range probs {
			res.Violate(fmt.Sprintf("C03|%s|%s|%s|%s", subjKind(sname), opName, sit, p[0]),
				fmt.Sprintf("[%s] after step %d %s: %s", sname, i, st, p[1]), map[string]any{"subject": sname, "history": fsx.HistoryString(hist)})
		}
		return len(probs) == 0
	}
	if !check(fsx.Step{K: "init"}, "fresh", -1) {
		return res
	}
	for i := 0; i < nsteps; i++ {
		var st fsx.Step
		if random {
			for try := 0; ; try++ {
				st = gen.Namespace(tree, !sub.viewTop)
				if gen.R.Intn(5) == 0 {
					st = c03handleStep(gen, tree)
					if o, ok := slots[st.Slot]; ok && strings.HasPrefix(st.K, "H.") && st.K != "H.Close" {
						if now := fsx.PathSit(sub.fs, o[0]); c03stale(o[1], now) && env.Known.KnownSituation("C03", fmt.Sprintf("C03|%s|H.save|handle:whose-place-is-gone|", subjKind(sname))) {
							st.K = "H.Close" // (F20) do not save through a handle whose directory chain is gone
						}
					}
				}
				if try > 20 || !env.Known.KnownSituation("C03", fmt.Sprintf("C03|%s|%s|%s|", subjKind(sname), st.K, c03sit(sname, sub.fs, st))) {
					break
				}
			}
		} else {
			st = cs.Hist[i]
			if sub.viewTop && (st.P == "." || st.P2 == ".") && fsx.Mutates(st) && (st.K == "Remove" || st.K == "RemoveAll" || st.K == "Rename") {
				continue
			}
		}
		sit := c03sit(sname, sub.fs, st)
		sigOp := st.K
		if strings.HasPrefix(st.K, "H.") {
			// a handle call: what the handle was opened on, and what its path names now
			sit = "handle:none"
			if o, ok := slots[st.Slot]; ok {
				now := fsx.PathSit(sub.fs, o[0])
				sit = fmt.Sprintf("handle:opened=%s,now=%s", o[1], now)
				if c03stale(o[1], now) {
					// one situation (F20): a file handle whose place in the tree is gone (no parent any more, or a directory
					// with children stands at its path now); which mutator saves the record back does not matter
					sit = "handle:whose-place-is-gone"
					sigOp = "H.save"
				}
			}
		}
		hist = append(hist, st)
		sub.budget.Reset()
		openedOn := ""
		if st.K == "Open" {
			openedOn = fsx.PathSit(sub.fs, st.P)
			delete(slots, st.Slot)
		}
		var r fsx.Result
		if strings.Contains(sname, "mount") && (st.K == "Rename" || st.K == "RemoveAll" || st.K == "MkdirAll") {
			// the composition layer has loops of its own that make no store calls: the budget cannot see those
			stuck, why := c03noProgress(sub.budget, func() { r = fsx.Exec(sub.fs, st, &hs, nil) })
			if stuck {
				if why == "" {
					res.Inconclusive = "an operation did not return, no witness of where it is"
				} else {
					res.Violate(fmt.Sprintf("C03|%s|%s|%s|nontermination", subjKind(sname), st.K, sit), fmt.Sprintf("[%s] %s did not return: %s", sname, st, why), map[string]any{"subject": sname, "history": fsx.HistoryString(hist)})
				}
				break
			}
		} else {
			r = fsx.Exec(sub.fs, st, &hs, nil)
		}
		if st.K == "Open" && r.OK() {
			if openedOn == "missing" {
				openedOn = "created"
			}
			slots[st.Slot] = [2]string{st.P, openedOn}
		}
		if st.K == "H.Close" {
			delete(slots, st.Slot)
		}
		if env.Verbose {
			fmt.Printf("step %d %-45s [%s] -> %s\n", i, st, sit, r)
		}
		wit := map[string]any{"subject": sname, "history": fsx.HistoryString(hist)}
		if strings.Contains(r.Panic, "budget exceeded") {
			res.Violate(fmt.Sprintf("C03|%s|%s|%s|nontermination", subjKind(sname), st.K, sit), fmt.Sprintf("[%s] %s made more than %d store calls (runaway recursion)", sname, st, fsx.StoreCallBudget), wit)
			break // the store lock may be held by the abandoned operation
		}
		if r.Panic != "" {
			res.Violate(fmt.Sprintf("C03|%s|%s|%s|panic", subjKind(sname), st.K, sit), fmt.Sprintf("[%s] %s panicked: %s", sname, st, r.Panic), wit)
			break
		}
		if r.OK() && fsx.Mutates(st) {
			okMut++
		}
		if !r.OK() {
			failed++
			res.Count("failed_steps_checked", 1)
		}
		res.Count("op:"+st.K, 1)
		if !check(st, sit, i, sigOp) {
			break
		}
		if t2, prob := fsx.Snapshot(sub.fs, nil); prob == "" {
			tree = t2
			res.Seen("tree_shapes", sname+t2.Shape())
		}
	}
	res.Key = core.Hash(sname + "|" + fsx.HistoryString(hist))
	res.Nontrivial = okMut > 0 && failed > 0
	res.Count("subject:"+sname, 1)
	if idx%211 == 0 {
		res.Sample = map[string]any{"subject": sname, "case": cs.Name, "history": fsx.HistoryString(hist)}
	}
	return res
}

// c03handleStep opens existing paths (files, directories, the root) into slots 0..2 and calls the handle's mutators.
// Handles whose path was removed, renamed or replaced meanwhile stay in their slots and keep being used.
// c03noProgress runs f and reports whether it failed to return: after 15 s without an answer the store-call counter is
// read twice, 3 s apart, and all goroutines are dumped. The witness is "no store call in between, and a goroutine
// running inside the library" (a loop that never asks the store anything) or "parked on a lock".
func c03noProgress(b *kvs.Budget, f func()) (stuck bool, witness string) {
	done := make(chan struct{})
	go func() { defer close(done); f() }()
	t := time.NewTimer(15 * time.Second)
	defer t.Stop()
	select {
	case <-done:
		return false, ""
	case <-t.C:
	}
	before := b.TotalCalls()
	select {
	case <-done:
		return false, ""
	case <-time.After(3 * time.Second):
	}
	after := b.TotalCalls()
	buf := make([]byte, 1<<18)
	d := string(buf[:runtime.Stack(buf, true)])
	for _, g := range strings.Split(d, "\n\n") {
		if !strings.Contains(g, "github.com/hack-pad/hackpadfs") {
			continue
		}
		head := g
		if i := strings.Index(g, "\n"); i > 0 {
			head = g[:i]
		}
		fn := ""
		for _, l := range strings.Split(g, "\n")[1:] {
			if strings.HasPrefix(l, "github.com/hack-pad/hackpadfs") {
				fn = strings.TrimPrefix(l, "github.com/hack-pad/hackpadfs")
				if i := strings.Index(fn, "("); i > 0 && !strings.HasPrefix(fn, "/") {
					fn = fn[:i]
				}
				break
			}
		}
		switch {
		case strings.Contains(g, "sync.(*Mutex).Lock") || strings.Contains(g, "sync.(*RWMutex)") || strings.Contains(g, "semacquire"):
			return true, "18 s later it is parked on a lock inside " + fn
		case after == before && (strings.Contains(head, "[running") || strings.Contains(head, "[runnable")):
			return true, fmt.Sprintf("18 s later it is still running inside %s and made no store call in the last 3 s (%d in all)", fn, after)
		}
	}
	return true, ""
}

func c03handleStep(g *fsx.Gen, tree fsx.Snap) fsx.Step {
	slot := g.R.Intn(3)
	switch k := g.R.Intn(20); {
	case k < 6:
		fl := []int{os.O_RDONLY, os.O_RDONLY, os.O_RDWR, os.O_WRONLY, os.O_RDWR | os.O_APPEND, os.O_RDWR | os.O_CREATE}[g.R.Intn(6)]
		return fsx.Step{K: "Open", P: g.Path(tree), Flag: fl, Perm: 0o644, Slot: slot}
	case k < 9:
		return fsx.Step{K: "H.Chmod", Slot: slot, Perm: fsx.ChmodModes[g.R.Intn(len(fsx.ChmodModes))]}
	case k < 11:
		return fsx.Step{K: "H.Chtimes", Slot: slot, MTime: 1_400_000_000 + int64(g.R.Intn(100000))}
	case k < 13:
		return fsx.Step{K: "H.Truncate", Slot: slot, Off: int64(g.R.Intn(12))}
	case k < 16:
		return fsx.Step{K: "H.Write", Slot: slot, Data: g.Content()}
	case k < 17:
		return fsx.Step{K: "H.WriteAt", Slot: slot, Data: g.Content(), Off: int64(g.R.Intn(12))}
	case k < 18:
		return fsx.Step{K: "H.Sync", Slot: slot}
	default:
		return fsx.Step{K: "H.Close", Slot: slot}
	}
}

// c03stale: the handle's place in the tree is gone - the directories above its path were removed or replaced by a
// file, or (for a file handle) a directory stands at its path now. Saving its record back there is F20's defect.
func c03stale(openedOn, now string) bool {
	if now == "noparent" || now == "belowfile" {
		return true
	}
	return (openedOn == "file" || openedOn == "created") && now == "dir"
}

// subjKind groups subjects for signatures: the store behind a plain keyvalue.FS does not matter to the tree invariant.
func subjKind(name string) string {
	switch {
	case name == "memc" || name == "kvplain":
		return "kv"
	case strings.HasPrefix(name, "sub(mount"):
		return "sub-mount"
	case strings.HasPrefix(name, "sub("):
		return "sub"
	}
	return name
}

// c03sit refines the situation on mount compositions: whether a named path is, or lies above, a mount point
// (a, a/b, ab in the mount's namespace).
func c03sit(sname string, fsys hackpadfs.FS, st fsx.Step) string {
	sit := fsx.Situation(fsys, st)
	if !strings.Contains(sname, "mount") {
		return sit
	}
	covers := func(p string) bool {
		if p == "" {
			return false
		}
		if sname == "sub(mount,a)" {
			if p == "." {
				p = "a"
			} else {
				p = "a/" + p
			}
		}
		for _, mp := range []string{"a", "a/b", "ab", "c/a"} {
			if p == "." || p == mp || strings.HasPrefix(mp, p+"/") {
				return true
			}
		}
		return false
	}
	if covers(st.P) || covers(st.P2) {
		return "covers-mountpoint" // one coarse situation: the operation names a directory that is, or leads to, a mount point
	}
	return sit
}
