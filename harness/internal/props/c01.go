package props

import (
	"fmt"
	"github.com/hack-pad/hackpadfs"
	"os"
	"strings"
	"sync"

	"hpverif/internal/core"
	"hpverif/internal/fsx"
)

// C01: namespace operations on the in-memory / key-value FS behave like the os package.

type c01case struct {
	Name   string     `json:"name"`
	Hist   []fsx.Step `json:"hist"`
	NSetup int        `json:"nsetup,omitempty"` // the first NSetup steps build the situation
}

var c01once sync.Once
var c01matrix []c01case

func c01build() {
	c01once.Do(func() {
		add := func(name string, setup []fsx.Step, ops ...fsx.Step) {
			h := append(append([]fsx.Step(nil), setup...), ops...)
			// a probing tail: the situation after the operation is compared anyway; these chain a follow-up
			c01matrix = append(c01matrix, c01case{Name: name, Hist: h, NSetup: len(setup)})
		}
		for _, sit := range fsx.TargetSituations {
			setup, t := fsx.SituationSetup(sit, "a")
			for _, perm := range []uint32{0o755, 0, 0o777} {
				add("Mkdir/"+sit, setup, fsx.Step{K: "Mkdir", P: t, Perm: perm})
				add("MkdirAll/"+sit, setup, fsx.Step{K: "MkdirAll", P: t, Perm: perm})
			}
			deeper := t + "/c/ab"
			if t == "." {
				deeper = "c/ab"
			}
			add("MkdirAll-deeper/"+sit, setup, fsx.Step{K: "MkdirAll", P: deeper, Perm: 0o750})
			for _, fl := range fsx.AllFlags() {
				add("OpenClose/"+sit, setup, fsx.Step{K: "OpenClose", P: t, Flag: fl, Perm: 0o640, Data: "W-open"},
					fsx.Step{K: "ReadFile", P: t}, fsx.Step{K: "Stat", P: t})
			}
			// flags beyond the seven everybody uses: O_SYNC asks for nothing a file system without a disk has to do
			add("OpenClose-sync/"+sit, setup, fsx.Step{K: "OpenClose", P: t, Flag: os.O_WRONLY | os.O_CREATE | os.O_APPEND | os.O_SYNC, Perm: 0o640, Data: "W-sync"}, fsx.Step{K: "ReadFile", P: t},
				fsx.Step{K: "OpenClose", P: t, Flag: os.O_RDWR | os.O_SYNC, Perm: 0o640, Data: "W2"}, fsx.Step{K: "Stat", P: t})
			if sit != "missing" && sit != "noparent" && sit != "belowfile" && sit != "nested-missing" {
				// (existing targets only: with both times omitted Linux's utimensat succeeds without looking for the file at
				// all, a kernel rule rather than something a file system is to copy)
				add("Chtimes-both-zero/"+sit, setup, fsx.Step{K: "Chtimes", P: t, MTime: 1234567890}, fsx.Step{K: "Chtimes", P: t, N: 2}, fsx.Step{K: "Stat", P: t})
			}
			add("WriteFullFile/"+sit, setup, fsx.Step{K: "WriteFullFile", P: t, Data: "W-full", Perm: 0o600}, fsx.Step{K: "ReadFile", P: t})
			add("WriteFullFile-empty/"+sit, setup, fsx.Step{K: "WriteFullFile", P: t, Data: "", Perm: 0o644})
			// a permission argument that carries file-type bits (somebody passed another entry's whole Mode()): like os, only the
			// permission bits count - what is created is a regular file, or a directory for Mkdir
			add("WriteFullFile-typebits/"+sit, setup, fsx.Step{K: "WriteFullFile", P: t, Data: "W-type", Perm: uint32(os.ModeDir) | 0o644}, fsx.Step{K: "Stat", P: t}, fsx.Step{K: "ReadFile", P: t})
			add("OpenClose-typebits/"+sit, setup, fsx.Step{K: "OpenClose", P: t, Flag: os.O_RDWR | os.O_CREATE, Perm: uint32(os.ModeDir) | 0o750, Data: "W-open"}, fsx.Step{K: "Stat", P: t}, fsx.Step{K: "ReadDir", P: t})
			add("Mkdir-typebits/"+sit, setup, fsx.Step{K: "Mkdir", P: t, Perm: uint32(os.ModeSymlink|os.ModeNamedPipe) | 0o750}, fsx.Step{K: "Stat", P: t}, fsx.Step{K: "MkdirAll", P: deeper, Perm: uint32(os.ModeSymlink) | 0o700}, fsx.Step{K: "Stat", P: deeper})
			if sit != "root" {
				add("Remove/"+sit, setup, fsx.Step{K: "Remove", P: t}, fsx.Step{K: "Stat", P: t})
				add("RemoveAll/"+sit, setup, fsx.Step{K: "RemoveAll", P: t}, fsx.Step{K: "Stat", P: t})
			}
			for _, m := range fsx.ChmodModes {
				add("Chmod/"+sit, setup, fsx.Step{K: "Chmod", P: t, Perm: m}, fsx.Step{K: "Stat", P: t})
			}
			add("Chtimes/"+sit, setup, fsx.Step{K: "Chtimes", P: t, MTime: 1234567890}, fsx.Step{K: "Stat", P: t})
			add("Chtimes-zero-atime/"+sit, setup, fsx.Step{K: "Chtimes", P: t, MTime: 1234567891, N: 1}, fsx.Step{K: "Stat", P: t})
			// the epoch itself and a date before it are ordinary modification times (reproducible archives use 0)
			add("Chtimes-epoch/"+sit, setup, fsx.Step{K: "Chtimes", P: t, MTime: 0}, fsx.Step{K: "Stat", P: t}, fsx.Step{K: "Chmod", P: t, Perm: 0o700})
			add("Chtimes-before-epoch/"+sit, setup, fsx.Step{K: "Chtimes", P: t, MTime: -86400 * 365}, fsx.Step{K: "Stat", P: t})
			// instants outside the range of int64 nanoseconds since 1970 (backup tools restore whatever the archive says)
			add("Chtimes-year-2300/"+sit, setup, fsx.Step{K: "Chtimes", P: t, MTime: 10_413_792_000}, fsx.Step{K: "ReadDir", P: "."})
			add("Chtimes-year-1600/"+sit, setup, fsx.Step{K: "Chtimes", P: t, MTime: -11_676_096_000}, fsx.Step{K: "ReadDir", P: "."})
			add("Stat/"+sit, setup, fsx.Step{K: "Stat", P: t})
			add("ReadDir/"+sit, setup, fsx.Step{K: "ReadDir", P: t})
			add("ReadFile/"+sit, setup, fsx.Step{K: "ReadFile", P: t})
		}
		// Rename: source situation x destination situation, plus the relations between the two names
		for _, ss := range fsx.TargetSituations {
			if ss == "root" {
				continue
			}
			s1, src := fsx.SituationSetup(ss, "a")
			for _, ds := range fsx.TargetSituations {
				if ds == "root" {
					continue
				}
				s2, dst := fsx.SituationSetup(ds, "b")
				add("Rename/"+ss+"->"+ds, append(append([]fsx.Step(nil), s1...), s2...), fsx.Step{K: "Rename", P: src, P2: dst},
					fsx.Step{K: "Stat", P: src}, fsx.Step{K: "Stat", P: dst})
			}
			add("Rename-same/"+ss, s1, fsx.Step{K: "Rename", P: src, P2: src})
			add("Rename-into-self/"+ss, s1, fsx.Step{K: "Rename", P: src, P2: src + "/c"})
			add("Rename-into-self-deep/"+ss, s1, fsx.Step{K: "Rename", P: src, P2: src + "/b/ab"})
			add("Rename-to-prefix-lookalike/"+ss, s1, fsx.Step{K: "Rename", P: src, P2: src + "b"})
		}
		{
			s, _ := fsx.SituationSetup("deepdir", "a")
			add("Rename-child-onto-parent", s, fsx.Step{K: "Rename", P: "a/b", P2: "a"})
			add("Rename-grandchild-onto-ancestor", s, fsx.Step{K: "Rename", P: "a/b/c", P2: "a"})
			add("Rename-dir-keeps-subtree", s, fsx.Step{K: "Rename", P: "a", P2: "c"}, fsx.Step{K: "ReadFile", P: "c/b/c"}, fsx.Step{K: "Rename", P: "c/b", P2: "ab"}, fsx.Step{K: "ReadDir", P: "."})
			add("Rename-lookalike-sibling", append(s, fsx.Step{K: "WriteFullFile", P: "ab", Data: "look", Perm: 0o644}), fsx.Step{K: "Rename", P: "a", P2: "b"}, fsx.Step{K: "ReadFile", P: "ab"})
			// valid names with characters that mean something to some operating system, but not to a file system path
			for _, n := range []string{`a\b`, `a:b`, `C:`, `..a`, `a..`, `...`, `a b`, "ü", `\`} {
				add("unusual-name/"+n, nil, fsx.Step{K: "Mkdir", P: n, Perm: 0o755}, fsx.Step{K: "WriteFullFile", P: n + "/" + n, Data: "x", Perm: 0o644}, fsx.Step{K: "Stat", P: n + "/" + n},
					fsx.Step{K: "Rename", P: n + "/" + n, P2: "c"}, fsx.Step{K: "Rename", P: "c", P2: n + "/c" + n}, fsx.Step{K: "ReadDir", P: n}, fsx.Step{K: "MkdirAll", P: n + "/" + n + "/" + n, Perm: 0o700}, fsx.Step{K: "RemoveAll", P: n})
			}
			// entries whose names begin with a directory's whole name followed by a character that sorts BEFORE the separator
			// (space ! + , - .): in any ordered index they stand between the directory and its children
			for _, c := range []string{" ", "!", "+", ",", "-", "."} {
				sib := "a" + c + "sib"
				add("sibling-sorting-before-children/"+c, append(append([]fsx.Step(nil), s...), fsx.Step{K: "WriteFullFile", P: sib, Data: "sib", Perm: 0o644}, fsx.Step{K: "Mkdir", P: "a" + c, Perm: 0o755}),
					fsx.Step{K: "ReadDir", P: "a"}, fsx.Step{K: "ReadDir", P: "a/b"}, fsx.Step{K: "Remove", P: "a"}, fsx.Step{K: "Rename", P: "a", P2: "c"}, fsx.Step{K: "ReadDir", P: "c"}, fsx.Step{K: "ReadFile", P: sib}, fsx.Step{K: "RemoveAll", P: "c"}, fsx.Step{K: "ReadDir", P: "."})
			}
			// the longest name an operating system takes (255 bytes) is a name like any other
			long := strings.Repeat("L", 255)
			add("longest-name", nil, fsx.Step{K: "Mkdir", P: long, Perm: 0o755}, fsx.Step{K: "WriteFullFile", P: long + "/" + long, Data: "x", Perm: 0o644}, fsx.Step{K: "Stat", P: long + "/" + long},
				fsx.Step{K: "OpenClose", P: long + "/" + long[:254] + "o", Flag: os.O_RDWR | os.O_CREATE | os.O_EXCL, Perm: 0o600, Data: "n"}, fsx.Step{K: "Rename", P: long + "/" + long, P2: "c"}, fsx.Step{K: "Rename", P: "c", P2: long + "/" + long[:254] + "r"},
				fsx.Step{K: "ReadDir", P: long}, fsx.Step{K: "MkdirAll", P: long + "/" + long[:254] + "d/" + long, Perm: 0o700}, fsx.Step{K: "RemoveAll", P: long})
			// a directory moved into a directory whose name merely starts with the same characters
			add("Rename-into-lookalike-dir", append(s, fsx.Step{K: "Mkdir", P: "ab", Perm: 0o755}, fsx.Step{K: "Mkdir", P: "ab/c", Perm: 0o755}), fsx.Step{K: "Rename", P: "a", P2: "ab/b"}, fsx.Step{K: "ReadFile", P: "ab/b/b/c"}, fsx.Step{K: "Rename", P: "ab/c", P2: "ab/b/c"})
			// the parent goes away (renamed, removed) between two calls of the same kind below it: nothing remembered from the
			// first call may answer for the second
			for _, gone := range [][]fsx.Step{{{K: "Rename", P: "a", P2: "c"}}, {{K: "RemoveAll", P: "a"}}, {{K: "RemoveAll", P: "a"}, {K: "WriteFullFile", P: "a", Data: "now a file", Perm: 0o644}}} {
				for _, pair := range [][2]fsx.Step{
					{{K: "Mkdir", P: "a/ab", Perm: 0o755}, {K: "Mkdir", P: "a/.a", Perm: 0o755}},
					{{K: "MkdirAll", P: "a/ab/c", Perm: 0o755}, {K: "MkdirAll", P: "a/ab/b", Perm: 0o755}},
					{{K: "WriteFullFile", P: "a/ab", Data: "1", Perm: 0o644}, {K: "WriteFullFile", P: "a/.a", Data: "2", Perm: 0o644}},
					{{K: "OpenClose", P: "a/ab", Flag: os.O_RDWR | os.O_CREATE, Perm: 0o644, Data: "1"}, {K: "OpenClose", P: "a/.a", Flag: os.O_RDWR | os.O_CREATE | os.O_EXCL, Perm: 0o644, Data: "2"}},
					{{K: "Stat", P: "a/b"}, {K: "Stat", P: "a/b"}},
					{{K: "ReadDir", P: "a/b"}, {K: "ReadDir", P: "a/b"}},
					{{K: "Chmod", P: "a/b", Perm: 0o700}, {K: "Chmod", P: "a/b", Perm: 0o755}},
					{{K: "Rename", P: "a/b/c", P2: "a/ab"}, {K: "Rename", P: "a/ab", P2: "a/b/c"}},
				} {
					h := append(append([]fsx.Step(nil), s...), pair[0])
					h = append(h, gone...)
					add("parent-gone/"+gone[len(gone)-1].K+"/"+pair[0].K, h, pair[1], fsx.Step{K: "Stat", P: "a"}, fsx.Step{K: "ReadDir", P: "."})
				}
			}
			add("Remove-lookalike-sibling", append(s, fsx.Step{K: "Mkdir", P: "ab", Perm: 0o755}, fsx.Step{K: "WriteFullFile", P: "ab/c", Data: "look", Perm: 0o644}), fsx.Step{K: "RemoveAll", P: "a"}, fsx.Step{K: "ReadFile", P: "ab/c"}, fsx.Step{K: "Remove", P: "ab"})
		}
	})
}

func c01counts(env *core.Env) (matrix, random int) {
	c01build()
	return len(c01matrix), env.Pick(12000, 400000)
}

var c01subjects = []string{"memc", "kvplain", "mem"}

func init() {
	core.Register(&core.Prop{
		ID:    "C01",
		Level: "exploration",
		Rule: "differential runtime monitor: the same history of namespace operations is executed step by step on the real os package in an empty directory (reference) and on mem.FS, keyvalue.FS over the real mem store behind a call-counting wrapper, and keyvalue.FS over a plain Store; after every step success/failure, returned data and the complete tree (paths, kinds, permission bits, sizes, bytes, Chtimes-set mtimes) are compared. " +
			"Cases: the complete situation matrix (every operation x every target situation x argument variants, Rename over source x destination situations and name relations) and seeded random histories of 5..40 steps (5..60 thorough) that chain failures into follow-ups. Non-trivial: at least one mutation succeeded and one step failed on the reference; distinct by history text",
		Assumptions: []string{
			"reference = Go's os package on Linux (tmpfs), process umask 0, running as root so that permission enforcement never interferes",
			"mtimes are compared only for paths whose mtime was set by Chtimes and not touched since",
			"histories never remove or rename the root (excluded by the property)",
			"(operation, situation) pairs listed as known findings are exercised by the matrix but not issued inside random histories, so that subject and reference stay in lock-step",
		},
		NumCases: func(env *core.Env) int { m, r := c01counts(env); return m + r },
		Batch:    100,
		Run:      c01run,
		Describe: func(env *core.Env, idx int) any { return c01case2(env, idx, nil) },
		Floor: func(env *core.Env, agg *core.Agg) string {
			if agg.Counters["steps_compared"] < 5000 || agg.DistinctCount("tree_states") < 200 || agg.DistinctCount("op_situations") < 150 {
				return fmt.Sprintf("steps=%d states=%d op_situations=%d", agg.Counters["steps_compared"], agg.DistinctCount("tree_states"), agg.DistinctCount("op_situations"))
			}
			return ""
		},
	})
}

// c01case2 returns the case; random histories are generated lazily against the reference (gen != nil while running).
func c01case2(env *core.Env, idx int, _ any) c01case {
	m, _ := c01counts(env)
	if idx < m {
		return c01matrix[idx]
	}
	return c01case{Name: fmt.Sprintf("random-%d", idx-m)}
}

type diffSide struct {
	sub   *fsx.Subject
	hs    fsx.Handles
	alive bool
}

func c01run(env *core.Env, idx int) core.CaseResult {
	var res core.CaseResult
	fsx.RecordInfos.Store(true)
	_ = fsx.ChangedInfos() // (forget what an earlier case left)
	m, _ := c01counts(env)
	cs := c01case2(env, idx, nil)
	ref, err := fsx.NewOSRef(env.Scratch)
	if err != nil {
		res.Inconclusive = "cannot create reference dir: " + err.Error()
		return res
	}
	defer ref.Cleanup()
	var sides []*diffSide
	for _, name := range c01subjects {
		s, err := fsx.NewSubject(name)
		if err != nil {
			res.Violate("C01|NewFS|"+name+"|got=fail,want=ok", err.Error(), nil)
			continue
		}
		sides = append(sides, &diffSide{sub: s, alive: true})
	}
	random := idx >= m
	var gen *fsx.Gen
	nsteps := len(cs.Hist)
	if random {
		gen = fsx.NewGen(env.Seed*1_000_003+int64(idx), fmt.Sprintf("h%d", idx))
		nsteps = 5 + gen.R.Intn(env.Pick(36, 56))
	}
	mt := fsx.MTimeSet{}
	var refHs fsx.Handles
	defer refHs.CloseAll()
	refSnap, _ := fsx.Snapshot(ref, mt)
	var hist []fsx.Step
	okMut, failed := 0, 0
	for i := 0; i < nsteps; i++ {
		var st fsx.Step
		var sit string
		if random {
			for try := 0; ; try++ {
				st = gen.Namespace(refSnap, false)
				sit = fsx.Situation(ref, st)
				if try > 20 || !env.Known.KnownSituation("C01", "C01|"+st.K+"|"+sit+"|") {
					break
				}
			}
		} else {
			st = cs.Hist[i]
			sit = fsx.Situation(ref, st)
		}
		hist = append(hist, st)
		if fsx.Mutates(st) && st.K != "Chmod" && st.K != "Chtimes" {
			// (os.Chmod leaves the modification time alone, so an mtime set by Chtimes stays comparable across a Chmod)
			mt.Touch(st.P)
			if st.P2 != "" {
				mt.Touch(st.P2)
			}
		}
		rr := fsx.Exec(ref, st, &refHs, mt)
		farTime := st.K == "Chtimes" && (st.MTime > 9_000_000_000 || st.MTime < -9_000_000_000)
		if st.K == "Chtimes" && rr.OK() && !farTime {
			mt[st.P] = true
		}
		if farTime {
			// (beyond the years 1678..2262 the os package itself garbles the time on its way to the kernel: the reference
			// cannot say what should be there, the subject is asked for what it was given - see below)
			delete(mt, st.P)
		}
		if rr.OK() && fsx.Mutates(st) {
			okMut++
		}
		if !rr.OK() {
			failed++
		}
		refSnap2, prob := fsx.Snapshot(ref, mt)
		if prob != "" {
			res.Inconclusive = "reference walk failed: " + prob
			return res
		}
		refSnap = refSnap2
		res.Seen("tree_states", refSnap.Hash())
		res.Seen("op_situations", st.K+"|"+sit)
		res.Count("op:"+st.K, 1)
		if env.Verbose {
			fmt.Printf("step %d %-50s [%s]\n   ref: %s\n", i, st, sit, rr)
		}
		budgetTripped := false
		for _, sd := range sides {
			if !sd.alive {
				continue
			}
			if sd.sub.Budget == nil && st.K == "Rename" && fsx.Relation(st.P, st.P2) == "dst-in-src" && budgetTripped {
				sd.alive = false
				continue
			}
			if sd.sub.Budget != nil {
				sd.sub.Budget.Reset()
			}
			sr := fsx.Exec(sd.sub.FS, st, &sd.hs, mt)
			if farTime && sr.OK() {
				if info, err := hackpadfs.Stat(sd.sub.FS, st.P); err == nil && info.ModTime().Unix() != st.MTime {
					res.Violate("C01|Chtimes|far-time|mtime-not-kept", fmt.Sprintf("[%s] %s succeeded, Stat then reports the modification time %d (%s): not the instant that was set", sd.sub.Name, st, info.ModTime().Unix(), info.ModTime().UTC().Format("2006-01-02")), map[string]any{"subject": sd.sub.Name, "history": fsx.HistoryString(hist)})
				}
				res.Count("far_times_read_back", 1)
			}
			res.Count("steps_compared", 1)
			wit := map[string]any{"subject": sd.sub.Name, "history": fsx.HistoryString(hist), "step": i}
			sigBase := "C01|" + st.K + "|" + sit + "|"
			if env.Verbose {
				fmt.Printf("   %s: %s\n", sd.sub.Name, sr)
			}
			switch {
			case strings.Contains(sr.Panic, "budget exceeded"):
				budgetTripped = true
				res.Violate(sigBase+"got=nontermination,want="+okfail(rr), fmt.Sprintf("[%s] %s made more than %d store calls (runaway); reference: %s", sd.sub.Name, st, fsx.StoreCallBudget, rr), wit)
				sd.alive = false
				continue
			case sr.Panic != "":
				res.Violate(sigBase+"got=panic,want="+okfail(rr), fmt.Sprintf("[%s] %s panicked: %s; reference: %s", sd.sub.Name, st, sr.Panic, rr), wit)
				sd.alive = false
				continue
			case sr.OK() != rr.OK():
				res.Violate(sigBase+"got="+okfail(sr)+",want="+okfail(rr), fmt.Sprintf("[%s] %s -> %s; os -> %s", sd.sub.Name, st, sr, rr), wit)
				sd.alive = false
			case sr.OK() && (sr.Data != rr.Data || sr.N != rr.N):
				res.Violate(sigBase+"data", fmt.Sprintf("[%s] %s returned %q n=%d; os returned %q n=%d", sd.sub.Name, st, sr.Data, sr.N, rr.Data, rr.N), wit)
				sd.alive = false
			}
			snap, prob := fsx.Snapshot(sd.sub.FS, mt)
			if prob != "" {
				res.Violate(sigBase+"tree:unwalkable", fmt.Sprintf("[%s] after %s the tree cannot be walked: %s", sd.sub.Name, st, prob), wit)
				sd.alive = false
				continue
			}
			if kind, detail := fsx.Diff(snap, refSnap); kind != "" {
				if sd.alive { // a result divergence already explains a tree divergence
					res.Violate(sigBase+"tree:"+kind, fmt.Sprintf("[%s] after %s (%s, os %s): %s", sd.sub.Name, st, sr.Outcome(), rr.Outcome(), detail), wit)
				}
				sd.alive = false
			}
		}
	}
	for _, sd := range sides {
		sd.hs.CloseAll()
	}
	// an info that Stat returned earlier in the history describes the entry as it was THEN, whatever happened to it since
	if len(res.Violations) == 0 {
		for _, ch := range fsx.ChangedInfos() {
			res.Violate("C01|Stat|returned-info-changed-later", fmt.Sprintf("%s (history %s)", ch, fsx.HistoryString(hist)), map[string]any{"history": fsx.HistoryString(hist)})
			break
		}
	}
	res.Key = core.Hash(fsx.HistoryString(hist))
	res.Nontrivial = okMut > 0 && failed > 0
	res.Count("failed_steps_on_reference", failed)
	res.Count("successful_mutations", okMut)
	if random {
		res.Count("random_histories", 1)
		res.Count("random_steps", len(hist))
	} else {
		res.Count("matrix_cases", 1)
	}
	if idx%97 == 0 {
		res.Sample = map[string]any{"case": cs.Name, "history": fsx.HistoryString(hist)}
	}
	return res
}

func okfail(r fsx.Result) string {
	if r.Panic != "" {
		return "panic"
	}
	if r.OK() {
		return "ok"
	}
	return "fail"
}

var _ = os.O_CREATE
