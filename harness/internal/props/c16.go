package props

import (
	"errors"
	"fmt"
	"io"
	"math"
	"math/rand"
	"os"
	"sort"
	"strings"

	"hpverif/internal/core"
	"hpverif/internal/fsx"
	"hpverif/internal/kvs"

	"github.com/hack-pad/hackpadfs"
	"github.com/hack-pad/hackpadfs/keyvalue"
	"github.com/hack-pad/hackpadfs/mem"
)

// C16: directory listings are complete, duplicate-free, ordered, and page correctly.

var c16sizes = []int{0, 1, 2, 3, 10, 127, 128, 129, 256, 300, 1200}

type c16case struct {
	Subject string `json:"subject"`
	N       int    `json:"n"`
	Dir     string `json:"dir"`
	Pages   []int  `json:"pages"`
	Name    string `json:"name"`
}

func c16pageSeqs(n int) [][]int {
	rep := func(v, k int) []int {
		out := make([]int, k)
		for i := range out {
			out[i] = v
		}
		return out
	}
	per := func(v int) []int {
		if v <= 0 {
			return []int{v, v, 1}
		}
		k := n/v + 3
		if k > 1300 {
			k = 1300
		}
		return rep(v, k)
	}
	seqs := [][]int{per(1), per(2), per(n + 1), per(1_000_000_000), {0, 1, 0}, {-1, 1, -1}, {1, 0, 1}, {2, -1, 2, 0},
		{1, math.MaxInt, 1}, {math.MaxInt, math.MaxInt}, {2, math.MaxInt - 1, math.MaxInt32, 1}, {1, math.MinInt, 1}}
	if n > 1 {
		seqs = append(seqs, per(n-1), per(n))
	}
	if n > 4 {
		seqs = append(seqs, []int{n - 1, 5, 5}, []int{3, n, 1, 1})
	}
	return seqs
}

func c16cases(env *core.Env) []c16case {
	var cs []c16case
	for _, s := range populatedSubjects {
		for _, n := range c16sizes {
			for _, dir := range []string{"d", "."} {
				if dir == "." && n >= 127 {
					continue
				}
				for i, seq := range c16pageSeqs(n) {
					cs = append(cs, c16case{Subject: s, N: n, Dir: dir, Pages: seq, Name: fmt.Sprintf("seq%d", i)})
				}
			}
		}
	}
	// paging with one transient store failure in the middle
	for _, n := range []int{4, 7, 30} {
		for _, page := range []int{1, 2, 3, 100, -1} {
			for failAt := 1; failAt <= 12; failAt += 2 {
				cs = append(cs, c16case{Subject: "kvplain", N: n, Dir: "d", Pages: []int{page, failAt}, Name: "fault-paging"})
			}
		}
	}
	// a directory that changes between two pages of one handle
	for _, subj := range []string{"mem", "kvplain"} {
		for _, n := range []int{4, 9, 130} {
			for _, page := range []int{1, 2, 3, 64} {
				for _, change := range []int{0, 1, 2} {
					cs = append(cs, c16case{Subject: subj, N: n, Dir: "d", Pages: []int{page, change}, Name: "changing-between-pages"})
				}
			}
		}
	}
	// random directories and page sequences
	r := rand.New(rand.NewSource(env.Seed*5_000_011 + 16))
	for i := 0; i < env.Pick(400, 8000); i++ {
		n := r.Intn(40)
		if r.Intn(10) == 0 {
			n = 200 + r.Intn(1200)
		}
		var seq []int
		for j := 0; j < 3+r.Intn(12); j++ {
			switch r.Intn(8) {
			case 0:
				seq = append(seq, 0)
			case 1:
				seq = append(seq, -1)
			case 2:
				seq = append(seq, n+r.Intn(3))
				if r.Intn(4) == 0 {
					seq[len(seq)-1] = math.MaxInt - r.Intn(3)
				}
			default:
				seq = append(seq, 1+r.Intn(n/2+2))
			}
		}
		cs = append(cs, c16case{Subject: populatedSubjects[r.Intn(len(populatedSubjects))], N: n, Dir: []string{"d", "."}[r.Intn(2)], Pages: seq, Name: "random"})
	}
	return cs
}

func init() {
	core.Register(&core.Prop{
		ID:    "C16",
		Level: "exploration",
		Rule: "directories with 0,1,2,3,10,127,128,129,256,300,1200 children of mixed kinds (names incl. upper/lower case, '_', '^', dots, spaces, backslash, non-ASCII; names sharing letters with the mount path) (ground truth = the children the harness created) are presented through mem, keyvalue over a plain Store, mount (children that are mount points), a file system mounted at a two-element mount point, a Sub view, a Sub view of a directory above mount points, the cache (full and minimal store), the tar FS (default and minimal destination) and os.FS; the by-name listing must contain each child once, sorted, agreeing with Stat; a directory handle is read with page-size sequences (1,2,N-1,N,N+1,10^9, MaxInt and MinInt also on a handle that has been read before, mixed with 0 and -1, random) and checked against the fs.ReadDirFile contract; listing a regular file must fail with ErrNotDir; a handle over a plain store is paged while the store fails one Get: after the failing call, paging on must deliver every child not delivered yet, none twice. " +
			"Non-trivial: a paged session over a directory with >=2 children that took >=2 pages; distinct by (subject, size, page sequence)",
		Assumptions: []string{"directories are not mutated between pages (except in the part that removes returned entries and creates new names after the first page)", "for a child that is a mount point only name and kind are compared"},
		NumCases:    func(env *core.Env) int { return len(c16cases(env)) },
		Batch:       40,
		Run:         c16run,
		Floor: func(env *core.Env, agg *core.Agg) string {
			if agg.Counters["pages_read"] < 5000 || agg.Counters["listings_checked"] < 300 {
				return fmt.Sprint(agg.Counters)
			}
			return ""
		},
	})
}

// c16mistreat does to a returned listing what callers do: filter in place, reorder, append.
func c16mistreat(l []hackpadfs.DirEntry) {
	first := l[0]
	for i, j := 0, len(l)-1; i < j; i, j = i+1, j-1 {
		l[i], l[j] = l[j], l[i]
	}
	for i := range l {
		l[i] = first
	}
	if cap(l) > len(l) {
		_ = append(l, first) // lands in the spare capacity of the array the callee handed out
	}
}

func c16sizeClass(n int) string {
	switch {
	case n == 0:
		return "empty"
	case n == 1:
		return "one"
	case n <= 40:
		return "few"
	}
	return "many"
}

// c16faultPaging: a directory handle of a keyvalue.FS over a plain store is paged while the store fails exactly one Get.
// The failing ReadDir call reports the error; paging on must then deliver what had not been delivered yet: across the
// successful pages every child appears exactly once.
func c16faultPaging(cs c16case, res *core.CaseResult) {
	p := kvs.NewPlain()
	fsys, err := keyvalue.NewFS(p)
	if err != nil {
		res.Inconclusive = err.Error()
		return
	}
	_ = hackpadfs.Mkdir(fsys, "d", 0o755)
	want := map[string]bool{}
	for i := 0; i < cs.N; i++ {
		name := fmt.Sprintf("c%02d", i)
		if i%3 == 1 {
			_ = hackpadfs.Mkdir(fsys, "d/"+name, 0o755)
		} else {
			_ = hackpadfs.WriteFullFile(fsys, "d/"+name, []byte(name), 0o644)
		}
		want[name] = true
	}
	f, err := fsys.Open("d")
	if err != nil {
		res.Inconclusive = err.Error()
		return
	}
	defer func() { _ = f.Close() }()
	page, failAt := cs.Pages[0], cs.Pages[1]
	gets, fired := 0, false
	p.Hook = func(ev kvs.Event) error {
		if ev.Op == "Get" {
			gets++
			if gets == failAt && !fired {
				fired = true
				return errors.New("injected transient store failure")
			}
		}
		return nil
	}
	got := map[string]int{}
	failedCalls := 0
	for call := 0; call < 3*cs.N+10; call++ {
		var entries []hackpadfs.DirEntry
		var rerr error
		if pn := core.Recover(func() { entries, rerr = hackpadfs.ReadDirFile(f, page) }); pn != "" {
			res.Violate("C16|kvplain|paged-with-fault|panic", fmt.Sprintf("ReadDir(%d) panicked when the store failed its Get #%d: %s", page, failAt, pn), cs)
			return
		}
		res.Count("pages_read", 1)
		if rerr != nil && rerr != io.EOF {
			failedCalls++
			if len(entries) > 0 {
				// entries delivered together with an error count as delivered
				for _, e := range entries {
					got[e.Name()]++
				}
			}
			if failedCalls > 3 {
				break
			}
			continue
		}
		for _, e := range entries {
			got[e.Name()]++
		}
		if rerr == io.EOF || (page <= 0 && rerr == nil) || len(entries) == 0 {
			break
		}
	}
	p.Hook = nil
	if !fired {
		res.Count("fault_paging_fault_not_reached", 1)
		return
	}
	res.Nontrivial = true
	res.Count("fault_paging_runs", 1)
	var missing, dup []string
	for n := range want {
		switch got[n] {
		case 0:
			missing = append(missing, n)
		case 1:
		default:
			dup = append(dup, n)
		}
	}
	sort.Strings(missing)
	sort.Strings(dup)
	if len(missing) > 0 {
		res.Violate("C16|kvplain|paged-with-fault|skipped", fmt.Sprintf("paging %d children in pages of %d: the ReadDir during which the store failed Get #%d reported the error (%d failing calls), and paging on never delivered %v", cs.N, page, failAt, failedCalls, missing), cs)
	}
	if len(dup) > 0 {
		res.Violate("C16|kvplain|paged-with-fault|duplicate", fmt.Sprintf("paging %d children in pages of %d with the store failing Get #%d: delivered more than once: %v", cs.N, page, failAt, dup), cs)
	}
}

// c16changing: one handle pages through a directory of N files; after the first page the directory changes (0: the entries
// already returned are removed; 1: a name that sorts before all and one that sorts after all are created; 2: both). Paging
// on to the end, every entry that existed during the whole listing has been returned exactly once and none twice (what
// readdir promises); entries removed or created meanwhile may or may not appear.
func c16changing(cs c16case, res *core.CaseResult) {
	var fsys hackpadfs.FS
	var err error
	if cs.Subject == "mem" {
		fsys, err = mem.NewFS()
	} else {
		fsys, err = keyvalue.NewFS(kvs.NewPlain())
	}
	if err != nil {
		res.Inconclusive = err.Error()
		return
	}
	page, change := cs.Pages[0], cs.Pages[1]
	stable := map[string]bool{}
	_ = hackpadfs.Mkdir(fsys, "d", 0o755)
	for i := 0; i < cs.N; i++ {
		name := fmt.Sprintf("k%03d", i)
		if err := hackpadfs.WriteFullFile(fsys, "d/"+name, []byte("x"), 0o644); err != nil {
			res.Inconclusive = err.Error()
			return
		}
		stable[name] = true
	}
	dir, err := fsys.Open("d")
	if err != nil {
		res.Inconclusive = err.Error()
		return
	}
	defer func() { _ = dir.Close() }()
	seen := map[string]int{}
	wit := map[string]any{"case": cs}
	first, err := hackpadfs.ReadDirFile(dir, page)
	if err != nil && err != io.EOF {
		res.Violate(fmt.Sprintf("C16|%s|changing|first-page-failed", cs.Subject), fmt.Sprintf("the first ReadDir(%d) on a directory of %d files failed: %v", page, cs.N, err), wit)
		return
	}
	for _, e := range first {
		seen[e.Name()]++
	}
	what := ""
	if change == 0 || change == 2 {
		for _, e := range first {
			if rerr := hackpadfs.Remove(fsys, "d/"+e.Name()); rerr == nil {
				delete(stable, e.Name())
			}
		}
		what = "the entries of the first page were removed"
	}
	if change == 1 || change == 2 {
		_ = hackpadfs.WriteFullFile(fsys, "d/a-new", []byte("x"), 0o644)
		_ = hackpadfs.WriteFullFile(fsys, "d/z-new", []byte("x"), 0o644)
		if what != "" {
			what += " and "
		}
		what += "two names (one sorting first, one last) were created"
	}
	res.Evals = 1
	ended := false
	for i := 0; i < 2*cs.N+10; i++ {
		p, err := hackpadfs.ReadDirFile(dir, page)
		res.Count("pages_read", 1)
		for _, e := range p {
			seen[e.Name()]++
		}
		if err == io.EOF || (err == nil && len(p) == 0) {
			ended = true
			break
		}
		if err != nil {
			res.Violate(fmt.Sprintf("C16|%s|changing|page-failed", cs.Subject), fmt.Sprintf("after the first ReadDir(%d) on a directory of %d files %s; a later page failed: %v", page, cs.N, what, err), wit)
			return
		}
	}
	res.Count("listings_of_changing_directories", 1)
	res.Nontrivial = len(first) > 0 && len(first) < cs.N
	if !ended {
		res.Violate(fmt.Sprintf("C16|%s|changing|no-end", cs.Subject), fmt.Sprintf("after the first ReadDir(%d) on a directory of %d files %s; %d more pages did not reach the end", page, cs.N, what, 2*cs.N+10), wit)
		return
	}
	var missing, twice []string
	for name := range stable {
		if seen[name] == 0 {
			missing = append(missing, name)
		}
	}
	for name, k := range seen {
		if k > 1 {
			twice = append(twice, name)
		}
	}
	sort.Strings(missing)
	sort.Strings(twice)
	if len(missing) > 0 {
		res.Violate(fmt.Sprintf("C16|%s|changing|missing", cs.Subject), fmt.Sprintf("after the first ReadDir(%d) on a directory of %d files %s; paging on to the end never returned %d entries that were there all the time (%s ...)", page, cs.N, what, len(missing), missing[0]), wit)
	}
	if len(twice) > 0 {
		res.Violate(fmt.Sprintf("C16|%s|changing|twice", cs.Subject), fmt.Sprintf("after the first ReadDir(%d) on a directory of %d files %s; paging on to the end returned %d entries twice (%s ...)", page, cs.N, what, len(twice), twice[0]), wit)
	}
}

func c16run(env *core.Env, idx int) core.CaseResult {
	var res core.CaseResult
	cs := c16cases(env)[idx]
	if cs.Name == "fault-paging" {
		c16faultPaging(cs, &res)
		res.Key = core.Hash(cs)
		return res
	}
	if cs.Name == "changing-between-pages" {
		c16changing(cs, &res)
		res.Key = core.Hash(cs)
		return res
	}
	prefix := ""
	var items []treeItem
	if cs.Dir != "." {
		items = append(items, treeItem{Path: cs.Dir, Dir: true, Perm: 0o755})
		prefix = cs.Dir + "/"
	}
	type child struct {
		name  string
		dir   bool
		size  int
		mount bool
	}
	var want []child
	siblingOfMount, caseTwinOfMount := "", ""
	for i := 0; i < cs.N; i++ {
		c := child{name: fmt.Sprintf("n%04d", (i*7919)%10000)}
		switch i % 4 {
		case 1:
			c.dir = true
		case 3:
			c.dir = true
			if cs.Subject == "mount" || cs.Subject == "sub-above-mount" {
				c.name = "m" + c.name[1:]
				c.mount = true
			}
		default:
			c.size = i % 13
		}
		if special := []string{".hidden", "B", "a", "_c", "sp ace", "README", `back\slash`, "col:on", "ünï", "-dash", "x.y.z", "Zeta", "go.main", "Go.main", "..dots", "^caret", "den", "pm", "e", "p"}; cs.N >= 3 && i < len(special) && i < cs.N-1 && !c.mount {
			c.name = special[i] // names a listing must not drop or mangle
		}
		want = append(want, c)
		it := treeItem{Path: prefix + c.name, Dir: c.dir, Perm: 0o644, Data: strings.Repeat("z", c.size)}
		if c.dir {
			it.Perm = 0o755
		}
		items = append(items, it)
	}
	// next to the first mount point: an ordinary directory whose name starts with the mount point's name
	for _, c := range want {
		if c.mount {
			sib := child{name: c.name + "x", dir: true}
			want = append(want, sib)
			items = append(items, treeItem{Path: prefix + sib.name, Dir: true, Perm: 0o755}, treeItem{Path: prefix + sib.name + "/in-sibling", Perm: 0o644, Data: "s"})
			siblingOfMount = sib.name
			// ... and one whose name differs from the mount point's only in the case of its letters
			up := child{name: strings.ToUpper(c.name), dir: true}
			want = append(want, up)
			items = append(items, treeItem{Path: prefix + up.name, Dir: true, Perm: 0o755}, treeItem{Path: prefix + up.name + "/in-upper", Perm: 0o644, Data: "u"})
			caseTwinOfMount = up.name
			break
		}
	}
	// a child that carries the listed directory's own name, with children of its own (d/d/deep-inside is no child of d)
	if cs.Dir != "." && cs.N >= 1 {
		want = append(want, child{name: cs.Dir, dir: true})
		items = append(items, treeItem{Path: prefix + cs.Dir, Dir: true, Perm: 0o755}, treeItem{Path: prefix + cs.Dir + "/deep-inside", Perm: 0o644, Data: "deep"}, treeItem{Path: prefix + cs.Dir + "/" + cs.Dir, Dir: true, Perm: 0o755})
	}
	// deeper down, entries with the SAME base names as children of the listed directory but of the other kind
	var twins []string
	if cs.Dir == "." && cs.N >= 2 {
		want = append(want, child{name: "zsame", dir: true})
		items = append(items, treeItem{Path: "zsame", Dir: true, Perm: 0o755})
		for _, c := range want {
			if len(twins) >= 3 || c.mount || c.name == "zsame" || c.name == siblingOfMount {
				continue
			}
			it := treeItem{Path: "zsame/" + c.name, Dir: !c.dir, Perm: 0o600, Data: "twin"}
			if it.Dir {
				it.Perm, it.Data = 0o700, ""
			}
			items = append(items, it)
			twins = append(twins, it.Path)
		}
	}
	// a regular file to list as a directory
	items = append(items, treeItem{Path: "zfile", Perm: 0o644, Data: "plain"})
	if cs.Dir == "." {
		want = append(want, child{name: "zfile", size: 5})
	}
	sort.Slice(want, func(i, j int) bool { return want[i].name < want[j].name })
	sub, err := newPopulated(env, cs.Subject, items)
	if err != nil {
		res.Violate(fmt.Sprintf("C16|%s|setup|%s|got=fail,want=ok", cs.Subject, c16sizeClass(cs.N)), fmt.Sprintf("cannot present %d children through %s: %v", cs.N, cs.Subject, err), cs)
		return res
	}
	defer sub.cleanup()
	if sub.writable {
		// give a few children the special mode bits Chmod may set: an entry's Type() must still be the kind only
		special := []hackpadfs.FileMode{hackpadfs.ModeSticky | 0o755, hackpadfs.ModeSetuid | 0o755, hackpadfs.ModeSticky | 0o700}
		k := 0
		for _, c := range want {
			if k < len(special) && !c.mount && c.name != "zfile" {
				if err := hackpadfs.Chmod(sub.fs, prefix+c.name, special[k]); err == nil {
					res.Count("children_with_special_mode_bits", 1)
				}
				k++
			}
		}
	}
	sigBase := fmt.Sprintf("C16|%s|", cs.Subject)
	sc := c16sizeClass(len(want))
	bad := func(check, what, detail string) {
		res.Violate(sigBase+check+"|"+sc+"|"+what, fmt.Sprintf("[%s, %d children, dir %q] %s", cs.Subject, len(want), cs.Dir, detail), cs)
	}
	wantByName := map[string]child{}
	for _, c := range want {
		wantByName[c.name] = c
	}

	// the deeper twins are looked at first (whatever a layer remembers about them must not answer for the children listed next)
	for _, tw := range twins {
		_, _ = hackpadfs.Stat(sub.fs, tw)
	}
	if len(twins) > 0 {
		_, _ = hackpadfs.ReadDir(sub.fs, "zsame")
	}
	if siblingOfMount != "" {
		inner, ierr := hackpadfs.ReadDir(sub.fs, prefix+siblingOfMount)
		if ierr != nil || len(inner) != 1 || inner[0].Name() != "in-sibling" {
			res.Violate(fmt.Sprintf("C16|%s|byname|%s|sibling-of-mountpoint", cs.Subject, c16sizeClass(len(want))), fmt.Sprintf("[%s] listing %q, an ordinary directory whose name starts with the name of the mount point next to it, returned %s (err %v); it holds exactly in-sibling", cs.Subject, prefix+siblingOfMount, fsx.EntriesString(inner), ierr), cs)
		}
	}
	// a caller owns the slice a listing returns: an earlier listing is reordered, overwritten and appended to before the
	// listing that is judged (a layer that hands out its own remembered slice would now serve the scribbled one)
	_ = core.Recover(func() {
		if pre, perr := hackpadfs.ReadDir(sub.fs, cs.Dir); perr == nil && len(pre) > 1 {
			c16mistreat(pre)
			res.Count("returned_listings_overwritten", 1)
		}
	})
	if caseTwinOfMount != "" {
		inner, ierr := hackpadfs.ReadDir(sub.fs, prefix+caseTwinOfMount)
		if ierr != nil || len(inner) != 1 || inner[0].Name() != "in-upper" {
			res.Violate(fmt.Sprintf("C16|%s|byname|%s|case-twin-of-mountpoint", cs.Subject, c16sizeClass(len(want))), fmt.Sprintf("[%s] listing %q, an ordinary directory whose name is the neighbouring mount point's in capitals, returned %s (err %v); it holds exactly in-upper", cs.Subject, prefix+caseTwinOfMount, fsx.EntriesString(inner), ierr), cs)
		}
	}
	if cs.Subject == "os" && cs.Dir != "." {
		// a symbolic link to the listed directory: listing the link by name lists the directory
		if err := hackpadfs.Symlink(sub.fs, cs.Dir, "zlink-to-dir"); err == nil {
			direct, derr := hackpadfs.ReadDir(sub.fs, cs.Dir)
			via, verr := hackpadfs.ReadDir(sub.fs, "zlink-to-dir")
			res.Count("listings_through_a_link", 1)
			if (derr == nil) != (verr == nil) || fsx.EntriesString(direct) != fsx.EntriesString(via) {
				res.Violate(fmt.Sprintf("C16|os|byname|%s|through-link", c16sizeClass(len(want))), fmt.Sprintf("listing %q gives %d entries (err %v); listing zlink-to-dir, a symbolic link to it, gives %d (err %v)", cs.Dir, len(direct), derr, len(via), verr), cs)
			}
		}
	}
	// (a) by-name listing
	var entries []hackpadfs.DirEntry
	var lerr error
	if p := core.Recover(func() { entries, lerr = hackpadfs.ReadDir(sub.fs, cs.Dir) }); p != "" {
		bad("byname", "panic", "ReadDir panicked: "+p)
		return res
	}
	res.Count("listings_checked", 1)
	if lerr != nil {
		bad("byname", "got=fail,want=ok", "ReadDir failed: "+lerr.Error())
	} else {
		seen := map[string]int{}
		prev := ""
		mounted := 0
		for i, e := range entries {
			seen[e.Name()]++
			if i > 0 && e.Name() < prev {
				bad("byname", "unsorted", fmt.Sprintf("%q listed after %q", e.Name(), prev))
			}
			prev = e.Name()
			c, ok := wantByName[e.Name()]
			if !ok {
				bad("byname", "extra", fmt.Sprintf("lists %q which is not a child", e.Name()))
				continue
			}
			if e.IsDir() != c.dir || e.Type().IsDir() != c.dir {
				bad("byname", "kind", fmt.Sprintf("entry %q: IsDir=%v Type=%v, child is dir=%v", e.Name(), e.IsDir(), e.Type(), c.dir))
			}
			if c.mount {
				// the directory below a mount point lists what is mounted there (one file), through every composition
				if mounted < 3 {
					mounted++
					inner, ierr := hackpadfs.ReadDir(sub.fs, prefix+e.Name())
					if ierr != nil || len(inner) != 1 || inner[0].Name() != "in-mount" {
						bad("byname", "mountpoint-content", fmt.Sprintf("listing the mount point %q returned %s (err %v), the mounted file system holds exactly in-mount", e.Name(), fsx.EntriesString(inner), ierr))
					} else {
						// ... and what the listing names is there, what the mount hides is not (both names were looked up before the mount was added)
						_, serr := hackpadfs.Stat(sub.fs, prefix+e.Name()+"/in-mount")
						_, herr := hackpadfs.Stat(sub.fs, prefix+e.Name()+"/hidden-below")
						if serr != nil || herr == nil {
							bad("byname", "mountpoint-content", fmt.Sprintf("the mount point %q lists in-mount, but Stat of it says %v, and Stat of hidden-below (a file of the directory the mount hides) says %v", e.Name(), serr, herr))
						}
					}
				}
				continue
			}
			if i%17 == 0 || len(entries) <= 12 { // Info vs Stat of the child
				info, ierr := e.Info()
				st, serr := hackpadfs.Stat(sub.fs, prefix+e.Name())
				switch {
				case ierr != nil || serr != nil:
					bad("byname", "info-error", fmt.Sprintf("entry %q: Info err=%v, Stat err=%v", e.Name(), ierr, serr))
				case e.Type() != st.Mode().Type():
					bad("byname", "type-mismatch", fmt.Sprintf("entry %q: Type()=%v, Stat of the child has type %v", e.Name(), e.Type(), st.Mode().Type()))
				case fsx.InfoString(info, false) != fsx.InfoString(st, false):
					bad("byname", "info-mismatch", fmt.Sprintf("entry %q: Info says %q, Stat says %q", e.Name(), fsx.InfoString(info, false), fsx.InfoString(st, false)))
				}
				res.Count("info_vs_stat_checks", 1)
			}
		}
		for _, c := range want {
			switch seen[c.name] {
			case 0:
				bad("byname", "missing", fmt.Sprintf("child %q is not listed", c.name))
			case 1:
			default:
				bad("byname", "duplicate", fmt.Sprintf("child %q is listed %d times", c.name, seen[c.name]))
			}
		}
	}

	// (b) paged reads of a handle
	var f hackpadfs.File
	if p := core.Recover(func() { f, err = sub.fs.Open(cs.Dir) }); p != "" || err != nil {
		bad("paged", "open-failed", fmt.Sprintf("cannot open the directory: %v %s", err, p))
		return res
	}
	defer func() { _ = core.Recover(func() { _ = f.Close() }) }()
	remaining := len(want)
	got := map[string]int{}
	pages := 0
	for pi, n := range cs.Pages {
		var page []hackpadfs.DirEntry
		var perr error
		if p := core.Recover(func() { page, perr = hackpadfs.ReadDirFile(f, n) }); p != "" {
			bad("paged", "panic", fmt.Sprintf("ReadDir(%d) (call %d) panicked: %s", n, pi, p))
			break
		}
		res.Count("pages_read", 1)
		pages++
		if pi%2 == 0 {
			// (the handle is looked at between two pages: where it stands in the listing is not part of what Stat reports or resets)
			_ = core.Recover(func() { _, _ = f.Stat() })
		}
		for _, e := range page {
			got[e.Name()]++
		}
		k := len(page)
		if k > 0 {
			c16mistreat(page) // the page is the caller's: what it does to it must not show in the pages to come
		}
		ctx := fmt.Sprintf("call %d ReadDir(%d) with %d entries remaining returned %d entries, err=%v", pi, n, remaining, k, perr)
		switch {
		case n > 0 && remaining == 0:
			if k != 0 || perr != io.EOF {
				bad("paged", "eof-missing", ctx+"; want no entries and io.EOF")
			}
		case n > 0:
			if k == 0 && perr == nil {
				bad("paged", "empty-page-nil", ctx)
			} else if k == 0 {
				bad("paged", "eof-early", ctx)
			} else if k > n {
				bad("paged", "page-too-large", ctx)
			} else if perr != nil && !(perr == io.EOF && k == remaining) {
				bad("paged", "error-with-entries", ctx)
			}
		default: // n <= 0: everything that remains, nil error
			if perr != nil {
				bad("paged", "all-with-error", ctx)
			} else if k != remaining {
				what := "all-not-all"
				if pi == 0 {
					what = "fresh-all-not-all"
				}
				bad("paged", what, ctx)
			}
		}
		if k > remaining {
			bad("paged", "more-than-exist", ctx)
			break
		}
		remaining -= k
		if len(res.Violations) > 0 {
			break
		}
	}
	for name, c := range got {
		if c > 1 {
			bad("paged", "duplicate", fmt.Sprintf("%q returned %d times across the pages", name, c))
			break
		}
		if _, ok := wantByName[name]; !ok {
			bad("paged", "extra", fmt.Sprintf("%q is not a child", name))
			break
		}
	}

	// (c) listing a regular file: by name, and through the very handle that has just created it
	if sub.writable {
		var h hackpadfs.File
		var oerr error
		if p := core.Recover(func() { h, oerr = hackpadfs.OpenFile(sub.fs, "znew", os.O_RDWR|os.O_CREATE|os.O_EXCL, 0o644) }); p == "" && oerr == nil {
			for _, n := range []int{-1, 1} {
				var herr error
				var hentries []hackpadfs.DirEntry
				if p := core.Recover(func() { hentries, herr = hackpadfs.ReadDirFile(h, n) }); p != "" {
					bad("notdir", "panic", fmt.Sprintf("ReadDir(%d) on the handle that created a regular file panicked: %s", n, p))
				} else if fsx.Class(herr) != "ErrNotDir" && fsx.Class(herr) != "ErrNotImplemented" {
					bad("notdir", "creating-handle:got="+fsx.Class(herr)+",want=ErrNotDir", fmt.Sprintf("ReadDir(%d) on the handle that has just created the regular file znew returned %d entries, err %v", n, len(hentries), herr))
				}
				res.Count("readdir_on_creating_handle", 1)
			}
			_ = h.Close()
			_ = hackpadfs.Remove(sub.fs, "znew")
		}
	}
	var nerr error
	if p := core.Recover(func() { _, nerr = hackpadfs.ReadDir(sub.fs, "zfile") }); p != "" {
		bad("notdir", "panic", "ReadDir of a regular file panicked: "+p)
	} else if fsx.Class(nerr) != "ErrNotDir" {
		bad("notdir", "got="+fsx.Class(nerr)+",want=ErrNotDir", fmt.Sprintf("ReadDir of a regular file returned %v", nerr))
	}
	res.Key = core.Hash(cs)
	res.Nontrivial = len(want) >= 2 && pages >= 2
	res.Count("subject:"+cs.Subject, 1)
	if idx%101 == 0 {
		res.Sample = cs
	}
	return res
}
