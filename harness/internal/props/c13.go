package props

import (
	"archive/tar"
	"bytes"
	"context"
	"errors"
	"fmt"
	"io"
	"math/rand"
	"strings"
	"sync"
	"sync/atomic"
	"time"

	"hpverif/internal/core"

	"github.com/hack-pad/hackpadfs"
	"github.com/hack-pad/hackpadfs/mem"
	hptar "github.com/hack-pad/hackpadfs/tar"
)

// C13: tar entries become visible atomically and every Open eventually returns.

type c13entry struct {
	Name    string
	Dir     bool
	Body    []byte
	HdrOff  int // offset of the header block in the archive
	EndOff  int // offset just after the padded body
	BodyOff int
}

type c13archive struct {
	data    []byte
	entries []c13entry
}

func c13build(kind int) *c13archive {
	type spec struct {
		name string
		dir  bool
		size int
	}
	var specs []spec
	switch {
	case kind == -2:
		// one entry that needs several rounds of the 4 MiB copy buffer
		// (it is the LAST entry: nothing after it gives the reader another chance to notice a cancellation)
		specs = []spec{{"pre", false, 100}, {"huge", false, 9 << 20}}
	case kind < 0:
		// more small files than the small-buffer pool holds (81), nothing else
		for i := 0; i < 130; i++ {
			specs = append(specs, spec{fmt.Sprintf("p/f%03d", i), false, 200 + i})
		}
	case kind >= 3:
		// seeded archives (thorough): mixed sizes, at most two entries beyond the small buffer
		r := rand.New(rand.NewSource(int64(kind) * 7919))
		big := 0
		n := 5 + r.Intn(11)
		for i := 0; i < n; i++ {
			size := []int{0, 1, 100, 513, 2000, 5000, 151 << 10, 300 << 10}[r.Intn(8)]
			if size > 150<<10 {
				if big >= 2 {
					size = 700
				}
				big++
			}
			name := fmt.Sprintf("r%d", i)
			if r.Intn(3) == 0 {
				name = "dir/" + name
			}
			specs = append(specs, spec{name, false, size})
		}
		if r.Intn(2) == 0 {
			specs = append(specs, spec{"dir", true, 0})
		}
	case kind%3 == 0:
		specs = []spec{{"d", true, 0}, {"d/small1", false, 100}, {"empty", false, 0}, {"d/mid", false, 2000}, {"big", false, 200 << 10}, {"d/sub/after", false, 700}, {".last", false, 90}, {"last", false, 1500}, {"..d", false, 40}}
	case kind%3 == 1:
		specs = []spec{{"x", false, 513}, {"y/z/deep", false, 1024}, {"y", true, 0}, {"big1", false, 160 << 10}, {"w", false, 1}, {"big2", false, 300 << 10}, {"tail", false, 40}}
	default:
		for i := 0; i < 24; i++ {
			specs = append(specs, spec{fmt.Sprintf("m/f%02d", i), false, 300 + i*37})
		}
		specs = append(specs, spec{"m", true, 0}, spec{"end", false, 5000})
	}
	var buf bytes.Buffer
	w := tar.NewWriter(&buf)
	a := &c13archive{}
	for i, s := range specs {
		e := c13entry{Name: s.name, Dir: s.dir, HdrOff: buf.Len()}
		h := &tar.Header{Name: s.name, Mode: 0o644, Format: tar.FormatUSTAR}
		if s.dir {
			h.Typeflag, h.Mode = tar.TypeDir, 0o755
			h.Name += "/"
		} else {
			h.Typeflag, h.Size = tar.TypeReg, int64(s.size)
			e.Body = make([]byte, s.size)
			for j := range e.Body {
				e.Body[j] = byte('A' + (i*13+j)%57)
			}
		}
		_ = w.WriteHeader(h)
		e.BodyOff = buf.Len()
		if !s.dir {
			_, _ = w.Write(e.Body)
		}
		_ = w.Flush()
		e.EndOff = buf.Len()
		a.entries = append(a.entries, e)
	}
	_ = w.Close()
	a.data = buf.Bytes()
	return a
}

var errStream = errors.New("injected stream failure")

// gatedReader is the stream: it delivers at most one 512-byte block per Read and acts at chosen offsets.
type gatedReader struct {
	a        *c13archive
	pos      int
	cutAt    int    // -1: none
	mode     string // truncate | readerror | cancel | none
	cancel   context.CancelFunc
	pauseAt  int // -1: none; when pos reaches it, 'reached' is closed and the reader waits for 'resume'
	reached  chan struct{}
	resume   chan struct{}
	once     sync.Once
	afterCut chan struct{} // delivery after the cut point is withheld until closed (bounded by a grace period)
	progress *int64
	cutDone  bool
	withheld bool
	// zeroEvery > 0: every zeroEvery-th Read returns (0, nil), which io.Reader allows ("nothing happened", not EOF)
	zeroEvery int
	reads     int
	// cancel-stall: after cancelling, the stream delivers nothing more and the Read does not return until 'stall' is closed
	stall     chan struct{}
	cancelled chan struct{}
	// slowClose: the stream is an io.Closer whose Close does not return before the harness has seen Done() and every Open
	// return (it gives up after 20 s)
	slowClose *slowCloser
}

type slowCloser struct {
	release  chan struct{}
	timedOut atomic.Bool
}

type closingReader struct{ *gatedReader }

func (c closingReader) Close() error {
	select {
	case <-c.slowClose.release:
	case <-time.After(20 * time.Second):
		c.slowClose.timedOut.Store(true)
	}
	return nil
}

func (g *gatedReader) Read(p []byte) (int, error) {
	g.reads++
	if g.zeroEvery > 0 && g.reads%g.zeroEvery == 0 && len(p) > 0 {
		return 0, nil
	}
	if g.pauseAt >= 0 && g.pos >= g.pauseAt {
		g.once.Do(func() {
			close(g.reached)
			<-g.resume
		})
	}
	if g.cutAt >= 0 && g.pos >= g.cutAt {
		if g.cutDone && !g.withheld && g.afterCut != nil {
			g.withheld = true
			select { // the next delivery is withheld once while the openers look at what was announced
			case <-g.afterCut:
			case <-time.After(150 * time.Millisecond):
			}
		}
		g.cutDone = true
		switch g.mode {
		case "truncate":
			return 0, io.EOF
		case "readerror":
			if g.cutAt%1024 == 0 {
				// a transport error that wraps io.EOF ("connection closed by peer: EOF") is still a failure of the stream
				return 0, fmt.Errorf("connection closed by peer: %w", io.EOF)
			}
			return 0, errStream
		case "cancel-stall":
			if g.cancel != nil {
				g.cancel()
				g.cancel = nil
				close(g.cancelled)
			}
			<-g.stall // a pipe or connection that delivered part of an entry and then nothing
			return 0, io.EOF
		case "cancel":
			if g.cancel != nil {
				g.cancel()
				g.cancel = nil
			}
			// the stream itself goes on after the cancellation
		}
	}
	if g.pos >= len(g.a.data) {
		return 0, io.EOF
	}
	n := 512 - g.pos%512
	if n > len(p) {
		n = len(p)
	}
	if g.pos+n > len(g.a.data) {
		n = len(g.a.data) - g.pos
	}
	if g.cutAt >= 0 && g.mode != "cancel" && g.pos < g.cutAt && g.pos+n > g.cutAt {
		n = g.cutAt - g.pos
	}
	copy(p, g.a.data[g.pos:g.pos+n])
	g.pos += n
	atomic.StoreInt64(g.progress, int64(g.pos))
	return n, nil
}

// faultDest is the destination FS: it counts calls, fails the chosen one, and can pause inside Write/Close.
type faultDest struct {
	inner      *mem.FS
	mu         sync.Mutex
	n          int
	failAt     int
	persistent bool // every call from failAt on fails (a destination that ran out of space)
	fired      string
	log        []string
	writeGate  chan struct{} // if set, Write blocks until it is closed (a slow destination), at most a few seconds
	// failAllWrites: every Write fails (a destination that is full), after the gate
	failAllWrites bool
	// commitOnClose: what is written becomes part of the file when the handle is closed (a write-behind / object store),
	// and Close takes a moment
	commitOnClose bool
	// directories whose Mkdir or Chmod was refused
	failedDirs map[string]bool
}

func (d *faultDest) call(site string) error {
	d.mu.Lock()
	defer d.mu.Unlock()
	idx := d.n
	d.n++
	d.log = append(d.log, site)
	if idx == d.failAt || d.persistent && d.failAt >= 0 && idx > d.failAt {
		if d.fired == "" {
			d.fired = site
		}
		return errFill
	}
	return nil
}
func (d *faultDest) Open(name string) (hackpadfs.File, error) { return d.inner.Open(name) }
func (d *faultDest) Mkdir(name string, perm hackpadfs.FileMode) error {
	if err := d.call("Mkdir"); err != nil {
		d.noteFailedDir(name)
		return &hackpadfs.PathError{Op: "mkdir", Path: name, Err: err}
	}
	return d.inner.Mkdir(name, perm)
}
func (d *faultDest) noteFailedDir(name string) {
	d.mu.Lock()
	if d.failedDirs == nil {
		d.failedDirs = map[string]bool{}
	}
	d.failedDirs[name] = true
	d.mu.Unlock()
}

func (d *faultDest) Chmod(name string, mode hackpadfs.FileMode) error {
	if err := d.call("Chmod"); err != nil {
		d.noteFailedDir(name)
		return &hackpadfs.PathError{Op: "chmod", Path: name, Err: err}
	}
	return d.inner.Chmod(name, mode)
}
func (d *faultDest) OpenFile(name string, flag int, perm hackpadfs.FileMode) (hackpadfs.File, error) {
	if flag&(hackpadfs.FlagWriteOnly|hackpadfs.FlagReadWrite) == 0 {
		return d.inner.OpenFile(name, flag, perm)
	}
	if err := d.call("OpenFile"); err != nil {
		return nil, &hackpadfs.PathError{Op: "open", Path: name, Err: err}
	}
	f, err := d.inner.OpenFile(name, flag, perm)
	if err != nil {
		return nil, err
	}
	return &faultDestFile{f: f, d: d}, nil
}

type faultDestFile struct {
	f       hackpadfs.File
	d       *faultDest
	pending []byte
}

func (f *faultDestFile) Read(p []byte) (int, error)        { return f.f.Read(p) }
func (f *faultDestFile) Stat() (hackpadfs.FileInfo, error) { return f.f.Stat() }
func (f *faultDestFile) Write(p []byte) (int, error) {
	if g := f.d.writeGate; g != nil {
		select {
		case <-g:
		case <-time.After(1 * time.Second):
		}
	}
	if err := f.d.call("Write"); err != nil {
		return 0, err
	}
	if f.d.failAllWrites {
		f.d.mu.Lock()
		if f.d.fired == "" {
			f.d.fired = "Write"
		}
		f.d.mu.Unlock()
		return 0, errFill
	}
	if f.d.commitOnClose {
		f.pending = append(f.pending, p...)
		return len(p), nil
	}
	return hackpadfs.WriteFile(f.f, p)
}
func (f *faultDestFile) Close() error {
	if err := f.d.call("Close"); err != nil {
		_ = f.f.Close()
		return err
	}
	if f.d.commitOnClose {
		time.Sleep(2 * time.Millisecond) // whoever was told "written" too early gets the chance to look now
		if _, err := hackpadfs.WriteFile(f.f, f.pending); err != nil {
			_ = f.f.Close()
			return err
		}
	}
	return f.f.Close()
}

type c13case struct {
	Part    string `json:"part"` // cut | destfault | race | pubsub | bufferpool
	Archive int    `json:"archive"`
	Cut     int    `json:"cut,omitempty"`
	Mode    string `json:"mode,omitempty"`
	Rep     int    `json:"rep,omitempty"`
	Gate    bool   `json:"gate,omitempty"` // destination writes are held back until the post-mortem Opens were made
}

func c13cutPoints(a *c13archive, dense bool) []int {
	seen := map[int]bool{}
	var pts []int
	add := func(p int) {
		if p >= 0 && p <= len(a.data) && !seen[p] {
			seen[p] = true
			pts = append(pts, p)
		}
	}
	for _, e := range a.entries {
		add(e.HdrOff)
		add(e.BodyOff)
		add(e.EndOff)
		if len(e.Body) > 0 {
			add(e.BodyOff + len(e.Body)/2)
			add(e.BodyOff + len(e.Body) - 1)
			add(e.BodyOff + 1)
			if len(e.Body) > 512 {
				add(e.BodyOff + 512)
			}
		}
	}
	step := 16384
	if dense {
		step = 512
	}
	for p := 0; p <= len(a.data); p += step {
		add(p)
	}
	return pts
}

func c13cases(env *core.Env) []c13case {
	var cs []c13case
	archives := env.Pick(3, 9)
	for ai := 0; ai < archives; ai++ {
		a := c13build(ai)
		for _, cut := range c13cutPoints(a, env.Thorough()) {
			for _, mode := range []string{"truncate", "readerror", "cancel"} {
				cs = append(cs, c13case{Part: "cut", Archive: ai, Cut: cut, Mode: mode})
			}
			if cut%3 == 0 {
				cs = append(cs, c13case{Part: "cut", Archive: ai, Cut: cut, Mode: "cancel-stall"})
			}
			if ai%3 == 2 && ai < 3 { // all entries of this archive are small: only background writers touch the (held back) destination
				cs = append(cs, c13case{Part: "cut", Archive: ai, Cut: cut, Mode: "cancel", Gate: true}, c13case{Part: "cut", Archive: ai, Cut: cut, Mode: "readerror", Gate: true})
			}
		}
		cs = append(cs, c13case{Part: "destfault", Archive: ai})
		for r := 0; r < env.Pick(30, 400); r++ {
			cs = append(cs, c13case{Part: "race", Archive: ai, Rep: r})
		}
	}
	for r := 0; r < env.Pick(40, 1000); r++ {
		cs = append(cs, c13case{Part: "pubsub", Rep: r}, c13case{Part: "bufferpool", Rep: r})
	}
	for r := 0; r < env.Pick(2, 6); r++ {
		cs = append(cs, c13case{Part: "poolfail", Rep: r})
	}
	for r := 0; r < 3; r++ {
		cs = append(cs, c13case{Part: "duplicate", Rep: r})
	}
	for r := 0; r < env.Pick(2, 8); r++ {
		cs = append(cs, c13case{Part: "hugecancel", Rep: r})
	}
	for r := 0; r < env.Pick(1, 3); r++ {
		cs = append(cs, c13case{Part: "manyfailures", Rep: r})
	}
	return cs
}

func init() {
	core.Register(&core.Prop{
		ID:    "C13",
		Level: "fault_enumeration",
		Rule: "the harness is the stream: a gated io.Reader delivers three archives (directories, small files, files beyond the 150 KiB small buffer, 26 small files in a row) block by block and, at every chosen cut point (every header, body start, middle, last byte and end of every entry, plus a grid over the stream; every 512-byte block in thorough), truncates the stream, fails it (with a plain error or one that wraps io.EOF), cancels the context, or cancels it and then stalls inside the Read (Opens must still return), while 1..8 opener goroutines started at a pause point before the cut call Open for every entry (already delivered, being delivered, not yet reached), a directory and a missing name; the delivery after the cut is withheld briefly so that whatever the tar FS announces at that moment is observed. " +
			"Oracle: an Open that succeeds on a regular entry must deliver exactly the entry's bytes; every Open and Done() must have returned once the stream has ended (watchdog + goroutine dump). The same with a failure injected at every destination call index (Mkdir, Chmod, OpenFile, Write, Close), and free-running openers against an undisturbed stream under the race detector (a third of those streams return (0, nil) from some Reads, as io.Reader allows). pubsub and bufferPool are driven directly through the verif hooks: every Wait returns once its key was emitted or the context ended; buffers outstanding never exceed the capacity. Non-trivial: all cut/fault cases in which at least one Open was pending when the fault happened; distinct by case parameters",
		Assumptions: []string{"the 150 ms withholding after a cut only widens the observation window; no verdict depends on it", "destination is a mem.FS behind the fault wrapper"},
		NumCases:    func(env *core.Env) int { return len(c13cases(env)) },
		Batch:       25,
		Race:        true,
		Run:         c13run,
		Floor: func(env *core.Env, agg *core.Agg) string {
			if agg.Counters["opens_observed"] < 2000 || agg.Counters["dest_fault_runs"] < 50 {
				return fmt.Sprint(agg.Counters["opens_observed"], agg.Counters["dest_fault_runs"])
			}
			return ""
		},
	})
}

type c13open struct {
	name    string
	ok      bool
	err     error
	bytes   []byte
	started int64 // stream progress when the Open was issued
	done    bool
}

// c13drive runs one unpacking with openers; returns the opens observed and whether everything returned.
func c13drive(a *c13archive, g *gatedReader, dest *faultDest, ctx context.Context, openers int, r *rand.Rand, res *core.CaseResult, sigBase string, wit any) {
	var opt hptar.ReaderFSOptions
	if dest != nil {
		opt.UnarchiveFS = dest
	}
	var stream io.Reader = g
	if g.slowClose != nil {
		stream = closingReader{g}
		defer func() {
			select {
			case <-g.slowClose.release:
			default:
				close(g.slowClose.release)
			}
		}()
	}
	t, err := hptar.NewReaderFS(ctx, stream, opt)
	if err != nil {
		res.Violate(sigBase+"|constructor", "NewReaderFS failed: "+err.Error(), wit)
		return
	}
	names := []string{"missing-name", "."}
	for _, e := range a.entries {
		names = append(names, e.Name)
	}
	var mu sync.Mutex
	var opens []*c13open
	var wg sync.WaitGroup
	startOpeners := func(k int) {
		for i := 0; i < k; i++ {
			for _, n := range names {
				if r.Intn(3) == 0 && k > 1 {
					continue
				}
				o := &c13open{name: n, started: atomic.LoadInt64(g.progress)}
				mu.Lock()
				opens = append(opens, o)
				mu.Unlock()
				wg.Add(1)
				go func(o *c13open) {
					defer wg.Done()
					f, err := t.Open(o.name)
					if err == nil {
						b, rerr := io.ReadAll(f)
						_ = f.Close()
						o.ok, o.bytes = rerr == nil || errors.Is(rerr, hackpadfs.ErrIsDir), b
						if rerr != nil && !errors.Is(rerr, hackpadfs.ErrIsDir) {
							err = rerr
						}
					}
					o.err = err
					mu.Lock()
					o.done = true
					mu.Unlock()
				}(o)
			}
		}
	}
	if g.pauseAt >= 0 {
		select {
		case <-g.reached:
		case <-t.Done():
		case <-time.After(20 * time.Second):
		}
	}
	startOpeners(openers)
	time.Sleep(time.Millisecond) // let the openers block inside Open
	if g.pauseAt >= 0 {
		close(g.resume)
	}
	if g.mode == "cancel-stall" {
		// the caller cancelled while the stream is stalled inside a Read that will not return: every Open must return all
		// the same (Done() cannot: the reader goroutine is inside the stalled Read, so it is not demanded here)
		select {
		case <-g.cancelled:
			opened := make(chan struct{})
			go func() { wg.Wait(); close(opened) }()
			select {
			case <-opened:
				res.Count("opens_returned_while_stream_stalled", 1)
			case <-time.After(20 * time.Second):
				pending := 0
				mu.Lock()
				for _, o := range opens {
					if !o.done {
						pending++
					}
				}
				mu.Unlock()
				close(g.stall)
				res.Violate(sigBase+"|blocked-after-cancel", fmt.Sprintf("20 s after the caller cancelled (the stream stalled inside a Read) %d Open calls have not returned", pending), wit)
				return
			}
		case <-t.Done():
		case <-time.After(20 * time.Second):
		}
		close(g.stall)
	}
	// bounded progress: Done() and every Open must return once the stream has ended
	finished := make(chan struct{})
	go func() { <-t.Done(); wg.Wait(); close(finished) }()
	select {
	case <-finished:
	case <-time.After(60 * time.Second):
		pending := 0
		mu.Lock()
		for _, o := range opens {
			if !o.done {
				pending++
			}
		}
		mu.Unlock()
		doneClosed := false
		select {
		case <-t.Done():
			doneClosed = true
		default:
		}
		res.Violate(sigBase+"|blocked", fmt.Sprintf("60 s after the stream ended %d Open calls have not returned (Done closed: %v)", pending, doneClosed), wit)
		return
	}
	if g.slowClose != nil {
		res.Count("streams_with_a_pending_close", 1)
		if g.slowClose.timedOut.Load() {
			res.Violate(sigBase+"|released-only-after-source-close", "the stream had ended, but Done() and the pending Opens only returned after the source's Close had returned (Close was kept pending until they would return; it gave up after 20 s)", wit)
			return
		}
		close(g.slowClose.release)
	}
	if g.afterCut != nil {
		select {
		case <-g.afterCut:
		default:
			close(g.afterCut)
		}
	}
	body := map[string][]byte{}
	isDir := map[string]bool{".": true}
	for _, e := range a.entries {
		body[e.Name] = e.Body
		if e.Dir {
			isDir[e.Name] = true
		}
	}
	check := func(o *c13open, when string) {
		res.Count("opens_observed", 1)
		if !o.ok || isDir[o.name] {
			return
		}
		want, known := body[o.name]
		if !known {
			res.Violate(sigBase+"|missing-name-opened", fmt.Sprintf("Open(%q) succeeded although no entry has that name", o.name), wit)
			return
		}
		if !bytes.Equal(o.bytes, want) {
			cls := "prefix"
			if len(o.bytes) > len(want) || !bytes.Equal(o.bytes, want[:len(o.bytes)]) {
				cls = "different"
			}
			res.Violate(sigBase+"|"+when+"|partial-"+cls, fmt.Sprintf("Open(%q) (%s, issued at stream offset %d) succeeded with %d of %d bytes", o.name, when, o.started, len(o.bytes), len(want)), wit)
		}
	}
	for _, o := range opens {
		check(o, "during")
	}
	// afterwards: every entry once more (with a gated destination: while its background writes are still held back)
	defer func() {
		if dest != nil && dest.writeGate != nil {
			select {
			case <-dest.writeGate:
			default:
				close(dest.writeGate)
			}
		}
	}()
	for _, n := range names {
		o := &c13open{name: n, started: -1}
		f, err := t.Open(n)
		if err == nil && dest != nil && isDir[n] {
			dest.mu.Lock()
			refused := dest.failedDirs[n]
			dest.mu.Unlock()
			if refused {
				res.Violate(sigBase+"|after|directory-opened-although-its-creation-failed", fmt.Sprintf("the destination refused to create %q or to set its mode, yet Open(%q) succeeds after unpacking (UnarchiveErr: %v)", n, n, t.UnarchiveErr()), wit)
			}
		}
		if err == nil {
			b, rerr := io.ReadAll(f)
			_ = f.Close()
			o.ok, o.bytes = rerr == nil || errors.Is(rerr, hackpadfs.ErrIsDir), b
		}
		check(o, "after")
	}
	res.Count("opens_pending_at_fault", len(opens))
}

func c13run(env *core.Env, idx int) core.CaseResult {
	cs := c13cases(env)[idx]
	var res core.CaseResult
	res.Key = core.Hash(cs)
	r := rand.New(rand.NewSource(env.Seed*19_000_013 + int64(idx)))
	switch cs.Part {
	case "pubsub":
		c13pubsub(r, &res)
		return res
	case "bufferpool":
		c13bufferpool(r, &res)
		return res
	}
	a := c13build(cs.Archive)
	var progress int64
	if cs.Part == "poolfail" {
		// 130 small files into a destination that is slow (writes are held back until the buffer pool is exhausted and the
		// reader waits for a buffer) and then full (every write fails): unpacking must still end, with an error
		a = c13build(-1)
		d := &faultDest{failAt: -1, failAllWrites: true, writeGate: make(chan struct{})}
		d.inner, _ = mem.NewFS()
		g := &gatedReader{a: a, cutAt: -1, mode: "none", pauseAt: -1, progress: &progress}
		go func() {
			// release the held-back writes once the reader has stopped making progress (pool exhausted) or after a while
			last, same := int64(-1), 0
			for i := 0; i < 400 && same < 20; i++ {
				time.Sleep(5 * time.Millisecond)
				if p := atomic.LoadInt64(&progress); p == last {
					same++
				} else {
					last, same = p, 0
				}
			}
			close(d.writeGate)
		}()
		c13drive(a, g, d, context.Background(), 1+cs.Rep%2, r, &res, "C13|poolfail|all-writes-fail", cs)
		res.Nontrivial = true
		res.Count("poolfail_runs", 1)
		return res
	}
	switch cs.Part {
	case "cut":
		ctx, cancel := context.WithCancel(context.Background())
		defer cancel()
		pause := cs.Cut - 512*(1+r.Intn(4))
		if pause < 0 {
			pause = 0
		}
		g := &gatedReader{a: a, cutAt: cs.Cut, mode: cs.Mode, cancel: cancel, pauseAt: pause, reached: make(chan struct{}), resume: make(chan struct{}), afterCut: make(chan struct{}), progress: &progress, stall: make(chan struct{}), cancelled: make(chan struct{})}
		where := c13where(a, cs.Cut)
		sig := fmt.Sprintf("C13|cut|%s|%s", cs.Mode, where)
		var dest *faultDest
		if cs.Gate {
			dest = &faultDest{failAt: -1, writeGate: make(chan struct{})}
			dest.inner, _ = mem.NewFS()
			sig += "|slow-destination"
		}
		c13drive(a, g, dest, ctx, 1+r.Intn(3), r, &res, sig, cs)
		res.Nontrivial = true
		res.Seen("cut_situations", cs.Mode+"|"+where)
	case "race":
		g := &gatedReader{a: a, cutAt: -1, mode: "none", pauseAt: -1, progress: &progress}
		if cs.Rep%3 == 0 {
			g.pauseAt, g.reached, g.resume = (cs.Rep*1536)%len(a.data), make(chan struct{}), make(chan struct{})
		}
		sig := "C13|race|undisturbed"
		if cs.Rep%3 == 1 {
			g.zeroEvery = 2 + cs.Rep%5 // a source that now and then returns (0, nil): "nothing happened", not end of stream
			sig = "C13|race|undisturbed,empty-reads"
			res.Count("streams_with_empty_reads", 1)
		}
		var dest *faultDest
		if cs.Rep%3 == 2 {
			// a destination whose files are complete only once Close has returned, and a source whose Close is slow
			dest = &faultDest{failAt: -1, commitOnClose: true}
			dest.inner, _ = mem.NewFS()
			g.slowClose = &slowCloser{release: make(chan struct{})}
			sig = "C13|race|commit-on-close-destination,slow-closing-source"
		}
		c13drive(a, g, dest, context.Background(), 1+r.Intn(8), r, &res, sig, cs)
		res.Nontrivial = true
	case "manyfailures":
		// 120 unpackings in this process whose stream breaks off inside the data of a small entry (its first read fails),
		// then a well-formed archive: what one unpacking loses, it must not take from the next one
		a = c13build(cs.Rep)
		first := a.entries[0]
		for _, e := range a.entries {
			if !e.Dir && len(e.Body) > 20 && len(e.Body) < 100<<10 {
				first = e
				break
			}
		}
		for i := 0; i < 120; i++ {
			t, err := hptar.NewReaderFS(context.Background(), bytes.NewReader(a.data[:first.BodyOff+10]), hptar.ReaderFSOptions{})
			if err != nil {
				break
			}
			select {
			case <-t.Done():
			case <-time.After(60 * time.Second):
				res.Violate("C13|manyfailures|blocked", fmt.Sprintf("unpacking #%d of a stream that ends inside an entry's data did not finish within 60 s", i+1), cs)
				return res
			}
		}
		var prog int64
		g := &gatedReader{a: a, cutAt: -1, mode: "none", pauseAt: -1, progress: &prog}
		c13drive(a, g, nil, context.Background(), 2, r, &res, "C13|after-120-failed-unpackings|undisturbed", cs)
		res.Nontrivial = true
		res.Count("unpackings_after_many_failures", 1)
	case "duplicate":
		c13duplicate(cs, &res)
	case "hugecancel":
		// the caller cancels (or the stream fails) while an entry of 9 MiB is between two rounds of the big copy buffer
		a = c13build(-2)
		ctx, cancel := context.WithCancel(context.Background())
		defer cancel()
		huge := a.entries[1]
		cut := huge.BodyOff + (4<<20 + 150<<10) + 512*(1+cs.Rep*997%4000) // somewhere in the second or third round
		mode := []string{"cancel", "readerror"}[cs.Rep%2]
		g := &gatedReader{a: a, cutAt: cut, mode: mode, cancel: cancel, pauseAt: huge.BodyOff, reached: make(chan struct{}), resume: make(chan struct{}), afterCut: make(chan struct{}), progress: &progress, stall: make(chan struct{}), cancelled: make(chan struct{})}
		c13drive(a, g, nil, ctx, 2, r, &res, "C13|cut|"+mode+"|inside-body:huge", cs)
		res.Nontrivial = true
		res.Count("huge_entry_cuts", 1)
	case "destfault":
		// count the destination calls of a clean unpacking, then fail each in turn
		clean := &faultDest{failAt: -1}
		clean.inner, _ = mem.NewFS()
		g := &gatedReader{a: a, cutAt: -1, mode: "none", pauseAt: -1, progress: &progress}
		c13drive(a, g, clean, context.Background(), 1, r, &res, "C13|destfault|clean", cs)
		n := clean.n
		res.Evals = n + 1
		res.Sample = map[string]any{"case": cs, "destination_calls_of_a_clean_unpacking": n}
		for k := 0; k < n && len(res.Violations) == 0; k++ {
			d := &faultDest{failAt: k}
			d.inner, _ = mem.NewFS()
			var prog int64
			pause := (k * 997) % len(a.data)
			g := &gatedReader{a: a, cutAt: -1, mode: "none", pauseAt: pause, reached: make(chan struct{}), resume: make(chan struct{}), progress: &prog}
			site := "?"
			if k < len(clean.log) {
				site = clean.log[k]
			}
			c13drive(a, g, d, context.Background(), 1+r.Intn(2), r, &res, "C13|destfault|"+site, map[string]any{"case": cs, "fault_index": k, "site": site})
			res.Count("dest_fault_runs", 1)
			res.Seen("dest_fault_sites", site)
			if k%3 == 0 && len(res.Violations) == 0 {
				// the same, but the destination keeps failing from this call on (several background writers fail)
				d := &faultDest{failAt: k, persistent: true}
				d.inner, _ = mem.NewFS()
				var prog2 int64
				g := &gatedReader{a: a, cutAt: -1, mode: "none", pauseAt: -1, progress: &prog2}
				c13drive(a, g, d, context.Background(), 1, r, &res, "C13|destfault-persistent|"+site, map[string]any{"case": cs, "fails_from_index": k, "site": site})
				res.Count("dest_fault_runs", 1)
			}
		}
		res.Nontrivial = true
	}
	if idx%43 == 0 && res.Sample == nil {
		res.Sample = cs
	}
	return res
}

// c13duplicate: an archive that was appended to (tar -r) holds a member twice; both versions are beyond the small
// buffer, so they are written one after the other by the reader itself. After Done() the name yields exactly the later
// version, in particular when that one is the shorter. (Opens while the stream is running are not judged here:
// which version "the entry" is at that moment is not defined.)
func c13duplicate(cs c13case, res *core.CaseResult) {
	sizes := [][2]int{{200 << 10, 152 << 10}, {152 << 10, 300 << 10}, {5 << 20, 160 << 10}}[cs.Rep%3]
	var buf bytes.Buffer
	w := tar.NewWriter(&buf)
	var last []byte
	names := [][2]string{{"dup", "dup"}, {"dup", "./dup"}, {"d/dup", "d//dup"}}[cs.Rep%3]
	for i, size := range sizes {
		body := make([]byte, size)
		for j := range body {
			body[j] = byte('a' + (i*7+j)%23)
		}
		_ = w.WriteHeader(&tar.Header{Name: names[i], Mode: 0o644, Typeflag: tar.TypeReg, Size: int64(size), Format: tar.FormatUSTAR})
		_, _ = w.Write(body)
		if i == 0 {
			_ = w.WriteHeader(&tar.Header{Name: "between", Mode: 0o644, Typeflag: tar.TypeReg, Size: 3, Format: tar.FormatUSTAR})
			_, _ = w.Write([]byte("mid"))
		}
		last = body
	}
	_ = w.Close()
	t, err := hptar.NewReaderFS(context.Background(), bytes.NewReader(buf.Bytes()), hptar.ReaderFSOptions{})
	if err != nil {
		res.Violate("C13|duplicate|constructor", err.Error(), cs)
		return
	}
	select {
	case <-t.Done():
	case <-time.After(60 * time.Second):
		res.Violate("C13|duplicate|blocked", "Done() did not return within 60 s of the end of the stream", cs)
		return
	}
	res.Nontrivial = true
	res.Count("duplicate_member_archives", 1)
	name := strings.TrimPrefix(names[0], "./")
	got, rerr := hackpadfs.ReadFile(t, name)
	if rerr != nil {
		if t.UnarchiveErr() != nil {
			return // refusing such an archive is an answer, too
		}
		res.Violate("C13|duplicate|after|open-failed", fmt.Sprintf("unpacking reported no error, but Open(%q) fails: %v", name, rerr), cs)
		return
	}
	if !bytes.Equal(got, last) {
		res.Violate("C13|duplicate|after|partial-different", fmt.Sprintf("the archive holds %q twice (%d bytes, later %d bytes); after Done() the name yields %d bytes that are not the later version", name, sizes[0], sizes[1], len(got)), cs)
	}
}

// c13where names the position of a cut relative to the entries.
func c13where(a *c13archive, cut int) string {
	for _, e := range a.entries {
		switch {
		case cut == e.HdrOff:
			return "before-header"
		case cut > e.HdrOff && cut < e.BodyOff:
			return "inside-header"
		case cut == e.BodyOff && len(e.Body) > 0:
			return "at-body-start:" + c13sizeClass(len(e.Body))
		case cut > e.BodyOff && cut < e.BodyOff+len(e.Body):
			return "inside-body:" + c13sizeClass(len(e.Body))
		case cut >= e.BodyOff+len(e.Body) && cut < e.EndOff:
			return "inside-padding"
		}
	}
	return "trailer"
}

func c13sizeClass(n int) string {
	if n > 150<<10 {
		return "big"
	}
	return "small"
}

// ---- pubsub and bufferPool, driven directly through the verif hooks

func c13pubsub(r *rand.Rand, res *core.CaseResult) {
	ctx, cancel := context.WithCancel(context.Background())
	defer cancel()
	ps := hptar.NewPubsubVerif(ctx)
	keys := []string{"a", "b", "c", "d"}
	neverEmitted := "never"
	var wg sync.WaitGroup
	var returnedBeforeEmit int32
	emitted := map[string]*int32{}
	for _, k := range keys {
		emitted[k] = new(int32)
	}
	waiters := 2 + r.Intn(12)
	for i := 0; i < waiters; i++ {
		k := keys[r.Intn(len(keys))]
		if r.Intn(6) == 0 {
			k = neverEmitted
		}
		wg.Add(1)
		go func(k string) {
			defer wg.Done()
			ps.Wait(k)
			if k != neverEmitted && atomic.LoadInt32(emitted[k]) == 0 && ctx.Err() == nil {
				atomic.AddInt32(&returnedBeforeEmit, 1)
			}
		}(k)
	}
	for _, k := range keys {
		k := k
		delay := r.Intn(3)
		wg.Add(1)
		go func() {
			defer wg.Done()
			for j := 0; j < delay; j++ {
				time.Sleep(time.Microsecond)
			}
			atomic.StoreInt32(emitted[k], 1)
			ps.Emit(k)
			ps.Emit(k)
		}()
	}
	// late waiters on already emitted keys must not block
	time.Sleep(2 * time.Millisecond)
	for _, k := range keys {
		wg.Add(1)
		go func(k string) { defer wg.Done(); ps.Wait(k) }(k)
	}
	time.AfterFunc(5*time.Millisecond, cancel) // releases the waiters of the key that is never emitted
	hung, confirmed := withWatchdog(wg.Wait)
	res.Count("pubsub_groups", 1)
	res.Count("opens_observed", waiters)
	res.Nontrivial = true
	switch {
	case hung && confirmed:
		res.Violate("C13|pubsub|lost-wakeup", fmt.Sprintf("%d waiters: some Wait did not return although its key was emitted / the context ended", waiters), nil)
	case hung:
		res.Inconclusive = "pubsub group did not finish"
	case returnedBeforeEmit > 0:
		res.Violate("C13|pubsub|early-wakeup", fmt.Sprintf("%d Wait calls returned before their key was emitted", returnedBeforeEmit), nil)
	}
}

func c13bufferpool(r *rand.Rand, res *core.CaseResult) {
	capacity := 1 + r.Intn(5)
	pool := hptar.NewBufferPoolVerif(64, uint64(capacity))
	var outstanding, maxOut int32
	var wg sync.WaitGroup
	users := 2 + r.Intn(10)
	for i := 0; i < users; i++ {
		wg.Add(1)
		go func() {
			defer wg.Done()
			for j := 0; j < 5; j++ {
				b := pool.Wait()
				n := atomic.AddInt32(&outstanding, 1)
				for {
					m := atomic.LoadInt32(&maxOut)
					if n <= m || atomic.CompareAndSwapInt32(&maxOut, m, n) {
						break
					}
				}
				if len(b.Data()) != 64 {
					atomic.StoreInt32(&maxOut, 1<<20)
				}
				time.Sleep(time.Microsecond)
				atomic.AddInt32(&outstanding, -1)
				b.Done()
			}
		}()
	}
	hung, confirmed := withWatchdog(wg.Wait)
	res.Count("bufferpool_groups", 1)
	res.Nontrivial = true
	switch {
	case hung && confirmed:
		res.Violate("C13|bufferpool|starved", fmt.Sprintf("capacity %d, %d users: a Wait never got a buffer although buffers were returned", capacity, users), nil)
	case hung:
		res.Inconclusive = "bufferpool group did not finish"
	case int(maxOut) > capacity:
		res.Violate("C13|bufferpool|over-capacity", fmt.Sprintf("%d buffers were outstanding with a capacity of %d", maxOut, capacity), nil)
	case pool.Provisioned() > int64(pool.Capacity()):
		res.Violate("C13|bufferpool|over-provisioned", fmt.Sprintf("%d buffers provisioned with a capacity of %d", pool.Provisioned(), pool.Capacity()), nil)
	}
}
