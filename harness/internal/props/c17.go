package props

import (
	"bytes"
	"fmt"
	"io"
	"math/rand"
	"os"
	"strings"

	"hpverif/internal/core"
	"hpverif/internal/fsx"

	"github.com/hack-pad/hackpadfs"
)

// C17: closed handles fail cleanly; handles never resurrect removed names.

var c17methods = []string{"H.Read", "H.ReadAt", "H.Write", "H.WriteAt", "H.Seek", "H.Stat", "H.ReadDir", "H.Truncate", "H.Chmod", "H.Sync", "H.Close",
	// argument variants that an implementation might special-case before looking at the handle's state
	"H.Seek/cur0", "H.Seek/end0", "H.Seek/cur1", "H.Read/0", "H.ReadAt/0", "H.Write/empty", "H.WriteAt/empty", "H.Truncate/0", "H.ReadDir/all", "H.ReadDir/0",
	// ... and invalid arguments: the closed handle is what a closed os.File complains about, not the argument
	"H.Truncate/neg", "H.Seek/neg", "H.Seek/whence9", "H.ReadAt/neg", "H.WriteAt/neg", "H.Chmod/special", "H.Chtimes", "H.Chtimes/zero"}
var c17kinds = []string{"ro", "wo", "rw", "rw+app", "dir"}

type c17case struct {
	Part    string `json:"part"` // closed | siblings | lifecycle
	Subject string `json:"subject"`
	Kind    string `json:"kind,omitempty"`
	M1, M2  string
	Seed    int64 `json:"seed,omitempty"`
	Reopen  bool  `json:"reopen,omitempty"` // after Close another file is opened (and stays open) before the closed handle is used again
	Warm    bool  `json:"warm,omitempty"`   // M1 and M2 are also called once BEFORE Close (something remembered from then must not answer afterwards)
}

func c17cases(env *core.Env) []c17case {
	var cs []c17case
	for _, s := range populatedSubjects {
		for _, k := range c17kinds {
			if (s == "cache" || s == "cache-min" || s == "tar" || s == "tar-min") && k != "ro" && k != "dir" {
				continue
			}
			for _, m1 := range c17methods {
				if !strings.Contains(m1, "/") {
					cs = append(cs, c17case{Part: "closed", Subject: s, Kind: k, M1: m1, M2: "H.Stat", Warm: true})
					cs = append(cs, c17case{Part: "closed", Subject: s, Kind: k, M1: m1, M2: "H.Close", Reopen: true})
				}
				if strings.Contains(m1, "/") {
					cs = append(cs, c17case{Part: "closed", Subject: s, Kind: k, M1: m1, M2: "H.Stat"})
					continue
				}
				for _, m2 := range c17methods {
					if !strings.Contains(m2, "/") {
						cs = append(cs, c17case{Part: "closed", Subject: s, Kind: k, M1: m1, M2: m2})
					}
				}
			}
		}
	}
	for _, s := range populatedSubjects {
		for i := 0; i < env.Pick(40, 600); i++ {
			cs = append(cs, c17case{Part: "dirsiblings", Subject: s, Seed: int64(i)})
		}
	}
	for _, s := range []string{"mem", "kvplain", "mount", "sub", "os"} {
		for i := 0; i < env.Pick(200, 3000); i++ {
			cs = append(cs, c17case{Part: "siblings", Subject: s, Seed: int64(i)})
			cs = append(cs, c17case{Part: "lifecycle", Subject: s, Seed: int64(i)})
		}
	}
	return cs
}

func init() {
	core.Register(&core.Prop{
		ID:    "C17",
		Level: "exploration",
		Rule: "(closed) for every FS kind (mem, keyvalue over a plain Store, mount, Sub, cache full/minimal store, tar default/minimal destination, os.FS) and handle kind (read-only, write-only, read-write, append, directory) the handle is closed and every ordered pair of the 11 methods is called on it: each call must return an error, never panic, and match ErrClosed wherever the same call on a closed *os.File does; " +
			"(closed, warm) each method is also called once before Close, so that nothing remembered from then answers afterwards; (closed, reopen) another file is opened after the Close and must survive calls (incl. a second Close) on the closed handle, which must stay closed; (siblings) random scripts on 2..3 handles of one file record every other handle's offset and usability around each call; (dirsiblings) 2..3 handles on one directory are paged, stat'ed and closed in random order on every FS kind and compared with os directory handles (page sizes as counts, complete listings as sets); (lifecycle) random histories open 1..3 handles, Remove/Rename/re-create the path and write through the old handles: the old name must not exist again unless the history re-created it. Non-trivial: all cases (each makes >=2 calls on a closed or unlinked handle); distinct by case parameters",
		Assumptions: []string{"reference for ErrClosed expectations and for lifecycle outcomes is *os.File / the os package on Linux"},
		NumCases:    func(env *core.Env) int { return len(c17cases(env)) },
		Batch:       300,
		Run:         c17run,
		Floor: func(env *core.Env, agg *core.Agg) string {
			if agg.Counters["calls_after_close"] < 5000 || agg.Counters["writes_after_unlink"] < 50 {
				return fmt.Sprint(agg.Counters)
			}
			return ""
		},
	})
}

func c17step(m string) fsx.Step {
	variant := ""
	if i := strings.Index(m, "/"); i >= 0 {
		m, variant = m[:i], m[i+1:]
	}
	st := fsx.Step{K: m, Slot: 0}
	switch m {
	case "H.Read", "H.ReadAt", "H.ReadDir":
		st.N = 3
	case "H.Write", "H.WriteAt":
		st.Data = "late"
	case "H.Chmod":
		st.Perm = 0o600
	case "H.Truncate":
		st.Off = 4
	}
	switch variant {
	case "cur0":
		st.Whence = io.SeekCurrent
	case "end0":
		st.Whence = io.SeekEnd
	case "cur1":
		st.Whence, st.Off = io.SeekCurrent, 1
	case "0":
		st.N, st.Off = 0, 0
	case "empty":
		st.Data = ""
	case "all":
		st.N = -1
	case "neg":
		st.Off = -1
	case "whence9":
		st.Whence = 9
	case "special":
		st.Perm = uint32(os.ModeSetuid|os.ModeSticky) | 0o7777
	case "zero":
		st.N = 1 // zero access time
	}
	if m == "H.Chtimes" {
		st.MTime = 1_500_000_000
	}
	return st
}

func c17open(kind string) fsx.Step {
	switch kind {
	case "dir":
		return fsx.Step{K: "Open", P: "d", Flag: os.O_RDONLY}
	case "wo":
		return fsx.Step{K: "Open", P: "f", Flag: os.O_WRONLY}
	case "rw":
		return fsx.Step{K: "Open", P: "f", Flag: os.O_RDWR}
	case "rw+app":
		return fsx.Step{K: "Open", P: "f", Flag: os.O_RDWR | os.O_APPEND}
	}
	return fsx.Step{K: "Open", P: "f", Flag: os.O_RDONLY}
}

var c17items = []treeItem{{Path: "d", Dir: true, Perm: 0o755}, {Path: "d/x", Perm: 0o644, Data: "x"}, {Path: "f", Perm: 0o644, Data: "0123456789"}}

func c17run(env *core.Env, idx int) core.CaseResult {
	cs := c17cases(env)[idx]
	var res core.CaseResult
	res.Key = core.Hash(cs)
	res.Nontrivial = true
	// every part runs under a watchdog: a call on a handle that never returns (a lock that stayed taken) is a result, too
	var inner core.CaseResult
	inner.Key, inner.Nontrivial = res.Key, true
	hung, confirmed := withWatchdog(func() {
		switch cs.Part {
		case "closed":
			c17closed(env, cs, &inner)
		case "siblings":
			c17siblings(env, cs, &inner)
		case "dirsiblings":
			c17dirSiblings(env, cs, &inner)
		default:
			c17lifecycle(env, cs, &inner)
		}
	})
	switch {
	case hung && confirmed:
		res.Violate(fmt.Sprintf("C17|%s|%s|got=hang,want=returns", cs.Subject, cs.Part), fmt.Sprintf("[%s] a %s history did not finish: the goroutine dump shows a call on a handle parked on a lock", cs.Subject, cs.Part), cs)
	case hung:
		res.Inconclusive = "a handle history did not finish, no blocked-state witness"
	default:
		res = inner
	}
	if idx%397 == 0 {
		res.Sample = cs
	}
	return res
}

func c17closed(env *core.Env, cs c17case, res *core.CaseResult) {
	sub, err := newPopulated(env, cs.Subject, c17items)
	if err != nil {
		res.Inconclusive = "setup: " + err.Error()
		return
	}
	defer sub.cleanup()
	ref, err := fsx.NewOSRef(env.Scratch)
	if err != nil {
		res.Inconclusive = err.Error()
		return
	}
	defer ref.Cleanup()
	if err := buildTree(ref, c17items); err != nil {
		res.Inconclusive = err.Error()
		return
	}
	var sh, rh fsx.Handles
	open := c17open(cs.Kind)
	so := fsx.Exec(sub.fs, open, &sh, nil)
	ro := fsx.Exec(ref, open, &rh, nil)
	if !so.OK() || !ro.OK() {
		if ro.OK() {
			res.Violate(fmt.Sprintf("C17|%s|%s|open|got=fail,want=ok", cs.Subject, cs.Kind), fmt.Sprintf("cannot open a %s handle: %s", cs.Kind, so), cs)
		}
		return
	}
	defer rh.CloseAll()
	if cs.Warm {
		for _, m := range []string{cs.M1, cs.M2} {
			if st := c17step(m); st.K != "H.Close" {
				_ = fsx.Exec(sub.fs, st, &sh, nil)
				_ = fsx.Exec(ref, st, &rh, nil)
			}
		}
	}
	sc := fsx.Exec(sub.fs, fsx.Step{K: "H.Close"}, &sh, nil)
	_ = fsx.Exec(ref, fsx.Step{K: "H.Close"}, &rh, nil)
	if !sc.OK() {
		res.Violate(fmt.Sprintf("C17|%s|%s|first-close|got=%s,want=ok", cs.Subject, cs.Kind, sc.Outcome()), "closing an open handle failed: "+sc.String(), cs)
		return
	}
	if cs.Reopen {
		// another handle comes to life after the Close (objects of closed handles must not be handed out again while the
		// caller can still reach them); it has to survive whatever is done with the closed one
		other := fsx.Step{K: "Open", P: "d/x", Flag: os.O_RDONLY, Slot: 1}
		if cs.Kind == "dir" {
			other.P = "f"
		}
		if o := fsx.Exec(sub.fs, other, &sh, nil); !o.OK() {
			res.Violate(fmt.Sprintf("C17|%s|%s|open-after-close|got=fail,want=ok", cs.Subject, cs.Kind), "cannot open another file after closing a handle: "+o.String(), cs)
			return
		}
		_ = fsx.Exec(ref, other, &rh, nil)
		defer func() {
			if len(res.Violations) > 0 {
				return
			}
			for _, st := range []fsx.Step{{K: "H.Stat", Slot: 1}, {K: "H.Read", Slot: 1, N: 4}, {K: "H.Close", Slot: 1}} {
				sr, rr := fsx.Exec(sub.fs, st, &sh, nil), fsx.Exec(ref, st, &rh, nil)
				eofish := func(e string) bool { return e == "ok" || e == "EOF" }
				if sr.Panic != "" || eofish(sr.Err) != eofish(rr.Err) || (st.K == "H.Read" && sr.Data != rr.Data) {
					res.Violate(fmt.Sprintf("C17|%s|%s|%s,other-handle-after-closed-one-was-used|got=%s,want=%s", cs.Subject, cs.Kind, st.K, sr.Outcome(), rr.Outcome()),
						fmt.Sprintf("[%s] a handle opened after another one was closed: %s returned %s after %s and %s were called on the CLOSED handle; os: %s", cs.Subject, st, sr, cs.M1, cs.M2, rr), cs)
					return
				}
			}
		}()
	}
	for i, m := range []string{cs.M1, cs.M2} {
		st := c17step(m)
		if i := strings.Index(m, "/"); i >= 0 {
			m = m[:i] + "(" + m[i+1:] + ")"
		}
		var sr fsx.Result
		if hung, confirmed := withWatchdog(func() { sr = fsx.Exec(sub.fs, st, &sh, nil) }); hung {
			if confirmed {
				res.Violate(fmt.Sprintf("C17|%s|%s|%s|got=hang,want=error", cs.Subject, cs.Kind, m), fmt.Sprintf("[%s, %s handle] %s after Close (call %d after it) did not return; the goroutine dump shows it parked on a lock", cs.Subject, cs.Kind, st, i+1), cs)
			} else {
				res.Inconclusive = "a call on a closed handle did not return, no blocked-state witness"
			}
			return
		}
		rr := fsx.Exec(ref, st, &rh, nil)
		res.Count("calls_after_close", 1)
		res.Seen("closed_situations", cs.Subject+"|"+cs.Kind+"|"+m)
		pos := "first"
		if i == 1 {
			pos = "after " + cs.M1
		}
		detail := fmt.Sprintf("[%s, %s handle] %s after Close (%s): %s; closed os.File: %s", cs.Subject, cs.Kind, st, pos, sr, rr)
		sigBase := fmt.Sprintf("C17|%s|%s|%s|", cs.Subject, cs.Kind, m)
		if cs.Warm {
			sigBase = fmt.Sprintf("C17|%s|%s|%s,called-before-close|", cs.Subject, cs.Kind, m)
		}
		if cs.Reopen {
			sigBase = fmt.Sprintf("C17|%s|%s|%s,another-file-opened-since|", cs.Subject, cs.Kind, m)
		}
		switch {
		case sr.Panic != "":
			res.Violate(sigBase+"got=panic,want=error", detail, cs)
			return
		case sr.Err == "ok" && rr.Err != "ok": // (a closed os.File accepts zero-length ReadAt/WriteAt; nothing is demanded there)
			res.Violate(sigBase+"got=ok,want=error", detail, cs)
		case rr.Err == "ErrClosed" && sr.Err != "ErrClosed":
			res.Violate(sigBase+"got="+sr.Err+",want=ErrClosed", detail, cs)
		}
	}
}

// c17siblings: operations through one handle never change another handle's position or validity.
func c17siblings(env *core.Env, cs c17case, res *core.CaseResult) {
	sub, err := newPopulated(env, cs.Subject, c17items)
	if err != nil {
		res.Inconclusive = "setup: " + err.Error()
		return
	}
	defer sub.cleanup()
	r := rand.New(rand.NewSource(env.Seed*6_000_011 + cs.Seed))
	nh := 2 + r.Intn(2)
	var hs fsx.Handles
	defer hs.CloseAll()
	offs := make([]int64, nh)
	open := make([]bool, nh)
	var script []fsx.Step
	for s := 0; s < nh; s++ {
		st := fsx.Step{K: "Open", P: "f", Flag: []int{os.O_RDONLY, os.O_RDWR, os.O_RDWR}[r.Intn(3)], Slot: s}
		if !fsx.Exec(sub.fs, st, &hs, nil).OK() {
			return
		}
		script = append(script, st)
		open[s] = true
	}
	for i := 0; i < 12; i++ {
		slot := r.Intn(nh)
		if !open[slot] {
			continue
		}
		var st fsx.Step
		switch r.Intn(8) {
		case 6:
			st = fsx.Step{K: "H.Truncate", Off: int64(r.Intn(12))} // the file shrinks below (or grows beyond) where the others stand
		case 7:
			st = fsx.Step{K: "H.Seek", Off: int64(8 + r.Intn(30)), Whence: io.SeekStart} // beyond the end
		case 0:
			st = fsx.Step{K: "H.Read", N: 1 + r.Intn(4)}
		case 1:
			st = fsx.Step{K: "H.Write", Data: "ab"}
		case 2:
			st = fsx.Step{K: "H.Seek", Off: int64(r.Intn(8)), Whence: io.SeekStart}
		case 3:
			st = fsx.Step{K: "H.Close"}
		case 4:
			st = fsx.Step{K: "H.ReadAt", N: 2, Off: int64(r.Intn(6))}
		default:
			st = fsx.Step{K: "H.Stat"}
		}
		st.Slot = slot
		script = append(script, st)
		rr := fsx.Exec(sub.fs, st, &hs, nil)
		if rr.Panic != "" {
			return // C02/C17-closed report panics
		}
		if st.K == "H.Close" {
			open[slot] = false
		}
		if o, err := hackpadfs.SeekFile(hs.F[slot], 0, io.SeekCurrent); err == nil && open[slot] {
			// the acting handle's own position follows from its own history only: what it read or wrote, where it sought
			want := offs[slot]
			switch {
			case st.K == "H.Read" || st.K == "H.Write":
				want += rr.N
			case st.K == "H.Seek" && rr.OK():
				want = st.Off
			}
			res.Count("own_position_checks", 1)
			if o != want {
				res.Violate(fmt.Sprintf("C17|%s|siblings|%s|own-offset", cs.Subject, st.K), fmt.Sprintf("[%s] %s on h%d (%s, at offset %d before) left the handle at offset %d, its own history puts it at %d", cs.Subject, st, slot, rr, offs[slot], o, want), map[string]any{"subject": cs.Subject, "script": fsx.HistoryString(script)})
				return
			}
			offs[slot] = o
		}
		for other := 0; other < nh; other++ {
			if other == slot || !open[other] {
				continue
			}
			res.Count("sibling_checks", 1)
			o, err := hackpadfs.SeekFile(hs.F[other], 0, io.SeekCurrent)
			wit := map[string]any{"subject": cs.Subject, "script": fsx.HistoryString(script)}
			if err != nil {
				res.Violate(fmt.Sprintf("C17|%s|siblings|%s|validity", cs.Subject, st.K), fmt.Sprintf("[%s] after %s handle h%d became unusable: %v", cs.Subject, st, other, err), wit)
				return
			}
			if o != offs[other] {
				res.Violate(fmt.Sprintf("C17|%s|siblings|%s|offset", cs.Subject, st.K), fmt.Sprintf("[%s] after %s handle h%d moved from offset %d to %d", cs.Subject, st, other, offs[other], o), wit)
				return
			}
		}
	}
}

// c17dirSiblings: several handles on one directory are independent: paging through one does not move another's cursor,
// closing one leaves the others usable. Differential against os directory handles (page contents are compared as
// counts, complete listings as sets: the order of pages is the file system's own).
func c17dirSiblings(env *core.Env, cs c17case, res *core.CaseResult) {
	items := append([]treeItem(nil), c17items...)
	for _, n := range []string{"d/y", "d/z", "d/w"} {
		items = append(items, treeItem{Path: n, Perm: 0o644, Data: n})
	}
	sub, err := newPopulated(env, cs.Subject, items)
	if err != nil {
		res.Inconclusive = "setup: " + err.Error()
		return
	}
	defer sub.cleanup()
	ref, err := fsx.NewOSRef(env.Scratch)
	if err != nil {
		res.Inconclusive = err.Error()
		return
	}
	defer ref.Cleanup()
	if err := buildTree(ref, items); err != nil {
		res.Inconclusive = err.Error()
		return
	}
	r := rand.New(rand.NewSource(env.Seed*6_000_029 + cs.Seed))
	nh := 2 + r.Intn(2)
	var sh, rh fsx.Handles
	defer sh.CloseAll()
	defer rh.CloseAll()
	var script []fsx.Step
	do := func(st fsx.Step) (fsx.Result, fsx.Result) {
		script = append(script, st)
		return fsx.Exec(sub.fs, st, &sh, nil), fsx.Exec(ref, st, &rh, nil)
	}
	for s := 0; s < nh; s++ {
		so, ro := do(fsx.Step{K: "Open", P: "d", Flag: os.O_RDONLY, Slot: s})
		if !so.OK() || !ro.OK() {
			return
		}
	}
	paged := map[int]bool{}
	for i := 0; i < 10+r.Intn(8); i++ {
		st := fsx.Step{Slot: r.Intn(nh)}
		switch r.Intn(7) {
		case 0, 1:
			st.K, st.N = "H.ReadDir", 1
		case 2:
			st.K, st.N = "H.ReadDir", 2
		case 3:
			st.K, st.N = "H.ReadDir", -1
		case 4:
			st.K = "H.Stat"
		case 5:
			st.K = "H.Close"
		default:
			st.K, st.N = "H.ReadDir", 0
		}
		sr, rr := do(st)
		wasPaged := paged[st.Slot]
		if st.K == "H.ReadDir" {
			paged[st.Slot] = true // (which entries remain after a page depends on the file system's own order)
		}
		res.Count("dir_sibling_calls", 1)
		wit := map[string]any{"subject": cs.Subject, "script": fsx.HistoryString(script)}
		sig := func(what string) string { return fmt.Sprintf("C17|%s|dirsiblings|%s|%s", cs.Subject, st.K, what) }
		if sr.Panic != "" {
			res.Violate(sig("panic"), fmt.Sprintf("[%s] %s panicked: %s", cs.Subject, st, sr.Panic), wit)
			return
		}
		if sr.Skip || rr.Skip {
			continue
		}
		eofish := func(e string) bool { return e == "ok" || e == "EOF" }
		switch {
		case eofish(sr.Err) != eofish(rr.Err):
			res.Violate(sig("got="+sr.Err+",want="+rr.Err), fmt.Sprintf("[%s] %s on one of %d handles of the same directory: %s; os directory handle: %s", cs.Subject, st, nh, sr, rr), wit)
			return
		case st.K == "H.ReadDir" && eofish(rr.Err) && sr.N != rr.N:
			res.Violate(sig("count"), fmt.Sprintf("[%s] %s returned %d entries, the os directory handle with the same history %d (another handle of the directory was used in between)", cs.Subject, st, sr.N, rr.N), wit)
			return
		case st.K == "H.ReadDir" && st.N <= 0 && !wasPaged && eofish(rr.Err) && sr.Data != rr.Data:
			res.Violate(sig("entries"), fmt.Sprintf("[%s] %s returned %q, os %q", cs.Subject, st, sr.Data, rr.Data), wit)
			return
		}
	}
}

// c17bigUnlinked: two handles on a file of 1.5 MiB; the contents are read through A, the name goes away (removed, or
// renamed), A is closed. B is a handle of its own: it still reads the file's bytes, at its own position, and the
// renamed file still holds them.
func c17bigUnlinked(env *core.Env, cs c17case, res *core.CaseResult) {
	sub, err := newPopulated(env, cs.Subject, c17items)
	if err != nil {
		res.Inconclusive = "setup: " + err.Error()
		return
	}
	defer sub.cleanup()
	const size = 3 << 19
	content := bytes.Repeat([]byte("q"), size)
	renamed := cs.Seed%80 >= 40
	viol := func(what, detail string) {
		res.Violate(fmt.Sprintf("C17|%s|siblings|H.Close|%s", subjKind17(cs.Subject), what), fmt.Sprintf("[%s] a 1.5 MiB file, handles A and B; everything read through A, the name %s, A closed: %s", cs.Subject, map[bool]string{true: "renamed", false: "removed"}[renamed], detail), map[string]any{"subject": cs.Subject, "renamed": renamed})
	}
	if err := hackpadfs.WriteFullFile(sub.fs, "big", content, 0o644); err != nil {
		return
	}
	a, err1 := hackpadfs.OpenFile(sub.fs, "big", os.O_RDWR, 0)
	b, err2 := hackpadfs.OpenFile(sub.fs, "big", os.O_RDONLY, 0)
	if err1 != nil || err2 != nil {
		return
	}
	defer func() { _ = b.Close() }()
	_, _ = io.ReadAll(a)
	buf := make([]byte, 64)
	_, _ = hackpadfs.ReadAtFile(b, buf, 10) // B has looked at the file as well
	if renamed {
		err = hackpadfs.Rename(sub.fs, "big", "big2")
	} else {
		err = hackpadfs.Remove(sub.fs, "big")
	}
	if err != nil {
		_ = a.Close()
		return
	}
	if cerr := a.Close(); cerr != nil {
		viol("close-failed", "Close of A failed: "+cerr.Error())
		return
	}
	res.Count("big_unlinked_pairs", 1)
	n, rerr := hackpadfs.ReadAtFile(b, buf, 1<<20)
	if n != 64 || (rerr != nil && rerr != io.EOF) || !bytes.Equal(buf[:n], content[:64]) {
		viol("other-handle-lost-its-contents", fmt.Sprintf("B.ReadAt(64 bytes at 1 MiB) returns n=%d, %v", n, rerr))
		return
	}
	if info, serr := b.Stat(); serr != nil || info.Size() != size {
		viol("other-handle-lost-its-contents", fmt.Sprintf("B.Stat says %v, %v (the file has %d bytes)", info, serr, size))
		return
	}
	if renamed {
		if got, gerr := hackpadfs.ReadFile(sub.fs, "big2"); gerr != nil || len(got) != size {
			viol("renamed-file-lost-its-contents", fmt.Sprintf("the renamed file holds %d bytes (err %v), it had %d", len(got), gerr, size))
		}
	}
}

// c17lifecycle: writing through a handle opened before Remove/Rename never makes the old name exist again.
func c17lifecycle(env *core.Env, cs c17case, res *core.CaseResult) {
	if cs.Seed%40 == 7 {
		c17bigUnlinked(env, cs, res)
		return
	}
	sub, err := newPopulated(env, cs.Subject, c17items)
	if err != nil {
		res.Inconclusive = "setup: " + err.Error()
		return
	}
	defer sub.cleanup()
	ref, err := fsx.NewOSRef(env.Scratch)
	if err != nil {
		res.Inconclusive = err.Error()
		return
	}
	defer ref.Cleanup()
	if err := buildTree(ref, c17items); err != nil {
		res.Inconclusive = err.Error()
		return
	}
	r := rand.New(rand.NewSource(env.Seed*7_000_003 + cs.Seed))
	var sh, rh fsx.Handles
	defer sh.CloseAll()
	defer rh.CloseAll()
	nh := 1 + r.Intn(3)
	if cs.Subject == "kvplain" {
		nh = 1 // a plain Store hands every handle its own snapshot (FileRecord contract): handles are not coherent with each other
	}
	var script []fsx.Step
	do := func(st fsx.Step) (fsx.Result, fsx.Result) {
		script = append(script, st)
		return fsx.Exec(sub.fs, st, &sh, nil), fsx.Exec(ref, st, &rh, nil)
	}
	for s := 0; s < nh; s++ {
		do(fsx.Step{K: "Open", P: "f", Flag: []int{os.O_RDWR, os.O_WRONLY, os.O_RDWR | os.O_APPEND}[r.Intn(3)], Slot: s})
	}
	unlinked := false
	// the set of names must follow the reference
	namesFollow := func(st fsx.Step, sit string) bool {
		for _, name := range []string{"f", "g", "d/g"} {
			_, serr := hackpadfs.Stat(sub.fs, name)
			_, rerr := hackpadfs.Stat(ref, name)
			if (serr == nil) != (rerr == nil) {
				what := "name-missing"
				if serr == nil {
					what = "resurrected"
				}
				opName := st.K
				if st.K == "H.Truncate" && st.N == 777 {
					opName = "H.Truncate(same-size)" // a truncation to the size the file has: nothing changes, nothing is written
				}
				if (st.K == "H.Write" || st.K == "H.WriteAt") && st.Data == "" {
					opName = st.K + "(empty)" // writing nothing changes nothing and stores nothing
				}
				res.Violate(fmt.Sprintf("C17|%s|lifecycle|%s|%s|%s", subjKind17(cs.Subject), opName, sit, what),
					fmt.Sprintf("[%s] after %s: %q exists=%v, os exists=%v", cs.Subject, st, name, serr == nil, rerr == nil), map[string]any{"subject": cs.Subject, "script": fsx.HistoryString(script)})
				return false
			}
		}
		return true
	}
	defer func() {
		// closing the handles (whatever they did before the name went away) must not change the set of names either
		if len(res.Violations) > 0 || res.Inconclusive != "" {
			return
		}
		for s := 0; s < nh; s++ {
			st := fsx.Step{K: "H.Close", Slot: s}
			sr, _ := do(st)
			if sr.Panic != "" {
				res.Violate(fmt.Sprintf("C17|%s|lifecycle|H.Close|panic", cs.Subject), fmt.Sprintf("[%s] %s panicked: %s", cs.Subject, st, sr.Panic), map[string]any{"script": fsx.HistoryString(script)})
				return
			}
			sit := "linked"
			if unlinked {
				sit = "after-unlink"
			}
			if !namesFollow(st, sit) {
				return
			}
		}
	}()
	for i := 0; i < 4+r.Intn(8); i++ {
		var st fsx.Step
		if unlinked && cs.Seed%2 == 1 {
			// variant: after the name is gone the old handles are only read, so that the history is not cut short by
			// the known finding about writes (F20) and handle validity after Remove/Rename is compared with os.File
			slot := r.Intn(nh)
			switch r.Intn(6) {
			case 5:
				// writing nothing: like the same-size truncation, a call that has nothing to store
				st = fsx.Step{K: []string{"H.Write", "H.WriteAt"}[r.Intn(2)], Slot: slot, Data: "", Off: int64(r.Intn(4))}
				sr, _ := do(st)
				res.Count("empty_writes_after_unlink", 1)
				if sr.Panic != "" {
					res.Violate(fmt.Sprintf("C17|%s|lifecycle|%s|panic", cs.Subject, st.K), fmt.Sprintf("[%s] %s panicked: %s", cs.Subject, st, sr.Panic), map[string]any{"script": fsx.HistoryString(script)})
					return
				}
				if !namesFollow(st, "after-unlink") {
					return
				}
				continue
			case 4:
				// a truncation to exactly the size the handle sees (learnt by seeking to the end): a call that changes nothing
				end, _ := do(fsx.Step{K: "H.Seek", Slot: slot, Off: 0, Whence: io.SeekEnd})
				if !end.OK() {
					continue
				}
				st = fsx.Step{K: "H.Truncate", Slot: slot, Off: end.N, N: 777}
				sr, _ := do(st)
				res.Count("same_size_truncations_after_unlink", 1)
				if sr.Panic != "" {
					res.Violate(fmt.Sprintf("C17|%s|lifecycle|%s|panic", cs.Subject, st.K), fmt.Sprintf("[%s] %s panicked: %s", cs.Subject, st, sr.Panic), map[string]any{"script": fsx.HistoryString(script)})
					return
				}
				if !namesFollow(st, "after-unlink") {
					return
				}
				continue
			case 0:
				st = fsx.Step{K: "H.ReadAt", Slot: slot, N: 6, Off: int64(r.Intn(8))}
			case 1:
				st = fsx.Step{K: "H.Stat", Slot: slot}
			case 2:
				st = fsx.Step{K: "H.Seek", Slot: slot, Off: int64(r.Intn(6)), Whence: io.SeekStart}
			default:
				st = fsx.Step{K: "H.Read", Slot: slot, N: 5}
			}
			sr, rr := do(st)
			res.Count("reads_after_unlink", 1)
			if sr.Panic != "" {
				res.Violate(fmt.Sprintf("C17|%s|lifecycle|%s|panic", cs.Subject, st.K), fmt.Sprintf("[%s] %s panicked: %s", cs.Subject, st, sr.Panic), map[string]any{"script": fsx.HistoryString(script)})
				return
			}
			eofish := func(e string) bool { return e == "ok" || e == "EOF" }
			same := eofish(sr.Err) == eofish(rr.Err) // both deliver (possibly with EOF) or both fail
			if st.K == "H.Stat" {
				same = sr.OK() == rr.OK() // names of unlinked files differ by OS; only validity is compared
			} else if same && eofish(rr.Err) && (sr.N != rr.N || sr.Data != rr.Data) {
				same = false
			}
			if !same {
				res.Violate(fmt.Sprintf("C17|%s|lifecycle|%s|after-unlink|handle-differs-from-os", subjKind17(cs.Subject), st.K),
					fmt.Sprintf("[%s] %s on a handle opened before the name was removed/renamed: %s; os.File: %s", cs.Subject, st, sr, rr), map[string]any{"subject": cs.Subject, "script": fsx.HistoryString(script)})
				return
			}
			if !namesFollow(st, "after-unlink") {
				return
			}
			continue
		}
		switch k := r.Intn(10); {
		case k < 2:
			st = fsx.Step{K: "Remove", P: "f"}
		case k < 4:
			st = fsx.Step{K: "Rename", P: "f", P2: []string{"g", "d/g"}[r.Intn(2)]}
		case k < 5 && unlinked:
			st = fsx.Step{K: "WriteFullFile", P: "f", Data: "recreated", Perm: 0o600}
		case k < 8:
			st = fsx.Step{K: "H.Write", Slot: r.Intn(nh), Data: fmt.Sprintf("<w%d>", i)}
		case k < 9:
			st = fsx.Step{K: "H.Truncate", Slot: r.Intn(nh), Off: int64(r.Intn(6))}
		default:
			st = fsx.Step{K: "H.Chmod", Slot: r.Intn(nh), Perm: 0o640}
		}
		sr, rr := do(st)
		if sr.Panic != "" {
			res.Violate(fmt.Sprintf("C17|%s|lifecycle|%s|panic", cs.Subject, st.K), fmt.Sprintf("[%s] %s panicked: %s", cs.Subject, st, sr.Panic), map[string]any{"script": fsx.HistoryString(script)})
			return
		}
		if len(st.K) < 2 || st.K[:2] != "H." {
			if sr.OK() != rr.OK() {
				return // a namespace operation diverging from os is C01/C07's concern (e.g. a Sub view has no Rename)
			}
		}
		if (st.K == "Remove" || st.K == "Rename") && rr.OK() {
			unlinked = true
		}
		if st.K == "WriteFullFile" && rr.OK() {
			unlinked = false
		}
		if len(st.K) > 2 && st.K[:2] == "H." && unlinked {
			res.Count("writes_after_unlink", 1)
		}
		sit := "linked"
		if unlinked {
			sit = "after-unlink"
		}
		if !namesFollow(st, sit) {
			return
		}
	}
}

func subjKind17(s string) string {
	switch s {
	case "mem", "kvplain", "mount", "sub":
		return "kv"
	}
	return s
}
