package props

import (
	"context"
	"errors"
	"fmt"
	"io"
	"io/fs"
	"os"
	"runtime"
	"sort"
	"strings"
	"sync"
	"time"

	"hpverif/internal/core"
	"hpverif/internal/fsx"
	"hpverif/internal/kvs"

	"github.com/hack-pad/hackpadfs"
	"github.com/hack-pad/hackpadfs/keyvalue"
	"github.com/hack-pad/hackpadfs/mem"
)

// C14: store failures surface as errors — no silent data loss, no panic.

var errStoreInjected = errors.New("injected store failure")

type c14case struct {
	Shape string `json:"shape"` // plain | txn | plain-cached | txn-deferred
	Src   string `json:"src"`   // c01 | c02 | random
	Index int    `json:"index"`
	// Flavour: which error value the failing store call reports (0 = the harness's own sentinel)
	Flavour int `json:"flavour,omitempty"`
}

// c14flavours: error values real stores fail with. What the file system must do does not depend on WHICH error a failing
// call reports - with one exception the interface itself defines: a Get that answers "does not exist" says the record is
// absent, so that value is only used where a record that WAS found fails to deliver its contents. Three values are left
// out because the library's interfaces give them a meaning of their own: ErrNotImplemented ("try another way": the
// RemoveAll helper then removes entry by entry), ErrExist (MkdirAll and NewFS take it for "already there") and
// ErrNotExist from a listing (RemoveAll takes it for "nothing to remove").
var c14flavours = []struct {
	name  string
	err   error
	sites string // "" = every site
}{
	{"sentinel", errStoreInjected, ""},
	{"wraps-context-canceled", fmt.Errorf("store request: %w", context.Canceled), ""},
	{"wraps-not-exist", fmt.Errorf("NoSuchKey: %w", fs.ErrNotExist), "Data"},
	{"unexpected-eof", io.ErrUnexpectedEOF, ""},
	{"wraps-deadline", fmt.Errorf("store request: %w", context.DeadlineExceeded), ""},
	{"wraps-closed", fmt.Errorf("connection: %w", fs.ErrClosed), ""},
	{"wraps-permission", fmt.Errorf("denied: %w", fs.ErrPermission), ""},
	{"wraps-eof", fmt.Errorf("body: %w", io.EOF), "Set,Commit,Transaction,Data,ReadDirNames"},
}

// c14flavour is the flavour of the case being run (cases run one after the other in a child process).
var c14flavour int

func c14flavourErr(site string) error {
	f := c14flavours[c14flavour%len(c14flavours)]
	if f.sites != "" && !strings.Contains(","+f.sites+",", ","+site+",") {
		return errStoreInjected
	}
	return f.err
}

func c14cases(env *core.Env) []c14case {
	c01build()
	c02build()
	var cs []c14case
	stride1, stride2 := env.Pick(4, 1), env.Pick(15, 2)
	for _, shape := range []string{"plain", "txn"} {
		for i := 0; i < len(c01matrix); i++ {
			// every removal and rename case (a swallowed store error there loses data), a stride of the rest
			if n := c01matrix[i].Name; i%stride1 == 0 || strings.HasPrefix(n, "Remove") || strings.HasPrefix(n, "Rename") {
				cs = append(cs, c14case{Shape: shape, Src: "c01", Index: i})
			}
		}
		for i := 0; i < len(c02matrix); i += stride2 {
			if c02matrix[i].Subject == "mem" {
				cs = append(cs, c14case{Shape: shape, Src: "c02", Index: i})
			}
		}
		for i := range c14directed {
			cs = append(cs, c14case{Shape: shape, Src: "directed", Index: i})
		}
		for i := 0; i < env.Pick(200, 20000); i++ {
			cs = append(cs, c14case{Shape: shape, Src: "random", Index: i})
		}
	}
	// a plain store that hands out the same record object for repeated look-ups of a path (handle histories: several
	// handles then share one record, whose lazy loaders every one of them runs)
	for i := 0; i < len(c02matrix); i += stride2 {
		if c02matrix[i].Subject == "mem" {
			cs = append(cs, c14case{Shape: "plain-cached", Src: "c02", Index: i})
		}
	}
	for i := range c14directed {
		cs = append(cs, c14case{Shape: "plain-cached", Src: "directed", Index: i})
	}
	for i := 0; i < env.Pick(100, 6000); i++ {
		cs = append(cs, c14case{Shape: "plain-cached", Src: "random", Index: i})
	}
	// a store that applies a transaction at Commit and reports a rejected call only there (see kvs.Txn.Deferred)
	for i := 0; i < len(c01matrix); i++ {
		if n := c01matrix[i].Name; i%(stride1*2) == 0 || strings.HasPrefix(n, "Remove") || strings.HasPrefix(n, "Rename") {
			cs = append(cs, c14case{Shape: "txn-deferred", Src: "c01", Index: i})
		}
	}
	for i := 0; i < len(c02matrix); i += stride2 * 2 {
		if c02matrix[i].Subject == "mem" {
			cs = append(cs, c14case{Shape: "txn-deferred", Src: "c02", Index: i})
		}
	}
	for i := range c14directed {
		cs = append(cs, c14case{Shape: "txn-deferred", Src: "directed", Index: i})
	}
	for i := 0; i < env.Pick(100, 6000); i++ {
		cs = append(cs, c14case{Shape: "txn-deferred", Src: "random", Index: i})
	}
	// the same enumeration with the failing call reporting other error values
	for fl := 1; fl < len(c14flavours); fl++ {
		for _, shape := range []string{"plain", "txn"} {
			for i := range c14directed {
				cs = append(cs, c14case{Shape: shape, Src: "directed", Index: i, Flavour: fl})
			}
			for i := fl; i < len(c01matrix); i += stride1 * 12 {
				cs = append(cs, c14case{Shape: shape, Src: "c01", Index: i, Flavour: fl})
			}
			for i := 0; i < env.Pick(25, 1500); i++ {
				cs = append(cs, c14case{Shape: shape, Src: "random", Index: i, Flavour: fl})
			}
		}
	}
	return cs
}

func init() {
	core.Register(&core.Prop{
		ID:    "C14",
		Level: "fault_enumeration",
		Rule: "single-fault enumeration at the store boundary: a history (cases of the C01 situation matrix, handle scripts of the C02 matrix, seeded random histories) first runs fault-free on keyvalue.FS over (a) the harness's plain Store (serial fallback path) and (b) the real mem TransactionStore behind a wrapper that reports injected failures the way real stores do (Transaction()/Commit: returned error; Get/Set inside a transaction: that operation's OpResult.Err; lazy Data()/ReadDirNames(): returned error) while the store-level calls are counted (N); it is then re-run N times with call k failing with a distinct non-sentinel error (in further cases with one of seven other values: wrapping context.Canceled / DeadlineExceeded / ErrClosed / ErrPermission / io.EOF, io.ErrUnexpectedEOF, and ErrNotExist for a found record's contents load); a third shape is a transactional store that reports a rejected Get/Set only as Commit's error, with clean per-call results. " +
			"The operation during which the fault fired must return a non-nil error and must not panic; every remaining operation (also on handles opened before) must return without panic or hang; afterwards Stat/ReadDir/ReadFile of every path through the faulted FS must equal what a fresh keyvalue.FS over the same store shows. Non-trivial: fault runs in which the fault fired inside a mutating operation; distinct by (shape, history, fault index)",
		Assumptions: []string{"one fault per run", "the S3 example store cannot be built offline; the plain-Store path is exercised with a harness store patterned on it"},
		NumCases:    func(env *core.Env) int { return len(c14cases(env)) },
		Batch:       40,
		Run:         c14run,
		Floor: func(env *core.Env, agg *core.Agg) string {
			if agg.Counters["fault_runs"] < 3000 || agg.DistinctCount("op_site") < 60 {
				return fmt.Sprintf("fault_runs=%d op_site=%d", agg.Counters["fault_runs"], agg.DistinctCount("op_site"))
			}
			return ""
		},
	})
}

type c14hook struct {
	mu      sync.Mutex
	n       int
	failAt  int
	step    int // current history step (set by the harness)
	fired   bool
	firedAt int
	site    string
}

func (h *c14hook) hook(ev kvs.Event) error {
	h.mu.Lock()
	defer h.mu.Unlock()
	idx := h.n
	h.n++
	if idx == h.failAt {
		h.fired, h.firedAt, h.site = true, h.step, ev.Op
		return c14flavourErr(ev.Op)
	}
	return nil
}

type c14world struct {
	fs    hackpadfs.FS
	fresh func() (hackpadfs.FS, error) // a new keyvalue.FS over the same underlying store, without the fault wrapper
	hook  *c14hook
}

func newC14World(shape string, failAt int) (*c14world, error) {
	h := &c14hook{failAt: -1}
	w := &c14world{hook: h}
	switch shape {
	case "plain", "plain-cached":
		p := kvs.NewPlain()
		p.CacheRecords = shape == "plain-cached"
		k, err := keyvalue.NewFS(p)
		if err != nil {
			return nil, err
		}
		p.Hook = h.hook
		w.fs = k
		w.fresh = func() (hackpadfs.FS, error) {
			p.Hook = nil
			p.DropCache()
			return keyvalue.NewFS(p)
		}
	default:
		inner := mem.NewStoreVerif()
		wr := kvs.WrapTxn(inner, nil)
		wr.Deferred = shape == "txn-deferred"
		k, err := keyvalue.NewFS(wr)
		if err != nil {
			return nil, err
		}
		wr.Hook = h.hook
		w.fs = k
		w.fresh = func() (hackpadfs.FS, error) { return keyvalue.NewFS(inner) }
	}
	h.failAt = failAt
	return w, nil
}

// c14directed: handle-level metadata and positional calls the two matrices do not contain
var c14directed = [][]fsx.Step{
	{{K: "WriteFullFile", P: "f", Data: "0123456789", Perm: 0o644}, {K: "Open", P: "f", Flag: os.O_RDWR}, {K: "H.Chmod", Perm: 0o600}, {K: "H.Chtimes", MTime: 1_500_000_000}, {K: "H.WriteAt", Data: "xy", Off: 3}, {K: "H.Sync"}, {K: "H.Chmod", Perm: 0o640}, {K: "H.Truncate", Off: 4}, {K: "H.Close"}},
	{{K: "Mkdir", P: "d", Perm: 0o755}, {K: "WriteFullFile", P: "d/x", Data: "x", Perm: 0o644}, {K: "Open", P: "d", Flag: os.O_RDONLY}, {K: "H.Chmod", Perm: 0o700}, {K: "H.Chtimes", MTime: 1_500_000_000}, {K: "H.ReadDir", N: -1}, {K: "H.Stat"}, {K: "H.Close"}},
	{{K: "Open", P: "n", Flag: os.O_RDWR | os.O_CREATE | os.O_EXCL, Perm: 0o600}, {K: "H.Write", Data: "abc"}, {K: "H.Chmod", Perm: uint32(os.ModeSticky) | 0o644}, {K: "H.Seek", Off: 0, Whence: io.SeekStart}, {K: "H.Read", N: 8}, {K: "H.Stat"}, {K: "H.Close"}, {K: "Chmod", P: "n", Perm: 0o600}, {K: "Chtimes", P: "n", MTime: 1_400_000_000}},
}

func c14history(env *core.Env, cs c14case) []fsx.Step {
	switch cs.Src {
	case "directed":
		return c14directed[cs.Index]
	case "c01":
		return c01matrix[cs.Index].Hist
	case "c02":
		c := c02matrix[cs.Index]
		return append([]fsx.Step{{K: "WriteFullFile", P: "f", Data: c.Init, Perm: 0o644}, {K: "Mkdir", P: "d", Perm: 0o755}}, c.Steps...)
	}
	// random: generated against a fault-free mem twin so that every fault run replays the same steps
	gen := fsx.NewGen(env.Seed*15_000_017+int64(cs.Index), fmt.Sprintf("f%d", cs.Index))
	twin, _ := fsx.NewSubject("mem")
	var hs fsx.Handles
	var steps []fsx.Step
	for i := 0; i < 6+gen.R.Intn(14); i++ {
		tree, _ := fsx.Snapshot(twin.FS, nil)
		st := gen.Namespace(tree, true)
		if gen.R.Intn(5) == 0 {
			slot := gen.R.Intn(2)
			switch gen.R.Intn(9) {
			case 5:
				st = fsx.Step{K: "H.Chmod", Slot: slot, Perm: fsx.ChmodModes[gen.R.Intn(len(fsx.ChmodModes))]}
			case 6:
				st = fsx.Step{K: "H.Chtimes", Slot: slot, MTime: 1_300_000_000 + int64(gen.R.Intn(1000))}
			case 7:
				st = fsx.Step{K: "H.WriteAt", Slot: slot, Data: gen.Content(), Off: int64(gen.R.Intn(8))}
			case 8:
				st = fsx.Step{K: "H.Sync", Slot: slot}
			case 0:
				st = fsx.Step{K: "Open", P: gen.Path(tree), Flag: fsx.AllFlags()[gen.R.Intn(48)], Perm: 0o644, Slot: slot}
			case 1:
				st = fsx.Step{K: "H.Write", Slot: slot, Data: gen.Content()}
			case 2:
				st = fsx.Step{K: "H.Read", Slot: slot, N: 8}
			case 3:
				st = fsx.Step{K: "H.ReadDir", Slot: slot, N: -1}
			default:
				st = fsx.Step{K: "H.Truncate", Slot: slot, Off: int64(gen.R.Intn(6))}
			}
		}
		steps = append(steps, st)
		_ = fsx.Exec(twin.FS, st, &hs, nil)
	}
	hs.CloseAll()
	return steps
}

// c14exec runs the history; returns per-step results, or hung=true with a goroutine dump.
func c14exec(w *c14world, steps []fsx.Step, keep ...*fsx.Handles) (results []fsx.Result, hung bool, dump string) {
	done := make(chan struct{})
	var own fsx.Handles
	hs := &own
	if len(keep) > 0 {
		hs = keep[0] // the caller goes on using the handles: they are not closed here
	}
	go func() {
		defer close(done)
		for i, st := range steps {
			w.hook.mu.Lock()
			w.hook.step = i
			w.hook.mu.Unlock()
			results = append(results, fsx.Exec(w.fs, st, hs, nil))
		}
		w.hook.mu.Lock()
		w.hook.step = len(steps)
		w.hook.mu.Unlock()
		if len(keep) == 0 {
			hs.CloseAll()
		}
	}()
	select {
	case <-done:
		return results, false, ""
	case <-time.After(30 * time.Second):
		buf := make([]byte, 1<<18)
		n := runtime.Stack(buf, true)
		return nil, true, string(buf[:n])
	}
}

// c14idempotent: operations whose repetition after a failed first attempt must converge to the state one success gives
var c14idempotent = map[string]bool{"Chmod": true, "Chtimes": true, "H.Chmod": true, "H.Chtimes": true, "H.Truncate": true, "Mkdir": true, "MkdirAll": true, "Remove": true, "RemoveAll": true, "WriteFullFile": true}

func c14view(fsys hackpadfs.FS) string {
	snap, prob := fsx.Snapshot(fsys, nil)
	keys := make([]string, 0, len(snap))
	for k := range snap {
		keys = append(keys, k)
	}
	sort.Strings(keys)
	var sb strings.Builder
	for _, k := range keys {
		e := snap[k]
		fmt.Fprintf(&sb, "%s %s %o %d %q\n", k, e.Kind, e.Mode, e.Size, e.Data)
	}
	return sb.String() + prob
}

func c14truncateAfterRejectedSave(cs c14case, steps []fsx.Step, at, k int, site string, res *core.CaseResult, wit any) {
	op := steps[at]
	path := ""
	for i := 0; i < at; i++ {
		switch st := steps[i]; {
		case st.K == "Open" && st.Slot == op.Slot:
			path = st.P
		case st.K == "Rename" || st.K == "Remove" || st.K == "RemoveAll" || st.K == "H.Close" && st.Slot == op.Slot:
			path = "" // the handle's name may be gone, or the handle closed: not this oracle's case
		}
	}
	if path == "" {
		return
	}
	fw, err := newC14World(cs.Shape, k)
	if err != nil {
		return
	}
	var fh fsx.Handles
	if _, hung, _ := c14exec(fw, steps[:at+1], &fh); hung {
		return
	}
	fw.hook.mu.Lock()
	fw.hook.failAt = -1
	fw.hook.mu.Unlock()
	var tr, rd fsx.Result
	size := int64(-1)
	var stored []byte
	var serr error
	p := core.Recover(func() {
		end := fsx.Exec(fw.fs, fsx.Step{K: "H.Seek", Slot: op.Slot, Off: 0, Whence: io.SeekEnd}, &fh, nil)
		if !end.OK() {
			return
		}
		size = end.N
		tr = fsx.Exec(fw.fs, fsx.Step{K: "H.Truncate", Slot: op.Slot, Off: size}, &fh, nil)
		rd = fsx.Exec(fw.fs, fsx.Step{K: "H.ReadAt", Slot: op.Slot, N: int(size), Off: 0}, &fh, nil)
		fh.CloseAll()
		fresh, ferr := fw.fresh()
		if ferr != nil {
			serr = ferr
			return
		}
		stored, serr = hackpadfs.ReadFile(fresh, path)
	})
	if p != "" || size < 0 || !tr.OK() || tr.Skip || serr != nil {
		return
	}
	// the same situation once more, but now the name is removed (fault-free) and the handle is only LOOKED at: a Stat
	// stores nothing, so the name stays gone (writes through such a handle are F20's matter, looking is not)
	if fw2, err := newC14World(cs.Shape, k); err == nil {
		var fh2 fsx.Handles
		if _, hung, _ := c14exec(fw2, steps[:at+1], &fh2); !hung {
			fw2.hook.mu.Lock()
			fw2.hook.failAt = -1
			fw2.hook.mu.Unlock()
			var gone, back bool
			_ = core.Recover(func() {
				if rm := fsx.Exec(fw2.fs, fsx.Step{K: "Remove", P: path}, &fh2, nil); !rm.OK() {
					return
				}
				gone = true
				_ = fsx.Exec(fw2.fs, fsx.Step{K: "H.Stat", Slot: op.Slot}, &fh2, nil)
				_ = fsx.Exec(fw2.fs, fsx.Step{K: "H.Seek", Slot: op.Slot, Off: 0, Whence: io.SeekEnd}, &fh2, nil)
				if fresh, ferr := fw2.fresh(); ferr == nil {
					_, serr := hackpadfs.Stat(fresh, path)
					back = serr == nil
				}
				fh2.CloseAll()
			})
			if gone {
				res.Count("stat_after_rejected_save_and_remove", 1)
				if back {
					res.Violate(fmt.Sprintf("C14|%s|H.Stat|after-rejected-%s-and-remove|resurrected", cs.Shape, op.K), fmt.Sprintf("[%s] %s was rejected by the store (%s failure at store call #%d); the file was then removed by name and the handle only looked at (Stat, Seek to the end): a fresh look-up finds %q again", cs.Shape, op, site, k, path), wit)
				}
			}
		}
	}
	res.Count("truncate_to_own_size_after_rejected_save", 1)
	if int64(len(stored)) != size || (rd.OK() || rd.Err == "EOF") && int64(len(rd.Data)) == size && string(stored) != rd.Data {
		res.Violate(fmt.Sprintf("C14|%s|H.Truncate|after-rejected-%s|reported-success", cs.Shape, op.K), fmt.Sprintf("[%s] %s was rejected by the store (%s failure at store call #%d); Truncate(%d), the size the handle has now, then reported success, but a fresh look-up finds %d bytes %q where the handle holds %q", cs.Shape, op, site, k, size, len(stored), clip60(string(stored)), clip60(rd.Data)), wit)
	}
}

func c14run(env *core.Env, idx int) core.CaseResult {
	cs := c14cases(env)[idx]
	var res core.CaseResult
	c14flavour = cs.Flavour
	steps := c14history(env, cs)
	clean, err := newC14World(cs.Shape, -1)
	if err != nil {
		res.Inconclusive = err.Error()
		return res
	}
	cleanResults, hung, _ := c14exec(clean, steps)
	if hung {
		res.Inconclusive = "fault-free run hung"
		return res
	}
	_ = c14view(clean.fs) // (walks the fault-free tree once: a walk problem would show up in every fault run)
	n := clean.hook.n
	res.Evals = n + 1
	res.Count("histories", 1)
	res.Count("store_calls_counted", n)
	for k := 0; k < n; k++ {
		w, err := newC14World(cs.Shape, k)
		if err != nil {
			res.Inconclusive = err.Error()
			return res
		}
		results, hung, dump := c14exec(w, steps)
		res.Count("fault_runs", 1)
		wit := map[string]any{"case": cs, "fault_index": k, "site": w.hook.site, "history": fsx.HistoryString(steps)}
		if hung {
			confirmed := strings.Contains(dump, "sync.(*Mutex).Lock") || strings.Contains(dump, "semacquire")
			if confirmed {
				res.Violate(fmt.Sprintf("C14|%s|%s|hang", cs.Shape, w.hook.site), fmt.Sprintf("after a %s failure (store call #%d) the history did not finish; goroutine dump shows an operation parked on a lock", w.hook.site, k), wit)
			} else {
				res.Inconclusive = "history did not finish, no blocked-state witness"
			}
			return res
		}
		if !w.hook.fired {
			continue
		}
		at := w.hook.firedAt
		var op fsx.Step
		if at < len(steps) {
			op = steps[at]
		} else {
			op = fsx.Step{K: "CloseAll"}
		}
		res.Seen("op_site", cs.Shape+"|"+op.K+"|"+w.hook.site)
		if fsx.Mutates(op) || strings.HasPrefix(op.K, "H.W") || op.K == "H.Truncate" || op.K == "H.Chmod" || op.K == "H.Chtimes" {
			res.NTKeys = append(res.NTKeys, core.Hash([]any{cs, k}))
		}
		panicked := false
		for i, r := range results {
			if r.Panic != "" {
				panicked = true
				when := "later"
				if i == at {
					when = "faulted"
				}
				res.Violate(fmt.Sprintf("C14|%s|%s|%s|panic-%s-op", cs.Shape, steps[i].K, w.hook.site, when), fmt.Sprintf("[%s] %s panicked (%s) %s a %s failure injected at store call #%d during %s", cs.Shape, steps[i], r.Panic, map[bool]string{true: "on", false: "after"}[i == at], w.hook.site, k, op), wit)
				break
			}
		}
		if panicked {
			continue // a panic may have left a lock of the file system held: nothing more is asked of this instance
		}
		workDone := func() bool {
			// success may be reported when the failed call was not needed: same result as the fault-free run and the same final state
			if at >= len(cleanResults) || results[at].Data != cleanResults[at].Data || results[at].N != cleanResults[at].N || !cleanResults[at].OK() {
				return false
			}
			// the state is compared right after the faulted operation (both runs cut there): later operations of the
			// history may legitimately fail in the faulted run (a failed lazy load is remembered by the handle and
			// reported by the next call that needs the contents), which says nothing about THIS operation's work
			prefix := steps
			if at+1 < len(steps) {
				prefix = steps[:at+1]
			}
			cw, err1 := newC14World(cs.Shape, -1)
			fw, err2 := newC14World(cs.Shape, k)
			if err1 != nil || err2 != nil {
				return false
			}
			if _, hung, _ := c14exec(cw, prefix); hung {
				return false
			}
			if _, hung, _ := c14exec(fw, prefix); hung {
				return false
			}
			fw.hook.mu.Lock()
			fw.hook.failAt = -1
			fw.hook.mu.Unlock()
			cv, fv := "", ""
			if p := core.Recover(func() { cv, fv = c14view(cw.fs), c14view(fw.fs) }); p != "" {
				return false
			}
			return cv == fv
		}
		surfaced := at < len(results) && strings.HasSuffix(results[at].Data, ":fail") // OpenClose: the handle I/O inside the step reported the error
		if at < len(results) && results[at].Panic == "" && results[at].OK() && !results[at].Skip && !surfaced {
			if workDone() {
				res.Count("faults_in_calls_not_needed", 1)
				continue
			}
			res.Violate(fmt.Sprintf("C14|%s|%s|%s|reported-success", cs.Shape, op.K, w.hook.site), fmt.Sprintf("[%s] %s returned success although the store failed a %s call (store call #%d) it made", cs.Shape, op, w.hook.site, k), wit)
		}
		// a retry of an idempotent operation whose first attempt failed: if the retry reports success, the work must be there
		if at < len(results) && at < len(steps) && !results[at].OK() && results[at].Panic == "" && c14idempotent[op.K] {
			cw, err1 := newC14World(cs.Shape, -1)
			fw, err2 := newC14World(cs.Shape, k)
			if err1 == nil && err2 == nil {
				var ch, fh fsx.Handles
				_, hung1, _ := c14exec(cw, steps[:at+1], &ch)
				_, hung2, dump2 := c14exec(fw, steps[:at+1], &fh)
				if hung2 && !hung1 {
					if strings.Contains(dump2, "sync.(*Mutex).Lock") || strings.Contains(dump2, "semacquire") {
						res.Violate(fmt.Sprintf("C14|%s|%s|hang", cs.Shape, w.hook.site), fmt.Sprintf("after a %s failure (store call #%d) the history did not finish; goroutine dump shows an operation parked on a lock", w.hook.site, k), wit)
					} else {
						res.Inconclusive = "history did not finish, no blocked-state witness"
					}
					return res
				}
				if !hung1 && !hung2 {
					fw.hook.mu.Lock()
					fw.hook.failAt = -1
					fw.hook.mu.Unlock()
					var rr fsx.Result
					var cv, fv string
					p := core.Recover(func() {
						rr = fsx.Exec(fw.fs, op, &fh, nil)
						ch.CloseAll()
						fh.CloseAll()
						cv, fv = c14view(cw.fs), c14view(fw.fs)
					})
					res.Count("retries_after_failure", 1)
					switch {
					case p != "" || rr.Panic != "":
						res.Violate(fmt.Sprintf("C14|%s|%s|%s|retry-panic", cs.Shape, op.K, w.hook.site), fmt.Sprintf("[%s] retrying %s after its first attempt failed (%s failure at store call #%d) panicked: %s%s", cs.Shape, op, w.hook.site, k, p, rr.Panic), wit)
					case rr.OK() && !rr.Skip && cv != fv:
						res.Violate(fmt.Sprintf("C14|%s|%s|%s|retry-reported-success", cs.Shape, op.K, w.hook.site), fmt.Sprintf("[%s] %s failed when the store failed a %s call (#%d); the same call repeated without any failure returned nil, but the tree is not what one successful %s gives:\nafter the retry\n%s\nfault-free\n%s", cs.Shape, op, w.hook.site, k, op.K, fv, cv), wit)
					case rr.OK():
						res.Count("retries_that_did_the_work", 1)
					}
				}
			}
		}
		// a handle whose write was rejected, then Truncate to exactly the size the handle has now (fault-free): if that
		// reports success, the store holds what the handle holds ("already this size" is true of the handle, not of the store)
		if at < len(results) && at < len(steps) && !results[at].OK() && results[at].Panic == "" && (op.K == "H.Write" || op.K == "H.WriteAt" || op.K == "H.Chmod" || op.K == "H.Chtimes") && w.hook.site == "Set" {
			// (only when the store refused the Set itself: a failed lazy load leaves the handle without contents of its own)
			c14truncateAfterRejectedSave(cs, steps, at, k, w.hook.site, &res, wit)
		}
		// the faulted FS's view must equal a fresh FS over the same store
		var fresh hackpadfs.FS
		var ferr error
		if hung, confirmed := withWatchdog(func() { fresh, ferr = w.fresh() }); hung {
			// (creating a file system opens a transaction: a lock the failed operation never released parks it forever)
			if confirmed {
				res.Violate(fmt.Sprintf("C14|%s|%s|%s|store-left-locked", cs.Shape, op.K, w.hook.site), fmt.Sprintf("[%s] after %s failed (a %s failure at store call #%d) a new file system over the same store cannot be created: the goroutine dump shows it parked on a lock", cs.Shape, op, w.hook.site, k), wit)
			} else {
				res.Inconclusive = "creating a fresh file system over the store did not finish, no blocked-state witness"
			}
			return res
		}
		if ferr != nil {
			res.Violate(fmt.Sprintf("C14|%s|%s|%s|store-unusable", cs.Shape, op.K, w.hook.site), "a fresh keyvalue.FS over the store cannot be created: "+ferr.Error(), wit)
			continue
		}
		w.hook.mu.Lock()
		w.hook.failAt = -1
		w.hook.mu.Unlock()
		var v1, v2 string
		if p := core.Recover(func() { v1, v2 = c14view(w.fs), c14view(fresh) }); p != "" {
			res.Violate(fmt.Sprintf("C14|%s|%s|%s|lookup-panic", cs.Shape, op.K, w.hook.site), "look-ups after the failure panicked: "+p, wit)
		} else if v1 != v2 {
			res.Violate(fmt.Sprintf("C14|%s|%s|%s|view-differs-from-store", cs.Shape, op.K, w.hook.site), fmt.Sprintf("after the failure the FS shows\n%s\nbut the store holds\n%s", v1, v2), wit)
		}
	}
	if idx%23 == 0 {
		res.Sample = map[string]any{"case": cs, "history": fsx.HistoryString(steps), "store_calls": n}
	}
	return res
}
