package props

import (
	"bufio"
	"bytes"
	"context"
	"errors"
	"fmt"
	iofs "io/fs"
	"math/rand"
	"os"
	"os/exec"
	"path/filepath"
	"regexp"
	"runtime"
	"strconv"
	"strings"
	"syscall"
	"time"
	"unicode/utf8"

	"hpverif/internal/core"
	"hpverif/internal/fsx"
	"hpverif/internal/kvs"

	"github.com/hack-pad/hackpadfs"
	"github.com/hack-pad/hackpadfs/cache"
	"github.com/hack-pad/hackpadfs/keyvalue"
	"github.com/hack-pad/hackpadfs/mem"
	"github.com/hack-pad/hackpadfs/mount"
	hpos "github.com/hack-pad/hackpadfs/os"
	hptar "github.com/hack-pad/hackpadfs/tar"
)

// C04: names that are not valid FS paths are rejected everywhere and change nothing.

var c04invalidBase = []string{"", "/", "/x", "x/", "a//b", "./a", "a/.", "..", ".", "a/../b", "a/./b", "../x", "\xff", "a/\xff\xfe", "d/", "d//x", "d/./x", "d/../f", "d/x/", "d/..", "./f", "f/", "/f", "/d/x",
	"m/", "m//x", "m/../f", "m/.", "m/x/", "m/./x", "m/\xff", "d/m2/", "d/m2//y", "d/m2/../x",
	"m/m2/", "m/m2//y", "m/m2/../f", "m/m2/.", "m/m2/y/", "m2/", "m2//x", "m2/../x", "m2/."}

// "." is valid; keep it out
func c04invalid(env *core.Env) []string {
	var out []string
	seen := map[string]bool{}
	add := func(s string) {
		if !iofs.ValidPath(s) && !seen[s] && !strings.Contains(s, "\x00") && len(s) < 200 {
			seen[s] = true
			out = append(out, s)
		}
	}
	for _, s := range c04invalidBase {
		add(s)
	}
	r := rand.New(rand.NewSource(env.Seed*8_000_009 + 4))
	alpha := []string{"a", "d", "m", "f", "x", "/", "/", ".", "..", "\xff", "\\", ":", "m2"}
	for i := 0; i < env.Pick(120, 2000); i++ {
		var sb strings.Builder
		for j := 0; j < 1+r.Intn(6); j++ {
			sb.WriteString(alpha[r.Intn(len(alpha))])
		}
		add(sb.String())
	}
	return out
}

var c04valid = []string{`a\b`, `a:b`, `C:`, `..a`, `a..`, `...`, `a b`, "ü", `a\..\b`, `d/a\b`, `d/C:`, `m/a\b`, `d/..a`, `\`, `:`}

func init() {
	// valid names the OS (or a store) may be unable to hold: too long is an answer of its own, never "invalid name"
	c04valid = append(c04valid, strings.Repeat("L", 255), strings.Repeat("L", 256), strings.Repeat("ü", 200), "d/"+strings.Repeat("n", 300),
		strings.TrimSuffix(strings.Repeat(strings.Repeat("p", 200)+"/", 30), "/"))
}

func c04shape(s string) string {
	var sh string
	switch {
	case s == "":
		sh = "empty"
	case !utf8.ValidString(s):
		sh = "bad-utf8"
	case strings.HasPrefix(s, "/"):
		sh = "rooted"
	case strings.HasSuffix(s, "/"):
		sh = "trailing-slash"
	case strings.Contains(s, "//"):
		sh = "empty-elem"
	default:
		sh = "dot-elem"
		for _, el := range strings.Split(s, "/") {
			if el == ".." {
				sh = "dotdot-elem"
			}
		}
	}
	switch {
	case strings.HasPrefix(s, "m/") || strings.HasPrefix(s, "d/m2/") || strings.HasPrefix(s, "m2/"):
		sh += ",below-mountpoint"
	case strings.HasPrefix(s, "d/") || strings.HasPrefix(s, "f/"):
		sh += ",below-existing"
	}
	return sh
}

var c04ops = []string{"Open", "OpenFile", "Create", "Mkdir", "MkdirAll", "Remove", "RemoveAll", "Stat", "Lstat", "LstatOrStat", "Chmod", "Chown", "Chtimes", "ReadDir", "ReadFile", "WriteFullFile", "Sub",
	"Rename:1", "Rename:2", "Rename:both", "Symlink:1", "Symlink:2", "Symlink:both"}

var c04subjects = []string{"mem", "kvplain", "mount", "sub", "sub-os", "cache", "tar", "os", "tar-broken", "mount-nested", "sub-mount", "sub-dot", "kv-store-down", "kv-txn-store-down"}

// c04parts are the constituent file systems whose state must not change.
type c04subject struct {
	fs      hackpadfs.FS
	parts   map[string]hackpadfs.FS
	cleanup func()
}

var c04items = []treeItem{{Path: "d", Dir: true, Perm: 0o755}, {Path: "d/x", Perm: 0o644, Data: "dx"}, {Path: "f", Perm: 0o644, Data: "ff"}, {Path: "m", Dir: true, Perm: 0o755}, {Path: "d/m2", Dir: true, Perm: 0o755},
	// entries whose (valid) names contain what some operating system uses as a separator or a drive
	{Path: `w\in`, Perm: 0o644, Data: "backslash"}, {Path: `d/C:x`, Perm: 0o644, Data: "colon"}, {Path: `d/..dots`, Dir: true, Perm: 0o755}}

// c04unusualItems exist in the populated state and must be found under exactly their names
var c04unusualItems = []string{`w\in`, `d/C:x`, `d/..dots`}

func newC04Subject(env *core.Env, name string, populatedState bool) (*c04subject, error) {
	items := c04items
	if !populatedState {
		items = []treeItem{{Path: "m", Dir: true, Perm: 0o755}, {Path: "d", Dir: true, Perm: 0o755}, {Path: "d/m2", Dir: true, Perm: 0o755}}
	}
	s := &c04subject{parts: map[string]hackpadfs.FS{}, cleanup: func() {}}
	switch name {
	case "kv-txn-store-down":
		// the same with a store that has transactions of its own and refuses to open one
		w := kvs.WrapTxn(mem.NewStoreVerif(), nil)
		k, err := keyvalue.NewFS(w)
		if err != nil {
			return nil, err
		}
		if err := buildTree(k, items); err != nil {
			return nil, err
		}
		w.Hook = func(kvs.Event) error { return errors.New("the store is down") }
		s.fs = k
		s.parts["self"] = k
		return s, nil
	case "kv-store-down":
		// a key-value file system whose store has stopped answering (every call fails): an invalid name is an invalid name
		// all the same - it is refused as such, not with the store's error
		p := kvs.NewPlain()
		k, err := keyvalue.NewFS(p)
		if err != nil {
			return nil, err
		}
		if err := buildTree(k, items); err != nil {
			return nil, err
		}
		p.Hook = func(kvs.Event) error { return errors.New("the store is down") }
		s.fs = k
		s.parts["self"] = k
		return s, nil
	case "mount-nested":
		// a mount.FS mounted inside a mount.FS: m -> inner mount FS, whose m2 is again a mount point
		root, _ := mem.NewFS()
		mf, _ := mount.NewFS(root)
		if err := buildTree(mf, items); err != nil {
			return nil, err
		}
		innerRoot, _ := mem.NewFS()
		_ = hackpadfs.Mkdir(innerRoot, "m2", 0o755)
		_ = hackpadfs.WriteFullFile(innerRoot, "f", []byte("inner-f"), 0o644)
		inner, _ := mount.NewFS(innerRoot)
		innerM2, _ := mem.NewFS()
		_ = hackpadfs.WriteFullFile(innerM2, "y", []byte("inner-m2-y"), 0o644)
		if err := inner.AddMount("m2", innerM2); err != nil {
			return nil, err
		}
		if err := mf.AddMount("m", inner); err != nil {
			return nil, err
		}
		m2, _ := mem.NewFS()
		if err := mf.AddMount("d/m2", m2); err != nil {
			return nil, err
		}
		s.fs = mf
		s.parts["root"], s.parts["inner-root"], s.parts["inner-m2"], s.parts["d/m2"] = root, innerRoot, innerM2, m2
		return s, nil
	case "mount", "sub-mount":
		root, _ := mem.NewFS()
		mf, _ := mount.NewFS(root)
		if err := buildTree(mf, items); err != nil {
			return nil, err
		}
		m1, _ := mem.NewFS()
		m2, _ := mem.NewFS()
		if err := mf.AddMount("m", m1); err != nil {
			return nil, err
		}
		if err := mf.AddMount("d/m2", m2); err != nil {
			return nil, err
		}
		_ = hackpadfs.WriteFullFile(m1, "f", []byte("in-m"), 0o644)
		_ = hackpadfs.WriteFullFile(m2, "x", []byte("in-m2"), 0o644)
		s.fs = mf
		s.parts["root"], s.parts["m"], s.parts["d/m2"] = root, m1, m2
		if name == "sub-mount" {
			// a view of the directory that holds the mount point m2
			v, err := hackpadfs.Sub(mf, "d")
			if err != nil {
				return nil, err
			}
			s.fs = v
		}
		return s, nil
	case "sub-dot":
		// a view of "." (legal, and what code that takes "a directory" gets for the top)
		parent, _ := mem.NewFS()
		v, err := hackpadfs.Sub(parent, ".")
		if err != nil {
			return nil, err
		}
		s.fs = v
		s.parts["parent"] = parent
		return s, buildTree(v, items)
	case "sub":
		parent, _ := mem.NewFS()
		if err := hackpadfs.MkdirAll(parent, "top/in", 0o755); err != nil {
			return nil, err
		}
		_ = hackpadfs.WriteFullFile(parent, "f", []byte("outside"), 0o644)
		v, err := hackpadfs.Sub(parent, "top/in")
		if err != nil {
			return nil, err
		}
		s.fs = v
		s.parts["parent"] = parent
		return s, buildTree(v, items)
	case "sub-os", "os":
		d, err := os.MkdirTemp(env.Scratch, "c04os-")
		if err != nil {
			return nil, err
		}
		s.cleanup = func() { _ = os.RemoveAll(d) }
		_ = os.Chmod(d, 0o777)
		_ = os.WriteFile(filepath.Join(d, "outside"), []byte("o"), 0o644)
		in := filepath.Join(d, "in")
		_ = os.Mkdir(in, 0o777)
		var v hackpadfs.FS
		if name == "os" {
			v, err = hpos.NewFS().Sub(in[1:])
		} else {
			var p hackpadfs.FS
			p, err = hpos.NewFS().Sub(d[1:])
			if err == nil {
				v, err = hackpadfs.Sub(p, "in")
			}
		}
		if err != nil {
			return nil, err
		}
		s.fs = v
		s.parts["osdir"] = &fsx.OSRef{Root: d}
		return s, buildTree(v, items)
	case "cache":
		src, _ := mem.NewFS()
		if err := buildTree(src, items); err != nil {
			return nil, err
		}
		store, _ := mem.NewFS()
		c, err := cache.NewReadOnlyFS(src, store, cache.ReadOnlyOptions{})
		s.fs = c
		s.parts["source"], s.parts["store"] = src, store
		return s, err
	case "tar", "tar-broken":
		dst, _ := mem.NewFS()
		// (two members whose names are spelled with a doubled leading slash and with a climb right after the root: both
		// resolve inside the root; an archive holding them unpacks, and valid names are looked up as usual)
		archive := buildTarVerbatim(append(append([]treeItem(nil), items...), treeItem{Path: "//abs2/file", Perm: 0o644, Data: "abs"}, treeItem{Path: "/../up.txt", Perm: 0o644, Data: "up"},
			// (members beyond the small buffer are written by another code path: one spelled ./x, one a//b)
			treeItem{Path: "./zbig1.bin", Perm: 0o644, Data: strings.Repeat("B", 160<<10)}, treeItem{Path: "d//zbig2.bin", Perm: 0o600, Data: strings.Repeat("b", 151<<10)}))
		if name == "tar-broken" {
			// the archive ends inside its last entry: unpacking fails, and every later call goes through the FS's failure paths
			// (directories only before it: they are created in the foreground, so nothing is still being written when Done() closes)
			var dirs []treeItem
			for _, it := range items {
				if it.Dir {
					dirs = append(dirs, it)
				}
			}
			archive = buildTarVerbatim(append(dirs, treeItem{Path: "zz", Perm: 0o644, Data: strings.Repeat("z", 3000)}))
			archive = archive[:len(archive)-1024-2000]
		}
		t, err := hptar.NewReaderFS(context.Background(), bytes.NewReader(archive), hptar.ReaderFSOptions{UnarchiveFS: dst})
		if err != nil {
			return nil, err
		}
		select {
		case <-t.Done():
		case <-time.After(60 * time.Second):
			return nil, fmt.Errorf("tar did not finish")
		}
		s.fs = t
		s.parts["dest"] = dst
		if name == "tar-broken" {
			if t.UnarchiveErr() == nil {
				return nil, fmt.Errorf("the truncated archive unpacked without error")
			}
			return s, nil
		}
		return s, t.UnarchiveErr()
	}
	p, err := newPopulated(env, name, items)
	if err != nil {
		return nil, err
	}
	s.fs, s.cleanup = p.fs, p.cleanup
	s.parts["self"] = p.fs
	return s, nil
}

func (s *c04subject) state() string {
	var sb strings.Builder
	for _, k := range []string{"self", "root", "m", "d/m2", "inner-root", "inner-m2", "parent", "osdir", "source", "store", "dest"} {
		if f, ok := s.parts[k]; ok {
			snap, prob := fsx.Snapshot(f, nil)
			sb.WriteString(k + "=" + snap.Hash() + prob + ";")
		}
	}
	return sb.String()
}

type c04case struct {
	Subject   string `json:"subject"`
	Populated bool   `json:"populated"`
	Op        string `json:"op"`
}

func c04cases() []c04case {
	var cs []c04case
	for _, s := range c04subjects {
		for _, pop := range []bool{true, false} {
			for _, op := range c04ops {
				cs = append(cs, c04case{s, pop, op})
			}
		}
	}
	return cs
}

func c04steps(op, name, other string) fsx.Step {
	k := op
	pos := ""
	if i := strings.Index(op, ":"); i >= 0 {
		k, pos = op[:i], op[i+1:]
	}
	st := fsx.Step{K: k, P: name, Perm: 0o644, Data: "new", MTime: 1_500_000_000}
	switch k {
	case "Open":
		st.K, st.Flag = "OpenClose", os.O_RDONLY
		st.Data = ""
	case "OpenFile":
		st.K, st.Flag = "OpenClose", os.O_RDWR|os.O_CREATE
	case "Mkdir", "MkdirAll":
		st.Perm = 0o755
	case "Rename", "Symlink":
		switch pos {
		case "1":
			st.P, st.P2 = name, other
		case "2":
			st.P, st.P2 = other, name
		default:
			st.P, st.P2 = name, name
		}
	}
	return st
}

func init() {
	core.RegisterCommand("c04strace", c04straceChild)
	core.Register(&core.Prop{
		ID:    "C04",
		Level: "exploration",
		Rule: "every FS method and package helper (17 single-name operations, Rename and Symlink with the invalid name first / second / both) is called on mem, keyvalue over a plain Store, mount (names invalid as a whole and invalid only after a mount point), a generic Sub view, a Sub view of os.FS, the cache, the tar FS (healthy and after a failed unpack), os.FS, a mount.FS mounted inside a mount.FS and a Sub view of a directory holding a mount point, in a populated and an (almost) empty state, with an enumerated corpus around the ValidPath boundary plus seeded fuzzed byte strings filtered by the standard library's !io/fs.ValidPath (not by the library's own ValidPath, which is part of what is checked): the call must fail matching ErrInvalid and the snapshots of ALL constituent file systems must be unchanged. " +
			"Valid names containing backslash, colon, dots are never refused as invalid and are not split into elements. For os.FS the same calls run in a helper process under strace (-e trace=%file) with marker syscalls: no file syscall may occur between the markers of an invalid-name call. Operations a subject does not support at all (ErrNotImplemented for a valid name) are skipped. Non-trivial: all cases; distinct by (subject, state, operation)",
		Assumptions: []string{"mount.AddMount refusing '.' is configuration, not covered", "names containing NUL or longer than 200 bytes are not generated", "strace sees the helper's locked OS thread; other threads' syscalls (runtime) are ignored"},
		NumCases:    func(env *core.Env) int { return len(c04cases()) },
		Batch:       12,
		Run:         c04run,
		PreParent:   c04strace,
		Floor: func(env *core.Env, agg *core.Agg) string {
			if agg.Counters["invalid_calls"] < 5000 || agg.Counters["valid_calls"] < 300 || agg.Counters["strace_invalid_calls"] < 100 {
				return fmt.Sprint(agg.Counters)
			}
			return ""
		},
	})
}

func c04run(env *core.Env, idx int) core.CaseResult {
	cs := c04cases()[idx]
	var res core.CaseResult
	res.Key = core.Hash(cs)
	res.Nontrivial = true
	sub, err := newC04Subject(env, cs.Subject, cs.Populated)
	if err != nil {
		if cs.Subject == "os" || cs.Subject == "sub-os" {
			res.Inconclusive = "setup " + cs.Subject + ": " + err.Error() // could be the environment (scratch directory)
		} else {
			// building the start tree uses valid names only and in-memory parts only: a failure is the library refusing them
			res.Violate("C04|"+cs.Subject+"|setup|got=fail,want=ok", fmt.Sprintf("the start tree (valid names only) cannot be built through %s: %v", cs.Subject, err), cs)
		}
		return res
	}
	defer sub.cleanup()
	var hs fsx.Handles
	// is the operation supported at all? probe with a valid, existing and a valid, missing name
	supported := false
	for _, probe := range []string{"f", "zz-missing", "d"} {
		other := "zz-other"
		r := fsx.Exec(sub.fs, c04steps(cs.Op, probe, other), &hs, nil)
		if r.Err != "ErrNotImplemented" {
			supported = true
		}
	}
	// the probes may have changed the subject: rebuild
	sub.cleanup()
	sub, err = newC04Subject(env, cs.Subject, cs.Populated)
	if err != nil {
		res.Inconclusive = "setup " + cs.Subject + ": " + err.Error()
		return res
	}
	defer sub.cleanup()
	if !supported {
		res.Count("unsupported_op_skipped", 1)
		return res
	}
	// warm-up: look every existing name up once with its valid spelling, so that caches keyed by name are populated
	// (an invalid spelling must not be answered from state a valid look-up left behind)
	for _, it := range c04items {
		_, _ = hackpadfs.Stat(sub.fs, it.Path)
		if f, err := sub.fs.Open(it.Path); err == nil {
			_ = f.Close()
		}
		if it.Dir {
			_, _ = hackpadfs.ReadDir(sub.fs, it.Path)
		}
	}
	before := sub.state()
	for _, name := range c04invalid(env) {
		st := c04steps(cs.Op, name, "f")
		r := fsx.Exec(sub.fs, st, &hs, nil)
		res.Count("invalid_calls", 1)
		res.Seen("situations", cs.Subject+"|"+cs.Op+"|"+c04shape(name))
		sig := fmt.Sprintf("C04|%s|%s|%s|", cs.Subject, cs.Op, c04shape(name))
		wit := map[string]any{"case": cs, "name": fmt.Sprintf("%q", name)}
		switch {
		case r.Panic != "":
			res.Violate(sig+"got=panic,want=ErrInvalid", fmt.Sprintf("[%s] %s with invalid name %q panicked: %s", cs.Subject, cs.Op, name, r.Panic), wit)
		case r.Err != "ErrInvalid":
			res.Violate(sig+"got="+r.Err+",want=ErrInvalid", fmt.Sprintf("[%s] %s with invalid name %q returned %s", cs.Subject, cs.Op, name, r), wit)
		}
		if after := sub.state(); after != before {
			res.Violate(sig+"changed", fmt.Sprintf("[%s] %s with invalid name %q changed a file system (%s -> %s)", cs.Subject, cs.Op, name, before, after), wit)
			before = after
		}
	}
	// entries with unusual valid names that exist are found under their names (on every kind, also after being unpacked or cached)
	if cs.Populated && cs.Op == "Stat" && cs.Subject != "tar-broken" && cs.Subject != "sub-mount" && !strings.HasPrefix(cs.Subject, "kv-") { // (sub-mount is a view of d: other names)
		for _, name := range c04unusualItems {
			r := fsx.Exec(sub.fs, fsx.Step{K: "Stat", P: name}, &hs, nil)
			res.Count("valid_calls", 1)
			if !r.OK() {
				res.Violate(fmt.Sprintf("C04|%s|Stat|valid-unusual|existing-not-found", cs.Subject), fmt.Sprintf("[%s] %q was put there under exactly this (valid) name; Stat returns %s", cs.Subject, name, r), map[string]any{"case": cs, "name": name})
			}
		}
		if entries, err := hackpadfs.ReadDir(sub.fs, "."); err == nil {
			found := false
			for _, e := range entries {
				found = found || e.Name() == `w\in`
			}
			if !found {
				res.Violate(fmt.Sprintf("C04|%s|ReadDir|valid-unusual|existing-not-listed", cs.Subject), fmt.Sprintf("[%s] the root does not list %q (listing: %s)", cs.Subject, `w\in`, fsx.EntriesString(entries)), cs)
			}
		}
	}
	// valid names with unusual bytes are never refused as invalid, and are not split
	for _, name := range c04valid {
		if !iofs.ValidPath(name) {
			continue
		}
		st := c04steps(cs.Op, name, "zz-other")
		r := fsx.Exec(sub.fs, st, &hs, nil)
		res.Count("valid_calls", 1)
		sig := fmt.Sprintf("C04|%s|%s|valid-unusual|", cs.Subject, cs.Op)
		if r.Panic != "" || r.Err == "ErrInvalid" {
			res.Violate(sig+"refused", fmt.Sprintf("[%s] %s with the valid name %q returned %s", cs.Subject, cs.Op, name, r), map[string]any{"case": cs, "name": name})
		}
	}
	if strings.HasPrefix(cs.Op, "Rename") {
		// two valid names that only LOOK related: a directory moved into another directory whose name starts with the same
		// characters, and a file moved next to such a name; neither is a move "into itself"
		_ = hackpadfs.MkdirAll(sub.fs, "lk", 0o755)
		_ = hackpadfs.MkdirAll(sub.fs, "lk-archive/2024", 0o755)
		_ = hackpadfs.MkdirAll(sub.fs, "lk2", 0o755)
		// ... and a file moved over an existing file that sits directly below "m" and "d/m2" (mount points on the mount subjects:
		// the move is then a copy, whose temporary names are the library's own business and must be valid ones)
		_ = hackpadfs.WriteFullFile(sub.fs, "xsrc1", []byte("s1"), 0o644)
		_ = hackpadfs.WriteFullFile(sub.fs, "xsrc2", []byte("s2"), 0o644)
		_ = hackpadfs.WriteFullFile(sub.fs, "m/xdst", []byte("d1"), 0o644)
		_ = hackpadfs.WriteFullFile(sub.fs, "d/m2/xdst", []byte("d2"), 0o644)
		_ = hackpadfs.WriteFullFile(sub.fs, "xdst0", []byte("d0"), 0o644)
		for _, pair := range [][2]string{{"xsrc1", "m/xdst"}, {"xsrc2", "d/m2/xdst"}, {"m/xdst", "xdst0"}, {"lk", "lk-archive/2024/moved"}, {"lk2", "lk-archive/lk2"}, {"lk-archive/2024", "lk-archive/2024x"}} {
			st := fsx.Step{K: "Rename", P: pair[0], P2: pair[1]}
			r := fsx.Exec(sub.fs, st, &hs, nil)
			res.Count("valid_calls", 1)
			if r.Panic != "" || r.Err == "ErrInvalid" {
				res.Violate(fmt.Sprintf("C04|%s|Rename|valid-lookalike|refused", cs.Subject), fmt.Sprintf("[%s] %s (two valid, unrelated names) returned %s", cs.Subject, st, r), map[string]any{"case": cs, "step": st.String()})
			}
		}
	}
	if cs.Op == "WriteFullFile" || cs.Op == "Mkdir" || cs.Op == "OpenFile" || cs.Op == "Create" {
		// whatever got created under a name with '\' or ':' must be ONE element of the root listing
		if entries, err := hackpadfs.ReadDir(sub.fs, "."); err == nil {
			names := map[string]bool{}
			for _, e := range entries {
				names[e.Name()] = true
			}
			for _, name := range c04valid {
				if strings.Contains(name, "/") {
					continue
				}
				if _, err := hackpadfs.Stat(sub.fs, name); err == nil && !names[name] {
					res.Violate(fmt.Sprintf("C04|%s|%s|valid-unusual|split", cs.Subject, cs.Op), fmt.Sprintf("[%s] %q exists but the root does not list it as one element (listing: %v)", cs.Subject, name, names), cs)
				}
			}
			for n := range names {
				if n == "a" || n == "C" || n == ".." {
					res.Violate(fmt.Sprintf("C04|%s|%s|valid-unusual|split", cs.Subject, cs.Op), fmt.Sprintf("[%s] the root lists %q: a name with '\\' or ':' was split", cs.Subject, n), cs)
				}
			}
		}
	}
	if idx%37 == 0 {
		res.Sample = map[string]any{"case": cs, "invalid_names": len(c04invalid(env)), "example": fmt.Sprintf("%q", c04invalid(env)[idx%len(c04invalid(env))])}
	}
	return res
}

// ---- os.FS kernel monitor (strace)

// c04straceChild runs invalid-name calls on os.FS with marker syscalls around each; executed under strace by the parent.
func c04straceChild(args []string) int {
	if len(args) < 2 {
		return 2
	}
	dir := args[0]
	seed, _ := strconv.ParseInt(args[1], 10, 64)
	runtime.LockOSThread()
	if err := core.Jail(dir); err != nil {
		return 2
	}
	_ = os.Mkdir("/in", 0o777)
	dir = "/in"
	env := &core.Env{Seed: seed, Tier: "quick"}
	if len(args) > 2 {
		env.Tier = args[2]
	}
	fsys, err := hpos.NewFS().Sub(dir[1:])
	if err != nil {
		return 2
	}
	_ = buildTree(fsys, c04items)
	var hs fsx.Handles
	n := 0
	mark := func(tag string, n int) { _ = syscall.Access(fmt.Sprintf("/VERIF-MARK-%s-%d", tag, n), 0) }
	fmt.Printf("TID %d\n", syscall.Gettid())
	for _, op := range c04ops {
		for _, name := range c04invalid(env) {
			st := c04steps(op, name, "f")
			mark("b", n)
			r := fsx.Exec(fsys, st, &hs, nil)
			mark("e", n)
			fmt.Printf("CALL %d %s %q -> %s\n", n, op, name, r.Err)
			n++
		}
		// a valid call as a positive control: it must show file syscalls between its markers
		mark("vb", n)
		_ = fsx.Exec(fsys, c04steps(op, "f", "zz"), &hs, nil)
		mark("ve", n)
		n++
	}
	return 0
}

var c04markRe = regexp.MustCompile(`^(\d+)\s+(\w+)\([^"]*"([^"]*)"`)

func c04strace(env *core.Env) []core.CaseResult {
	var res core.CaseResult
	res.Idx = -1
	res.Nontrivial = true
	res.Key = "strace"
	exe, _ := os.Executable()
	dir, err := os.MkdirTemp(env.Scratch, "c04strace-")
	if err != nil {
		res.Inconclusive = err.Error()
		return []core.CaseResult{res}
	}
	_ = os.Chmod(dir, 0o777)
	logf := filepath.Join(env.Scratch, "c04.strace.log")
	if _, err := exec.LookPath("strace"); err != nil {
		res.Inconclusive = "strace not available"
		return []core.CaseResult{res}
	}
	cmd := exec.Command("strace", "-f", "-e", "trace=%file", "-o", logf, exe, "c04strace", dir, strconv.FormatInt(env.Seed, 10), env.Tier)
	out, err := cmd.Output()
	if err != nil {
		res.Inconclusive = "strace run failed: " + err.Error()
		return []core.CaseResult{res}
	}
	tid := ""
	calls := map[int]string{}
	for _, l := range strings.Split(string(out), "\n") {
		if strings.HasPrefix(l, "TID ") {
			tid = strings.TrimSpace(l[4:])
		}
		if strings.HasPrefix(l, "CALL ") {
			f := strings.SplitN(l, " ", 3)
			n, _ := strconv.Atoi(f[1])
			calls[n] = f[2]
		}
	}
	f, err := os.Open(logf)
	if err != nil {
		res.Inconclusive = err.Error()
		return []core.CaseResult{res}
	}
	defer f.Close()
	sc := bufio.NewScanner(f)
	sc.Buffer(make([]byte, 1<<20), 1<<26)
	inInvalid, inValid, cur := false, false, -1
	validWithSyscalls, validCalls, invalidCalls, syscallsSeen := 0, 0, 0, 0
	curValidSys := 0
	for sc.Scan() {
		m := c04markRe.FindStringSubmatch(sc.Text())
		if m == nil || m[1] != tid {
			continue
		}
		syscallsSeen++
		arg := m[3]
		if strings.HasPrefix(arg, "/VERIF-MARK-") {
			parts := strings.Split(strings.TrimPrefix(arg, "/VERIF-MARK-"), "-")
			n, _ := strconv.Atoi(parts[len(parts)-1])
			switch parts[0] {
			case "b":
				inInvalid, cur = true, n
				invalidCalls++
			case "e":
				inInvalid = false
			case "vb":
				inValid, curValidSys = true, 0
				validCalls++
			case "ve":
				inValid = false
				if curValidSys > 0 {
					validWithSyscalls++
				}
			}
			continue
		}
		if inValid {
			curValidSys++
		}
		if inInvalid {
			desc := calls[cur]
			op := strings.SplitN(desc, " ", 2)[0]
			res.Violate("C04|os|"+op+"|kernel|syscall-for-invalid-name", fmt.Sprintf("os.FS issued %s(%s...) for the invalid-name call %s", m[2], arg, desc), map[string]any{"call": desc, "syscall": sc.Text()})
		}
	}
	res.Count("strace_invalid_calls", invalidCalls)
	res.Count("strace_valid_controls", validCalls)
	res.Count("strace_valid_controls_with_file_syscalls", validWithSyscalls)
	res.Count("strace_file_syscalls_seen", syscallsSeen)
	if validWithSyscalls < validCalls/2 {
		res.Inconclusive = fmt.Sprintf("strace monitor blind: only %d of %d valid control calls showed file syscalls", validWithSyscalls, validCalls)
	}
	res.Sample = map[string]any{"strace": "helper under strace -f -e trace=%file", "invalid_calls_bracketed": invalidCalls, "valid_controls_with_syscalls": validWithSyscalls}
	return []core.CaseResult{res}
}
