package props

import (
	"fmt"
	"io/fs"
	"math/rand"
	"os"
	"sort"
	"strings"
	"sync"
	"sync/atomic"
	"time"

	"hpverif/internal/core"
	"hpverif/internal/fsx"

	"github.com/hack-pad/hackpadfs"
	"github.com/hack-pad/hackpadfs/mem"
	"github.com/hack-pad/hackpadfs/mount"
)

// C06: mount.FS routes every path to the longest matching mount point, and only there.

var c06points = []string{"a", "ab", "a/b", "a/b/c", "b", "c/a"}

func c06sets(maxSize int) [][]string {
	var out [][]string
	n := len(c06points)
	for mask := 0; mask < 1<<n; mask++ {
		var set []string
		for i := 0; i < n; i++ {
			if mask&(1<<i) != 0 {
				set = append(set, c06points[i])
			}
		}
		if len(set) <= maxSize {
			out = append(out, set)
		}
	}
	sort.Slice(out, func(i, j int) bool {
		if len(out[i]) != len(out[j]) {
			return len(out[i]) < len(out[j])
		}
		return strings.Join(out[i], ",") < strings.Join(out[j], ",")
	})
	return out
}

// c06route is the independent selection model: the longest mount point that equals p or is a whole-element prefix of it.
func c06route(points []string, p string) (point, rem string) {
	best := ""
	for _, mp := range points {
		if (p == mp || strings.HasPrefix(p, mp+"/")) && len(mp) > len(best) {
			best = mp
		}
	}
	if best == "" {
		return ".", p
	}
	if p == best {
		return best, "."
	}
	return best, p[len(best)+1:]
}

func cloneInto(dst hackpadfs.FS, src hackpadfs.FS) error {
	snap, prob := fsx.Snapshot(src, nil)
	if prob != "" {
		return fmt.Errorf("clone: %s", prob)
	}
	var paths []string
	for p := range snap {
		if p != "." {
			paths = append(paths, p)
		}
	}
	sort.Strings(paths)
	for _, p := range paths {
		e := snap[p]
		var err error
		if e.Kind == "d" {
			err = hackpadfs.Mkdir(dst, p, fs.FileMode(e.Mode))
		} else {
			err = hackpadfs.WriteFullFile(dst, p, []byte(e.Data), fs.FileMode(e.Mode))
		}
		if err != nil {
			return err
		}
		if err := hackpadfs.Chmod(dst, p, fs.FileMode(e.Mode)); err != nil {
			return err
		}
	}
	return nil
}

type c06world struct {
	points []string
	mfs    *mount.FS
	a, b   map[string]*mem.FS // twins: inside the mount FS / stand-alone, keyed by mount point ("." = root)
}

func newC06World(points []string, r *rand.Rand) (*c06world, error) {
	w := &c06world{a: map[string]*mem.FS{}, b: map[string]*mem.FS{}}
	root, _ := mem.NewFS()
	w.a["."] = root
	m, err := mount.NewFS(root)
	if err != nil {
		return nil, err
	}
	w.mfs = m
	// some content in the root before mounting (hidden below mount points afterwards)
	_ = hackpadfs.MkdirAll(root, "a/b/c", 0o755)
	_ = hackpadfs.WriteFullFile(root, "a/hidden-by-mount", []byte("root-a"), 0o600)
	_ = hackpadfs.WriteFullFile(root, "top", []byte("top"), 0o644)
	order := append([]string(nil), points...)
	sort.Slice(order, func(i, j int) bool { return len(order[i]) < len(order[j]) })
	for _, p := range order {
		if err := hackpadfs.MkdirAll(m, p, 0o755); err != nil {
			return nil, fmt.Errorf("mkdirall %s: %w", p, err)
		}
		f, _ := mem.NewFS()
		_ = hackpadfs.WriteFullFile(f, "in-"+strings.ReplaceAll(p, "/", "_"), []byte("content of "+p), 0o640)
		if err := m.AddMount(p, f); err != nil {
			return nil, fmt.Errorf("addmount %s: %w", p, err)
		}
		w.a[p] = f
		w.points = append(w.points, p)
	}
	for k, f := range w.a {
		c, _ := mem.NewFS()
		if err := cloneInto(c, f); err != nil {
			return nil, err
		}
		w.b[k] = c
	}
	return w, nil
}

// compare checks every A twin against its B twin.
func (w *c06world) compare() (string, string) {
	keys := make([]string, 0, len(w.a))
	for k := range w.a {
		keys = append(keys, k)
	}
	sort.Strings(keys)
	for _, k := range keys {
		sa, pa := fsx.Snapshot(w.a[k], nil)
		sb, pb := fsx.Snapshot(w.b[k], nil)
		if pa != "" || pb != "" {
			return k, "walk: " + pa + pb
		}
		if kind, detail := fsx.Diff(sa, sb); kind != "" {
			return k, kind + ": " + detail
		}
	}
	return "", ""
}

func (w *c06world) stateOfB() map[string]fsx.Snap {
	out := map[string]fsx.Snap{}
	for k, f := range w.b {
		s, _ := fsx.Snapshot(f, nil)
		out[k] = s
	}
	return out
}

type c06case struct {
	Part string   `json:"part"` // route | addmount | concurrent
	Set  []string `json:"set,omitempty"`
	Rep  int      `json:"rep"`
}

func c06cases(env *core.Env) []c06case {
	var cs []c06case
	reps := env.Pick(3, 6)
	for _, set := range c06sets(env.Pick(2, 4)) {
		for r := 0; r < reps; r++ {
			cs = append(cs, c06case{Part: "route", Set: set, Rep: r})
		}
	}
	if !env.Thorough() {
		all := c06sets(4)
		r := rand.New(rand.NewSource(env.Seed + 606))
		for i := 0; i < 20; i++ {
			s := all[22+r.Intn(len(all)-22)]
			cs = append(cs, c06case{Part: "route", Set: s, Rep: i})
		}
	}
	for i := 0; i < env.Pick(10, 60); i++ {
		cs = append(cs, c06case{Part: "addmount", Rep: i})
	}
	for i := range c06faultCases() {
		cs = append(cs, c06case{Part: "crossfault", Rep: i})
	}
	cs = append(cs, c06case{Part: "oslink"})
	for i := 0; i < env.Pick(300, 4000); i++ {
		cs = append(cs, c06case{Part: "concurrent", Rep: i})
	}
	return cs
}

func init() {
	core.Register(&core.Prop{
		ID:    "C06",
		Level: "exploration",
		Rule: "twin execution: every constituent file system exists twice (twin A inside the mount FS, twin B stand-alone, cloned from A); each operation of a seeded history issued through the mount FS at path p is mirrored on twin B of the file system an independent longest-whole-element-prefix model selects, at the remainder path; afterwards every A twin must equal its B twin (so nothing else changed) and the results must agree. A quarter of the calls are issued through a Sub view of a directory on the way to the path (at, above or below mount points) instead of the mount FS itself. Rename routes both names through the model; cross-mount renames of regular files are checked against 'only at the destination with the same bytes and mode, or failed with both sides unchanged'. " +
			"Mount-point sets: all subsets of {a, ab, a/b, a/b/c, b, c/a} up to size 2 plus 20 larger ones (quick) / up to size 4 (thorough), each repeated (the mount table's iteration order is randomised by the runtime; distinct MountPoints() orders are counted). AddMount preconditions are checked against a model, and 2..8 goroutines mounting one point are released together inside the window between the existence check and the table update (a wrapper pauses the root FS's Open), under the race detector: exactly one must succeed. (crossfault) renames of a 16 KiB file from the file system mounted at a to the one mounted at b (equal and different relative names, nested or not, destination missing or an existing file, bystander files at the other side's relative names) with the k-th Write / short Write of the destination handle or the k-th Read of the source handle failing: the rename must fail and the snapshots of the root, source and destination file systems must equal those taken before. Non-trivial: histories with >=1 operation routed to a non-root mount and >=1 cross-mount rename, or a concurrent AddMount group; distinct by (set, repetition)",
		Assumptions: []string{"mount.AddMount refusing '.' is configuration", "constituent file systems are mem.FS", "a cross-mount rename that fails although the model could complete it is counted, not flagged (the property allows failing with both sides unchanged)"},
		NumCases:    func(env *core.Env) int { return len(c06cases(env)) },
		Batch:       40,
		Race:        true,
		Run:         c06run,
		Floor: func(env *core.Env, agg *core.Agg) string {
			if agg.Counters["ops_mirrored"] < 3000 || agg.Counters["cross_mount_renames"] < 30 || agg.Counters["concurrent_addmount_groups"] < 100 {
				return fmt.Sprint(agg.Counters)
			}
			return ""
		},
	})
}

func c06run(env *core.Env, idx int) core.CaseResult {
	cs := c06cases(env)[idx]
	var res core.CaseResult
	res.Key = core.Hash(cs)
	switch cs.Part {
	case "route":
		c06routeCase(env, cs, idx, &res)
	case "addmount":
		c06addmount(env, cs, idx, &res)
	case "crossfault":
		c06crossfault(env, cs, idx, &res)
	case "oslink":
		c06oslink(env, &res)
	default:
		c06concurrent(env, cs, idx, &res)
	}
	if idx%29 == 0 && res.Sample == nil {
		res.Sample = cs
	}
	return res
}

func c06routeCase(env *core.Env, cs c06case, idx int, res *core.CaseResult) {
	r := rand.New(rand.NewSource(env.Seed*10_000_019 + int64(idx)))
	w, err := newC06World(cs.Set, r)
	if err != nil {
		res.Violate("C06|setup|"+fmt.Sprint(len(cs.Set)), "cannot build the mount configuration "+fmt.Sprint(cs.Set)+": "+err.Error(), cs)
		return
	}
	var order []string
	for _, p := range w.mfs.MountPoints() {
		order = append(order, p.Path)
	}
	res.Seen("mountpoint_orders", strings.Join(cs.Set, ",")+"=>"+strings.Join(order, ","))
	if k, d := w.compare(); k != "" {
		res.Inconclusive = "twins differ before the first operation: " + k + " " + d
		return
	}
	gen := fsx.NewGen(env.Seed*10_000_019+int64(idx)+1, fmt.Sprintf("m%d", idx))
	gen.Depth = 4
	nops := env.Pick(60, 300)
	var hist []fsx.Step
	var hsA fsx.Handles
	hsB := map[string]*fsx.Handles{}
	routedNonRoot, crossRenames := 0, 0
	for i := 0; i < nops; i++ {
		tree, _ := fsx.Snapshot(w.mfs, nil)
		st := gen.Namespace(tree, false)
		if i%5 == 0 && len(w.points) > 0 { // aim at mount points and their surroundings
			mp := w.points[gen.R.Intn(len(w.points))]
			switch gen.R.Intn(4) {
			case 0:
				st.P = mp
			case 1:
				st.P = mp + "/" + fsx.Names[gen.R.Intn(3)]
			case 2:
				st.P = mp + "x"
			default:
				if st.K == "Rename" {
					st.P2 = mp + "/" + fsx.Names[gen.R.Intn(3)]
				}
			}
		}
		hist = append(hist, st)
		wit := map[string]any{"set": cs.Set, "history": fsx.HistoryString(hist)}
		p1, rem1 := c06route(w.points, st.P)
		res.Count("ops_mirrored", 1)
		if p1 != "." {
			routedNonRoot++
		}
		res.Seen("route_situations", fmt.Sprintf("%s|depth%d|%v", st.K, strings.Count(p1, "/")+1, p1 == "."))
		sig := func(what string) string {
			rel := "root"
			if p1 != "." {
				rel = "mounted"
				if rem1 == "." {
					rel = "mountpoint"
				}
			}
			return fmt.Sprintf("C06|%s|%s|%s", st.K, rel, what)
		}
		var ra fsx.Result
		viaView := ""
		if gen.R.Intn(4) == 0 {
			// the same call through a Sub view of a directory on the way to the path (also exactly at, above and below
			// mount points): routing must not depend on where the caller's view of the mount FS starts
			els := strings.Split(st.P, "/")
			base := strings.Join(els[:gen.R.Intn(len(els)+1)], "/")
			rel := func(p string) (string, bool) {
				switch {
				case base == "" || base == ".":
					return p, true
				case p == base:
					return ".", true
				case strings.HasPrefix(p, base+"/"):
					return p[len(base)+1:], true
				}
				return "", false
			}
			if base != "" && st.P != "." {
				if info, err := hackpadfs.Stat(w.mfs, base); err == nil && info.IsDir() {
					if view, err := hackpadfs.Sub(w.mfs, base); err == nil {
						stv := st
						var ok1, ok2 = false, true
						stv.P, ok1 = rel(st.P)
						if st.P2 != "" {
							stv.P2, ok2 = rel(st.P2)
						}
						if ok1 && ok2 {
							viaView = base
							ra = fsx.Exec(view, stv, &hsA, nil)
							res.Count("ops_through_sub_views", 1)
						}
					}
				}
			}
		}
		if viaView == "" {
			ra = fsx.Exec(w.mfs, st, &hsA, nil)
		} else {
			wit["through_sub_view_of"] = viaView
		}
		if ra.Panic != "" {
			res.Violate(sig("panic"), fmt.Sprintf("%s through the mount FS panicked: %s", st, ra.Panic), wit)
			return
		}
		if st.K == "Rename" {
			p2, rem2 := c06route(w.points, st.P2)
			if p2 != p1 {
				crossRenames++
				res.Count("cross_mount_renames", 1)
				if !c06crossRename(w, st, p1, rem1, p2, rem2, ra, res, wit) {
					return
				}
				continue
			}
			st2 := st
			st2.P, st2.P2 = rem1, rem2
			rb := fsx.Exec(w.b[p1], st2, c06handles(hsB, p1), nil)
			if !c06agree(st, ra, rb, sig, res, wit) {
				return
			}
		} else {
			st2 := st
			st2.P = rem1
			rb := fsx.Exec(w.b[p1], st2, c06handles(hsB, p1), nil)
			if !c06agree(st, ra, rb, sig, res, wit) {
				return
			}
		}
		if k, d := w.compare(); k != "" {
			what := "wrong-target-state"
			if k != p1 {
				what = "other-fs-changed"
			}
			res.Violate(sig(what), fmt.Sprintf("after %s (model routes it to %q at %q) the file system mounted at %q differs from its stand-alone twin: %s", st, p1, rem1, k, d), wit)
			return
		}
	}
	res.Nontrivial = routedNonRoot > 0 && crossRenames > 0
	res.Count("routed_to_mounts", routedNonRoot)
}

func c06handles(m map[string]*fsx.Handles, k string) *fsx.Handles {
	if m[k] == nil {
		m[k] = &fsx.Handles{}
	}
	return m[k]
}

func c06agree(st fsx.Step, ra, rb fsx.Result, sig func(string) string, res *core.CaseResult, wit any) bool {
	if ra.Err != rb.Err {
		res.Violate(sig("result:got="+ra.Err+",want="+rb.Err), fmt.Sprintf("%s through the mount FS returned %s; applied directly to the selected file system it returns %s", st, ra, rb), wit)
		return false
	}
	if strings.HasPrefix(rb.Data, "root ") || strings.HasPrefix(ra.Data, "root ") {
		// Stat of a mount point is Stat of the mounted root: only the kind is comparable (the name is '.')
		return true
	}
	if ra.OK() && (ra.Data != rb.Data || ra.N != rb.N) {
		res.Violate(sig("result:data"), fmt.Sprintf("%s through the mount FS returned %q; directly: %q", st, ra.Data, rb.Data), wit)
		return false
	}
	return true
}

// c06crossRename checks a rename whose two names live in different file systems.
func c06crossRename(w *c06world, st fsx.Step, p1, rem1, p2, rem2 string, ra fsx.Result, res *core.CaseResult, wit any) bool {
	srcInfo, serr := hackpadfs.Stat(w.b[p1], rem1)
	kind := "missing"
	if serr == nil {
		kind = "file"
		if srcInfo.IsDir() {
			kind = "dir"
		}
	}
	dstSit := fsx.PathSit(w.b[p2], rem2)
	sig := func(what string) string {
		return fmt.Sprintf("C06|Rename|cross-mount,src=%s,dst=%s|%s", kind, dstSit, what)
	}
	if !ra.OK() {
		// must have left everything unchanged: A twins still equal the (untouched) B twins
		if k, d := w.compare(); k != "" {
			res.Violate(sig("failed-but-changed"), fmt.Sprintf("%s failed (%s) but the file system mounted at %q changed: %s", st, ra, k, d), wit)
			return false
		}
		if kind == "file" && (dstSit == "missing" || dstSit == "file") {
			res.Count("cross_mount_renames_refused_although_possible", 1)
		}
		return true
	}
	if kind != "file" {
		res.Violate(sig("got=ok,want=fail"), fmt.Sprintf("%s succeeded although the source is %s", st, kind), wit)
		return false
	}
	// model: the file ends up only at the destination with the same bytes and mode
	data, _ := hackpadfs.ReadFile(w.b[p1], rem1)
	if err := hackpadfs.Remove(w.b[p2], rem2); err != nil && dstSit == "file" {
		res.Inconclusive = "model could not replace destination: " + err.Error()
		return false
	}
	if err := hackpadfs.WriteFullFile(w.b[p2], rem2, data, srcInfo.Mode().Perm()); err != nil {
		res.Violate(sig("got=ok,want=fail"), fmt.Sprintf("%s succeeded although the destination cannot be created (%v)", st, err), wit)
		return false
	}
	_ = hackpadfs.Chmod(w.b[p2], rem2, srcInfo.Mode())
	_ = hackpadfs.Remove(w.b[p1], rem1)
	if k, d := w.compare(); k != "" {
		what := "wrong-destination"
		if k == p1 {
			what = "source-left-behind"
		} else if k != p2 {
			what = "other-fs-changed"
		}
		res.Violate(sig(what), fmt.Sprintf("after %s the file system mounted at %q is not what 'moved with the same bytes and mode' gives: %s", st, k, d), wit)
		return false
	}
	return true
}

func c06addmount(env *core.Env, cs c06case, idx int, res *core.CaseResult) {
	r := rand.New(rand.NewSource(env.Seed*11_000_003 + int64(idx)))
	sets := c06sets(3)
	set := sets[r.Intn(len(sets))]
	w, err := newC06World(set, r)
	if err != nil {
		res.Inconclusive = err.Error()
		return
	}
	_ = hackpadfs.WriteFullFile(w.mfs, "file", []byte("x"), 0o644)
	cands := append([]string{"file", "missing", "missing/x", "top", "a", "a/b", "ab", "b", "c", "c/a", "a/b/c", "a/hidden-by-mount", "", "/a", "a/", "a/../b", ".", "file/x"}, set...)
	for _, c := range cands {
		isMount := false
		for _, p := range w.points {
			if p == c {
				isMount = true
			}
		}
		want := "ok"
		info, serr := hackpadfs.Stat(w.mfs, c)
		switch {
		case !hackpadfs.ValidPath(c) || c == ".":
			want = "fail"
		case isMount:
			want = "ErrExist"
		case serr != nil || !info.IsDir():
			want = "fail"
		}
		nf, _ := mem.NewFS()
		if hackpadfs.ValidPath(c) {
			// the names below the point are looked at BEFORE it is mounted (whatever is remembered about them is about
			// the directory that is about to be hidden)
			_, _ = hackpadfs.Stat(w.mfs, c+"/probe")
			_, _ = hackpadfs.ReadDir(w.mfs, c)
			_, _ = hackpadfs.Stat(w.mfs, c+"/sub/deeper")
		}
		var aerr error
		if p := core.Recover(func() { aerr = w.mfs.AddMount(c, nf) }); p != "" {
			res.Violate("C06|AddMount|"+want+"|panic", fmt.Sprintf("AddMount(%q) panicked: %s", c, p), nil)
			return
		}
		res.Count("addmount_calls", 1)
		got := "ok"
		if aerr != nil {
			got = "fail"
			if want == "ErrExist" && fsx.Class(aerr) == "ErrExist" {
				got = "ErrExist"
			}
		}
		if got != want {
			res.Violate(fmt.Sprintf("C06|AddMount|got=%s,want=%s", got, want), fmt.Sprintf("AddMount(%q) with mounts %v returned %v; model: %s", c, w.points, aerr, want), map[string]any{"set": set, "path": c})
			return
		}
		if aerr == nil {
			w.points = append(w.points, c)
			// the new mount must now be selected
			if err := hackpadfs.WriteFullFile(w.mfs, c+"/probe", []byte("p"), 0o644); err != nil {
				res.Violate("C06|AddMount|new-mount-not-routed", fmt.Sprintf("after AddMount(%q) writing below it failed: %v", c, err), nil)
				return
			}
			if _, err := hackpadfs.Stat(nf, "probe"); err != nil {
				res.Violate("C06|AddMount|new-mount-not-routed", fmt.Sprintf("after AddMount(%q) a file written below it did not land in the mounted file system", c), nil)
				return
			}
			if err := hackpadfs.MkdirAll(w.mfs, c+"/sub/deeper", 0o755); err != nil {
				res.Violate("C06|AddMount|new-mount-not-routed", fmt.Sprintf("after AddMount(%q) MkdirAll below it failed: %v", c, err), nil)
				return
			}
			if _, err := hackpadfs.Stat(nf, "sub/deeper"); err != nil {
				res.Violate("C06|AddMount|new-mount-not-routed", fmt.Sprintf("after AddMount(%q) directories made below it (at names that had been looked up before the mount) did not land in the mounted file system", c), nil)
				return
			}
		}
	}
	res.Nontrivial = true
}

// pausingFS delays Open until 'want' callers are inside it (or the gate is opened), widening the window
// between AddMount's existence check and its table update.
type pausingFS struct {
	hackpadfs.FS
	inside  int32
	want    int32
	release chan struct{}
	once    sync.Once
}

func (p *pausingFS) Open(name string) (hackpadfs.File, error) {
	if atomic.AddInt32(&p.inside, 1) >= p.want {
		p.once.Do(func() { close(p.release) })
	}
	<-p.release
	return p.FS.Open(name)
}

// holdFS holds Open(name) until the harness lets go, and says when a caller is inside.
type holdFS struct {
	hackpadfs.FS
	name    string
	entered chan struct{}
	release chan struct{}
	once    sync.Once
}

func (h *holdFS) Open(name string) (hackpadfs.File, error) {
	if name == h.name {
		h.once.Do(func() { close(h.entered) })
		<-h.release
	}
	return h.FS.Open(name)
}

// c06nestedAddMount: AddMount("p/q", X) is held inside its look at the directory p/q of the root file system while
// AddMount("p", Y) is issued, Y having no directory q. If the second call returns and the mount table is seen holding p
// but not p/q, the first call takes effect after that moment: at a directory that no longer exists (p now shows Y), so it
// must fail. (A library that serialises the two calls never lets the second one return in between: nothing is observed.)
func c06nestedAddMount(cs c06case, res *core.CaseResult) {
	root, _ := mem.NewFS()
	_ = hackpadfs.MkdirAll(root, "p/q", 0o755)
	hf := &holdFS{FS: root, name: "p/q", entered: make(chan struct{}), release: make(chan struct{})}
	m, _ := mount.NewFS(hf)
	x, _ := mem.NewFS()
	y, _ := mem.NewFS()
	_ = hackpadfs.WriteFullFile(y, "only-in-y", []byte("y"), 0o644)
	var err1, err2 error
	done1, done2 := make(chan struct{}), make(chan struct{})
	go func() { defer close(done1); err1 = m.AddMount("p/q", x) }()
	select {
	case <-hf.entered:
	case <-done1:
		return // the directory check does not go through Open("p/q"): nothing to hold
	case <-time.After(5 * time.Second):
		close(hf.release)
		return
	}
	go func() { defer close(done2); err2 = m.AddMount("p", y) }()
	observed := false
	select {
	case <-done2:
		if err2 == nil {
			hasP, hasPQ := false, false
			for _, p := range m.MountPoints() {
				hasP = hasP || p.Path == "p"
				hasPQ = hasPQ || p.Path == "p/q"
			}
			observed = hasP && !hasPQ
		}
	case <-time.After(150 * time.Millisecond): // (only widens the window; the verdict below does not depend on it)
	}
	close(hf.release)
	if hung, confirmed := withWatchdog(func() { <-done1; <-done2 }); hung {
		if confirmed {
			res.Violate("C06|AddMount|concurrent|hang", "AddMount of a point and of a point below it did not return; goroutine dump shows them parked on a lock", cs)
		} else {
			res.Inconclusive = "nested AddMount calls did not finish"
		}
		return
	}
	res.Count("nested_addmount_pairs", 1)
	if observed {
		res.Count("nested_addmount_pairs_with_the_outer_seen_first", 1)
		if err1 == nil {
			res.Violate("C06|AddMount|concurrent|nested-point-took-effect-at-a-missing-directory", "AddMount(\"p\", Y) returned and the mount table showed p without p/q; AddMount(\"p/q\", X), which had started earlier, then succeeded although p/q does not exist in Y (no order of the two calls explains what was seen)", cs)
		}
	}
}

func c06concurrent(env *core.Env, cs c06case, idx int, res *core.CaseResult) {
	if cs.Rep%10 == 7 {
		c06nestedAddMount(cs, res)
		res.Nontrivial = true
		return
	}
	r := rand.New(rand.NewSource(env.Seed*12_000_017 + int64(idx)))
	k := 2 + r.Intn(7)
	root, _ := mem.NewFS()
	_ = hackpadfs.MkdirAll(root, "p/q", 0o755)
	_ = hackpadfs.Mkdir(root, "other", 0o755)
	// AddMount serialises on a mutex before calling Open, so only one caller is ever inside Open: release on the first
	pf := &pausingFS{FS: root, want: 1, release: make(chan struct{})}
	m, _ := mount.NewFS(pf)
	point := []string{"p", "p/q"}[r.Intn(2)]
	var wg sync.WaitGroup
	errs := make([]error, k)
	start := make(chan struct{})
	for i := 0; i < k; i++ {
		wg.Add(1)
		go func(i int) {
			defer wg.Done()
			f, _ := mem.NewFS()
			// every caller brings its own file system, recognisable by a file only it holds
			_ = hackpadfs.WriteFullFile(f, fmt.Sprintf("brought-by-%d", i), []byte("x"), 0o644)
			<-start
			target := point
			if i == k-1 && k > 3 {
				target = "other" // a distinct point mounted concurrently
			}
			errs[i] = m.AddMount(target, f)
		}(i)
	}
	close(start)
	hung, confirmed := withWatchdog(wg.Wait)
	if hung {
		if confirmed {
			res.Violate("C06|AddMount|concurrent|hang", "concurrent AddMount calls did not return; goroutine dump shows them parked on a lock", cs)
		} else {
			res.Inconclusive = "concurrent AddMount did not finish"
		}
		return
	}
	okSame, existSame := 0, 0
	for i, e := range errs {
		if i == k-1 && k > 3 {
			if e != nil {
				res.Violate("C06|AddMount|concurrent|distinct-point-failed", fmt.Sprintf("mounting a distinct point concurrently failed: %v", e), cs)
			}
			continue
		}
		switch {
		case e == nil:
			okSame++
		case fsx.Class(e) == "ErrExist":
			existSame++
		default:
			res.Violate("C06|AddMount|concurrent|other-error", fmt.Sprintf("concurrent AddMount(%q) failed with %v", point, e), cs)
		}
	}
	if okSame != 1 {
		res.Violate(fmt.Sprintf("C06|AddMount|concurrent|winners=%d", min(okSame, 2)), fmt.Sprintf("%d goroutines mounted %q concurrently: %d succeeded, %d got ErrExist", k, point, okSame, existSame), cs)
	}
	mounted := 0
	for _, p := range m.MountPoints() {
		if p.Path == point {
			mounted++
		}
	}
	if mounted != 1 {
		res.Violate("C06|AddMount|concurrent|table", fmt.Sprintf("mount table lists %q %d times", point, mounted), cs)
	}
	// the point routes to the file system of the caller that was told it had succeeded, not to a loser's
	if okSame == 1 {
		for i, e := range errs {
			if i == k-1 && k > 3 {
				continue
			}
			_, serr := hackpadfs.Stat(m, fmt.Sprintf("%s/brought-by-%d", point, i))
			if (e == nil) != (serr == nil) {
				who := "the winner's"
				if e != nil {
					who = "a loser's"
				}
				res.Violate("C06|AddMount|concurrent|routes-to-wrong-fs", fmt.Sprintf("after %d concurrent AddMount(%q) calls, looking below the point finds %s file system: caller %d got %v from AddMount, Stat of its marker file says %v", k, point, who, i, e, serr), cs)
				break
			}
		}
	}
	res.Nontrivial = true
	res.Count("concurrent_addmount_groups", 1)
	res.Count("concurrent_addmount_calls", k)
	if idx%97 == 0 {
		res.Sample = map[string]any{"concurrent_addmount": point, "goroutines": k, "winners": okSame, "err_exist": existSame}
	}
}

var _ = os.O_RDONLY
