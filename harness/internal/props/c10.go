package props

import (
	"fmt"
	"io"
	"math"
	"math/rand"
	"os"
	"runtime"
	"sort"
	"strings"
	"sync"

	"hpverif/internal/core"
	"hpverif/internal/fsx"

	"github.com/hack-pad/hackpadfs"
	"github.com/hack-pad/hackpadfs/cache"
	"github.com/hack-pad/hackpadfs/mem"
	hpos "github.com/hack-pad/hackpadfs/os"
)

// C10: the read-only cache is transparent.

// countingSource exposes only Open and counts what the cache asks of the source, per name.
type countingSource struct {
	inner  hackpadfs.FS
	noSeek bool
	yield  bool
	mu     sync.Mutex
	opens  map[string]int
	reads  map[string]int
	stats  map[string]int
}

func newCountingSource(inner hackpadfs.FS, noSeek bool) *countingSource {
	return &countingSource{inner: inner, noSeek: noSeek, opens: map[string]int{}, reads: map[string]int{}, stats: map[string]int{}}
}

func (c *countingSource) Open(name string) (hackpadfs.File, error) {
	c.mu.Lock()
	c.opens[name]++
	c.mu.Unlock()
	f, err := c.inner.Open(name)
	if err != nil {
		return nil, err
	}
	cf := &countingFile{f: f, src: c, name: name}
	if c.noSeek {
		return noSeekFile{cf}, nil
	}
	return cf, nil
}

func (c *countingSource) counts(name string) (opens, reads int) {
	c.mu.Lock()
	defer c.mu.Unlock()
	return c.opens[name], c.reads[name]
}

type countingFile struct {
	f    hackpadfs.File
	src  *countingSource
	name string
}

func (c *countingFile) Read(p []byte) (int, error) {
	c.src.mu.Lock()
	c.src.reads[c.name]++
	yield := c.src.yield
	c.src.mu.Unlock()
	if yield {
		runtime.Gosched() // concurrent first opens: let the other copies run between two chunks
	}
	return c.f.Read(p)
}
func (c *countingFile) Stat() (hackpadfs.FileInfo, error) {
	c.src.mu.Lock()
	c.src.stats[c.name]++
	c.src.mu.Unlock()
	return c.f.Stat()
}
func (c *countingFile) Close() error { return c.f.Close() }
func (c *countingFile) ReadDir(n int) ([]hackpadfs.DirEntry, error) {
	return hackpadfs.ReadDirFile(c.f, n)
}
func (c *countingFile) Seek(off int64, whence int) (int64, error) {
	return hackpadfs.SeekFile(c.f, off, whence)
}

// noSeekFile hides Seek, so that the cache has to re-open a freshly copied file from its store.
type noSeekFile struct{ c *countingFile }

func (n noSeekFile) Read(p []byte) (int, error)                  { return n.c.Read(p) }
func (n noSeekFile) Stat() (hackpadfs.FileInfo, error)           { return n.c.Stat() }
func (n noSeekFile) Close() error                                { return n.c.Close() }
func (n noSeekFile) ReadDir(k int) ([]hackpadfs.DirEntry, error) { return n.c.ReadDir(k) }

var c10sizes = []int{0, 1, 511, 512, 513, 1024, 5000, 70000}
var c10policies = []string{"always", "never", "by-name", "by-size", "once"}

type c10case struct {
	Policy   string `json:"policy"`
	Store    string `json:"store"` // mem | minimal
	NoSeek   bool   `json:"noseek"`
	TreeSeed int64  `json:"tree_seed"`
}

func c10cases(env *core.Env) []c10case {
	var cs []c10case
	n := env.Pick(10000, 60000)
	for i := 0; i < n; i++ {
		cs = append(cs, c10case{Policy: c10policies[i%5], Store: []string{"mem", "minimal"}[(i/5)%2], NoSeek: (i/10)%3 == 2, TreeSeed: int64(i)})
	}
	return cs
}

func init() {
	core.Register(&core.Prop{
		ID:    "C10",
		Level: "exploration",
		Rule: "twin calls cache vs source: seeded source trees (mem.FS; directories to depth 3; file sizes 0,1,511,512,513,1024,5000,70000 around the 512-byte copy buffer; a setuid/sticky mode on some entries) are wrapped in a call-counting source exposing only Open (optionally with non-seekable files); a cache FS is built for every RetainData policy (always, never, by name, by size, and one whose answer changes: yes at the first question about a name, no ever after) over a full mem.FS store and over a store exposing only Open+OpenFile+Mkdir; a seeded sequence of 40 (80 thorough) Open / FS-Stat / Read(len) / Seek / handle Stat / ReadDir(n) / Close calls on up to 4 live handles (files and directories, repeated and interleaved opens, missing names) is applied to the cache and to the source and every result (class, n, bytes, names, kinds, sizes, mode bits) compared; " +
			"for a retained file, after its first successful open every later open must deliver identical bytes with zero further Open/Read calls on the source for that name. Non-trivial: sequences that re-opened a retained file after its first open; distinct by case parameters",
		Assumptions: []string{"a side part opens files of a source whose Stat understates the size (0, half) three times each: all the bytes every time", "the source is immutable (contract of the cache)", "modification times are outside the comparison", "with a non-seekable source Seek calls are not issued"},
		NumCases:    func(env *core.Env) int { return len(c10cases(env)) },
		Batch:       60,
		Run:         c10run,
		Floor: func(env *core.Env, agg *core.Agg) string {
			if agg.Counters["calls_compared"] < 5000 || agg.Counters["retained_reopens_checked"] < 100 {
				return fmt.Sprint(agg.Counters["calls_compared"], agg.Counters["retained_reopens_checked"])
			}
			return ""
		},
	})
}

type c10tree struct {
	files []string
	dirs  []string
	size  map[string]int
}

func c10buildTree(r *rand.Rand, src hackpadfs.FS) (*c10tree, error) {
	t := &c10tree{size: map[string]int{}, dirs: []string{"."}}
	names := []string{"a", "b", "c", "ab", ".h"}
	for i := 0; i < 2+r.Intn(4); i++ {
		parent := t.dirs[r.Intn(len(t.dirs))]
		if strings.Count(parent, "/") >= 2 {
			continue
		}
		d := names[r.Intn(len(names))]
		if parent != "." {
			d = parent + "/" + d
		}
		if err := hackpadfs.Mkdir(src, d, 0o755); err == nil {
			t.dirs = append(t.dirs, d)
		}
	}
	for i := 0; i < 3+r.Intn(6); i++ {
		parent := t.dirs[r.Intn(len(t.dirs))]
		f := fmt.Sprintf("f%d", i)
		if parent != "." {
			f = parent + "/" + f
		}
		size := c10sizes[r.Intn(len(c10sizes))]
		data := make([]byte, size)
		for j := range data {
			data[j] = byte('A' + (j*7+i)%50)
		}
		perm := []hackpadfs.FileMode{0o644, 0o600, 0o755, 0o400}[r.Intn(4)]
		if err := hackpadfs.WriteFullFile(src, f, data, perm); err != nil {
			return nil, err
		}
		if r.Intn(4) == 0 {
			special := []hackpadfs.FileMode{hackpadfs.ModeSetuid, hackpadfs.ModeSetgid, hackpadfs.ModeSticky, hackpadfs.ModeSetuid | hackpadfs.ModeSticky, hackpadfs.ModeSetgid | hackpadfs.ModeSticky}[r.Intn(5)]
			_ = hackpadfs.Chmod(src, f, perm|special)
		}
		t.files = append(t.files, f)
		t.size[f] = size
	}
	if r.Intn(4) == 0 && len(t.dirs) > 1 {
		_ = hackpadfs.Chmod(src, t.dirs[1], 0o755|hackpadfs.ModeSticky)
	}
	return t, nil
}

func c10retain(policy string) func(string, hackpadfs.FileInfo) bool {
	switch policy {
	case "never":
		return func(string, hackpadfs.FileInfo) bool { return false }
	case "by-name":
		// (the policy looks at the whole path: the same base name is retained below a directory and not at the top, or vice versa)
		return func(name string, _ hackpadfs.FileInfo) bool {
			even := strings.HasSuffix(name, "0") || strings.HasSuffix(name, "2") || strings.HasSuffix(name, "4") || strings.HasSuffix(name, "6") || strings.HasSuffix(name, "8")
			return strings.Contains(name, "/") == even
		}
	case "by-size":
		return func(_ string, info hackpadfs.FileInfo) bool { return info.Size() <= 512 }
	case "once":
		// a policy whose answer changes over time (a budget that is used up): yes the first time it is asked about a
		// name, no ever after. The cache asks when it is about to copy a file, so every file is retained by its first
		// Open - and a retained file is served from the cache store, whatever the policy would say by now.
		var mu sync.Mutex
		asked := map[string]bool{}
		return func(name string, _ hackpadfs.FileInfo) bool {
			mu.Lock()
			defer mu.Unlock()
			first := !asked[name]
			asked[name] = true
			return first
		}
	}
	return nil // default: always
}

func c10run(env *core.Env, idx int) core.CaseResult {
	cs := c10cases(env)[idx]
	var res core.CaseResult
	res.Key = core.Hash(cs)
	r := rand.New(rand.NewSource(env.Seed*16_000_057 + cs.TreeSeed))
	src, _ := mem.NewFS()
	tree, err := c10buildTree(r, src)
	if err != nil {
		res.Inconclusive = err.Error()
		return res
	}
	counted := newCountingSource(src, cs.NoSeek)
	store, _ := mem.NewFS()
	var c *cache.ReadOnlyFS
	opts := cache.ReadOnlyOptions{RetainData: c10retain(cs.Policy)}
	if cs.Store == "minimal" {
		c, err = cache.NewReadOnlyFS(counted, &minimalStore{store}, opts)
	} else {
		c, err = cache.NewReadOnlyFS(counted, store, opts)
	}
	if err != nil {
		res.Violate("C10|setup", "NewReadOnlyFS failed: "+err.Error(), cs)
		return res
	}
	retained := func(name string) bool {
		f := c10retain(cs.Policy)
		if f == nil {
			return true
		}
		info, err := hackpadfs.Stat(src, name)
		return err == nil && f(name, info)
	}
	var hc, hs fsx.Handles // cache side, source side
	defer hc.CloseAll()
	defer hs.CloseAll()
	slotName := map[int]string{}
	slotDir := map[int]bool{}
	listed := map[int][2]map[string]bool{}
	complete := map[int]bool{}       // the handle's listing was read to the end
	firstOpen := map[string][2]int{} // name -> source (opens, reads) right after the first successful open through the cache
	var script []fsx.Step
	names := append(append([]string(nil), tree.files...), tree.dirs...)
	names = append(names, "missing", "a/missing", tree.files[0]+"/below-file")
	sigKind := cs.Policy + "," + cs.Store
	if cs.NoSeek {
		sigKind += ",noseek"
	}
	nsteps := env.Pick(40, 80)
	for i := 0; i < nsteps; i++ {
		slot := r.Intn(4)
		var st fsx.Step
		switch k := r.Intn(100); {
		case k < 28 || slotName[slot] == "":
			name := names[r.Intn(len(names))]
			if r.Intn(3) == 0 && len(firstOpen) > 0 { // re-open something opened before
				for n := range firstOpen {
					name = n
					break
				}
			}
			st = fsx.Step{K: "Open", P: name, Slot: slot}
		case k < 55:
			st = fsx.Step{K: "H.Read", Slot: slot, N: []int{0, 1, 100, 511, 512, 513, 4096, 100000}[r.Intn(8)]}
		case k < 65:
			if cs.NoSeek {
				continue
			}
			st = fsx.Step{K: "H.Seek", Slot: slot, Off: int64(r.Intn(600)) - 50, Whence: r.Intn(3)}
		case k < 72:
			st = fsx.Step{K: "H.Stat", Slot: slot}
		case k < 82:
			st = fsx.Step{K: "Stat", P: names[r.Intn(len(names))]}
		case k < 92:
			st = fsx.Step{K: "H.ReadDir", Slot: slot, N: []int{-1, 0, 1, 2, 100, 1, math.MaxInt, math.MaxInt - 1, math.MinInt}[r.Intn(9)]}
		default:
			st = fsx.Step{K: "H.Close", Slot: slot}
		}
		if (st.K == "H.Read" || st.K == "H.Seek") && slotDir[st.Slot] {
			continue // byte I/O on directory handles is C02's concern (and the in-memory source itself answers it unlike os)
		}
		script = append(script, st)
		rc := fsx.Exec(c, st, &hc, nil)
		rs := fsx.Exec(src, st, &hs, nil)
		if rc.Skip && rs.Skip {
			continue
		}
		res.Count("calls_compared", 1)
		res.Seen("call_kinds", st.K+"|"+sigKind)
		wit := map[string]any{"case": cs, "script": fsx.HistoryString(script)}
		sig := func(what string) string { return fmt.Sprintf("C10|%s|%s|%s", sigKind, st.K, what) }
		if rc.Panic != "" {
			res.Violate(sig("panic"), fmt.Sprintf("%s on the cache panicked: %s", st, rc.Panic), wit)
			break
		}
		switch st.K {
		case "Open":
			if old := slotName[st.Slot]; old != "" {
				delete(listed, st.Slot)
			}
			slotName[st.Slot] = ""
			if rc.Err != rs.Err {
				res.Violate(sig("result:got="+rc.Err+",want="+rs.Err), fmt.Sprintf("Open(%q) on the cache returned %s, on the source %s", st.P, rc, rs), wit)
				break
			}
			if rc.OK() {
				slotName[st.Slot] = st.P
				info, _ := hackpadfs.Stat(src, st.P)
				slotDir[st.Slot] = info != nil && info.IsDir()
				listed[st.Slot] = [2]map[string]bool{{}, {}}
				complete[st.Slot] = false
				if !slotDir[st.Slot] && retained(st.P) {
					o, rd := counted.counts(st.P)
					if prev, ok := firstOpen[st.P]; !ok {
						firstOpen[st.P] = [2]int{o, rd}
					} else {
						res.Count("retained_reopens_checked", 1)
						res.Nontrivial = true
						_ = rd // reads may still come from the first handle, which is the source's own file
						if o != prev[0] {
							res.Violate(fmt.Sprintf("C10|%s|reopen|source-opened-again", sigKind), fmt.Sprintf("re-opening the retained file %q opened the source again: opens %d->%d", st.P, prev[0], o), wit)
						}
					}
				}
			}
		case "H.ReadDir":
			if rc.Err != rs.Err && !(rc.Err == "EOF" && rs.Err == "EOF") {
				res.Violate(sig("result:got="+rc.Err+",want="+rs.Err), fmt.Sprintf("%s on %q: cache %s, source %s", st, slotName[st.Slot], rc, rs), wit)
				break
			}
			if rc.N != rs.N {
				res.Violate(sig("page-size"), fmt.Sprintf("%s on %q returned %d entries from the cache, %d from the source", st, slotName[st.Slot], rc.N, rs.N), wit)
				break
			}
			if st.N <= 0 || rc.Err == "EOF" {
				complete[st.Slot] = true
			}
			l := listed[st.Slot]
			if l[0] != nil {
				for _, e := range strings.Split(rc.Data, ",") {
					if e != "" {
						l[0][e] = true
					}
				}
				for _, e := range strings.Split(rs.Data, ",") {
					if e != "" {
						l[1][e] = true
					}
				}
			}
		case "H.Close":
			if l := listed[st.Slot]; l[0] != nil && rc.OK() && complete[st.Slot] {
				a, b := keysOf(l[0]), keysOf(l[1])
				if a != b {
					res.Violate(sig("listing"), fmt.Sprintf("directory %q listed %s through the cache, %s on the source", slotName[st.Slot], a, b), wit)
				}
			}
			if rc.Err != rs.Err {
				res.Violate(sig("result:got="+rc.Err+",want="+rs.Err), fmt.Sprintf("Close: cache %s, source %s", rc, rs), wit)
			}
		default:
			eofish := func(e string) bool { return e == "ok" || e == "EOF" }
			if rc.Err != rs.Err && !(st.K == "H.Read" && eofish(rc.Err) && eofish(rs.Err) && rc.N == rs.N && rc.N > 0) {
				res.Violate(sig("result:got="+rc.Err+",want="+rs.Err), fmt.Sprintf("%s (%q): cache %s, source %s", st, slotName[st.Slot], rc, rs), wit)
				break
			}
			if rc.N != rs.N || rc.Data != rs.Data {
				what := "data"
				if st.K == "Stat" || st.K == "H.Stat" {
					what = "info"
					strip := func(d string) string {
						f := strings.Fields(d)
						if len(f) >= 3 && len(f[2]) == 10 {
							f[2] = "-" + f[2][1:]
						}
						return strings.Join(f, " ")
					}
					if strip(rc.Data) == strip(rs.Data) {
						// only setuid/setgid/sticky differ
						res.Violate("C10|"+st.K+"|info:special-mode-bits", fmt.Sprintf("%s (%q, %s): cache says %q, source says %q", st, slotName[st.Slot], sigKind, rc.Data, rs.Data), wit)
						break
					}
				}
				res.Violate(sig(what), fmt.Sprintf("%s (%q): cache returned n=%d %q, source n=%d %q", st, slotName[st.Slot], rc.N, clip60(rc.Data), rs.N, clip60(rs.Data)), wit)
			}
		}
		if len(res.Violations) > 0 {
			break
		}
	}
	// finally: every retained file opened so far is read completely once more, byte for byte, with no source traffic
	hc.CloseAll()
	for name := range firstOpen {
		want, _ := hackpadfs.ReadFile(src, name)
		var prev [2]int
		prev[0], prev[1] = counted.counts(name) // all earlier handles are closed: any source traffic from here on is the re-open's
		f, err := c.Open(name)
		if err != nil {
			res.Violate(fmt.Sprintf("C10|%s|reopen|open-failed", sigKind), fmt.Sprintf("re-opening %q failed: %v", name, err), cs)
			continue
		}
		got, rerr := io.ReadAll(f)
		_ = f.Close()
		res.Count("retained_reopens_checked", 1)
		res.Nontrivial = true
		if rerr != nil || string(got) != string(want) {
			res.Violate(fmt.Sprintf("C10|%s|reopen|bytes", sigKind), fmt.Sprintf("re-opened %q delivered %d bytes (err %v), the source holds %d", name, len(got), rerr, len(want)), cs)
		}
		if o, rd := counted.counts(name); o != prev[0] || rd != prev[1] {
			res.Violate(fmt.Sprintf("C10|%s|reopen|source-read-again", sigKind), fmt.Sprintf("re-reading the retained file %q touched the source again: opens %d->%d, reads %d->%d", name, prev[0], o, prev[1], rd), cs)
		}
	}
	if len(res.Violations) == 0 {
		c10concurrent(env, cs, src, tree, &res)
	}
	if len(res.Violations) == 0 && idx%10 == 3 {
		c10oslinks(env, cs, &res)
	}
	if len(res.Violations) == 0 && idx%10 == 7 {
		c10understated(cs, &res)
	}
	res.Count("policy:"+cs.Policy, 1)
	for _, f := range tree.files {
		res.Count(fmt.Sprintf("files_of_size_%d", tree.size[f]), 1)
	}
	if idx%41 == 0 {
		res.Sample = map[string]any{"case": cs, "files": tree.size, "script": fsx.HistoryString(script)}
	}
	return res
}

// understatedSource: the files' Stat reports fewer bytes than reading them delivers (0, or half) - what files of procfs
// and sysfs, growing logs and generated streams do. What a file holds is what reading it to the end delivers.
type understatedSource struct {
	inner hackpadfs.FS
	zero  bool
}

type understatedFile struct {
	hackpadfs.File
	zero bool
}

type understatedInfo struct {
	hackpadfs.FileInfo
	size int64
}

func (i understatedInfo) Size() int64 { return i.size }

func (s understatedSource) Open(name string) (hackpadfs.File, error) {
	f, err := s.inner.Open(name)
	if err != nil {
		return nil, err
	}
	return &understatedFile{File: f, zero: s.zero}, nil
}

func (f *understatedFile) Stat() (hackpadfs.FileInfo, error) {
	info, err := f.File.Stat()
	if err != nil || info.IsDir() {
		return info, err
	}
	if f.zero {
		return understatedInfo{info, 0}, nil
	}
	return understatedInfo{info, info.Size() / 2}, nil
}

func (f *understatedFile) Seek(off int64, whence int) (int64, error) {
	return hackpadfs.SeekFile(f.File, off, whence)
}

func (f *understatedFile) ReadDir(n int) ([]hackpadfs.DirEntry, error) {
	return hackpadfs.ReadDirFile(f.File, n)
}

// c10understated: every Open of a file through the cache (the first, which copies, and two later ones) delivers all the
// bytes reading the source file delivers, also when the source's Stat understates the size.
func c10understated(cs c10case, res *core.CaseResult) {
	src, _ := mem.NewFS()
	sizes := []int{1, 512, 513, 5000}
	for _, n := range sizes {
		if err := hackpadfs.WriteFullFile(src, fmt.Sprintf("f%d", n), c11data(n), 0o644); err != nil {
			res.Inconclusive = err.Error()
			return
		}
	}
	for _, zero := range []bool{true, false} {
		store, _ := mem.NewFS()
		var c *cache.ReadOnlyFS
		var err error
		opts := cache.ReadOnlyOptions{RetainData: c10retain(cs.Policy)}
		if cs.Store == "minimal" {
			c, err = cache.NewReadOnlyFS(understatedSource{src, zero}, &minimalStore{store}, opts)
		} else {
			c, err = cache.NewReadOnlyFS(understatedSource{src, zero}, store, opts)
		}
		if err != nil {
			res.Inconclusive = err.Error()
			return
		}
		for _, n := range sizes {
			name := fmt.Sprintf("f%d", n)
			want := c11data(n)
			for open := 1; open <= 3; open++ {
				var got []byte
				var rerr error
				if p := core.Recover(func() { got, rerr = readAll(c, name) }); p != "" {
					res.Violate(fmt.Sprintf("C10|%s,%s|understated-size|panic", cs.Policy, cs.Store), fmt.Sprintf("Open #%d of %q (a source file whose Stat understates its size) panicked: %s", open, name, p), cs)
					break
				}
				res.Count("understated_size_opens", 1)
				if rerr != nil || string(got) != string(want) {
					says := "0"
					if !zero {
						says = fmt.Sprint(n / 2)
					}
					res.Violate(fmt.Sprintf("C10|%s,%s|understated-size|bytes", cs.Policy, cs.Store), fmt.Sprintf("the source file %q delivers %d bytes when read (its Stat says %s); Open #%d through the cache delivered %d bytes (err %v)", name, n, says, open, len(got), rerr), cs)
					break
				}
			}
		}
	}
}

// c10concurrent: several files are opened for the first time at once through a fresh cache (the source yields between
// chunks, so the copies interleave); each goroutine's bytes, and the bytes of a later re-open (served from the store),
// are the source's.
func c10concurrent(env *core.Env, cs c10case, src hackpadfs.FS, tree *c10tree, res *core.CaseResult) {
	counted := newCountingSource(src, cs.NoSeek)
	counted.yield = true
	store, _ := mem.NewFS()
	opts := cache.ReadOnlyOptions{RetainData: c10retain(cs.Policy)}
	var c *cache.ReadOnlyFS
	var err error
	if cs.Store == "minimal" {
		c, err = cache.NewReadOnlyFS(counted, &minimalStore{store}, opts)
	} else {
		c, err = cache.NewReadOnlyFS(counted, store, opts)
	}
	if err != nil {
		return
	}
	files := tree.files
	if len(files) > 6 {
		files = files[:6]
	}
	files = append(append([]string(nil), files...), files[:(len(files)+1)/2]...) // some names are opened by two goroutines at once
	want := map[string]string{}
	for _, f := range files {
		b, _ := hackpadfs.ReadFile(src, f)
		want[f] = string(b)
	}
	sigKind := cs.Policy + "," + cs.Store
	type out struct {
		data string
		err  error
	}
	for round := 0; round < 2; round++ { // 0: concurrent first opens; 1: re-opens afterwards, one at a time
		got := make([]out, len(files))
		var wg sync.WaitGroup
		for i, name := range files {
			i, name := i, name
			work := func() {
				defer wg.Done()
				f, err := c.Open(name)
				if err != nil {
					got[i] = out{err: err}
					return
				}
				b, rerr := io.ReadAll(f)
				_ = f.Close()
				got[i] = out{string(b), rerr}
			}
			wg.Add(1)
			if round == 0 {
				go work()
			} else {
				work()
			}
		}
		wg.Wait()
		for i, name := range files {
			res.Count("concurrent_opens_compared", 1)
			if got[i].err != nil || got[i].data != want[name] {
				when := []string{"concurrent-first-open", "reopen-after-concurrent-first-opens"}[round]
				res.Violate(fmt.Sprintf("C10|%s|%s|bytes", sigKind, when), fmt.Sprintf("%d files opened for the first time at once through the cache; %s of %q delivered %d bytes (err %v) that %s the source's %d bytes", len(files), when, name, len(got[i].data), got[i].err, map[bool]string{true: "differ from", false: "are not"}[len(got[i].data) == len(want[name])], len(want[name])), map[string]any{"case": cs, "files": files})
				return
			}
		}
	}
}

// c10oslinks: the cache directly over an os.FS holding symbolic links: every call through the cache answers what the
// same call on the source answers (Stat follows links on both, Open reads the target, listings name the links).
func c10oslinks(env *core.Env, cs c10case, res *core.CaseResult) {
	d, err := os.MkdirTemp(env.Scratch, "c10os-")
	if err != nil {
		return
	}
	defer os.RemoveAll(d)
	_ = os.Chmod(d, 0o777)
	osfs, err := hpos.NewFS().Sub(d[1:])
	if err != nil {
		return
	}
	_ = hackpadfs.Mkdir(osfs, "dir", 0o755)
	_ = hackpadfs.WriteFullFile(osfs, "dir/target", []byte(strings.Repeat("0123456789", 60)), 0o640)
	_ = hackpadfs.WriteFullFile(osfs, "plain", []byte("plain"), 0o600)
	_ = os.Symlink("dir/target", d+"/link")
	_ = os.Symlink("dir", d+"/dirlink")
	_ = os.Symlink("nowhere", d+"/dangling")
	_ = os.Symlink("../plain", d+"/dir/up")
	store, _ := mem.NewFS()
	opts := cache.ReadOnlyOptions{RetainData: c10retain(cs.Policy)}
	var c *cache.ReadOnlyFS
	if cs.Store == "minimal" {
		c, err = cache.NewReadOnlyFS(osfs, &minimalStore{store}, opts)
	} else {
		c, err = cache.NewReadOnlyFS(osfs, store, opts)
	}
	if err != nil {
		return
	}
	sigKind := cs.Policy + "," + cs.Store + ",os-source"
	var hc, hs fsx.Handles
	defer hc.CloseAll()
	defer hs.CloseAll()
	var script []fsx.Step
	for pass := 0; pass < 2; pass++ {
		for _, name := range []string{"link", "dirlink", "dangling", "dir/up", "plain", "dir", "dirlink/target", "dirlink/up", ".", "missing"} {
			for _, st := range []fsx.Step{{K: "Stat", P: name}, {K: "Open", P: name, Slot: 0}, {K: "H.Stat", Slot: 0}, {K: "H.Read", Slot: 0, N: 700}, {K: "H.ReadDir", Slot: 0, N: -1}, {K: "H.Close", Slot: 0}, {K: "Stat", P: name}} {
				script = append(script, st)
				rc := fsx.Exec(c, st, &hc, nil)
				rs := fsx.Exec(osfs, st, &hs, nil)
				if rc.Skip && rs.Skip {
					continue
				}
				res.Count("os_source_calls_compared", 1)
				if st.K == "H.Read" || st.K == "H.ReadDir" {
					// which of the two fails on the wrong kind of handle, and how, is C02's matter
					if !rc.OK() && !rs.OK() {
						continue
					}
				}
				if rc.Panic != "" {
					res.Violate(fmt.Sprintf("C10|%s|%s|panic", sigKind, st.K), fmt.Sprintf("%s on the cache panicked: %s", st, rc.Panic), fsx.HistoryString(script))
					return
				}
				eofish := func(e string) bool { return e == "ok" || e == "EOF" }
				if st.K == "H.Read" && eofish(rc.Err) && eofish(rs.Err) && rc.N == rs.N && rc.N > 0 && rc.Data == rs.Data {
					continue // io.Reader allows the end to be reported with the last bytes or by the next call
				}
				if rc.Err != rs.Err || rc.N != rs.N || rc.Data != rs.Data {
					res.Violate(fmt.Sprintf("C10|%s|%s|differs", sigKind, st.K), fmt.Sprintf("cache over an os.FS with symbolic links: %s for %q: cache %s %q, source %s %q", st, name, rc, clip60(rc.Data), rs, clip60(rs.Data)), fsx.HistoryString(script))
					return
				}
			}
		}
	}
}

func keysOf(m map[string]bool) string {
	var k []string
	for n := range m {
		k = append(k, n)
	}
	sort.Strings(k)
	return strings.Join(k, ",")
}
