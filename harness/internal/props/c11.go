package props

import (
	"context"
	"errors"
	"fmt"
	"io"
	"math/rand"
	"runtime"
	"strings"
	"sync"
	"sync/atomic"
	"syscall"
	"time"

	"hpverif/internal/core"

	"github.com/hack-pad/hackpadfs"
	"github.com/hack-pad/hackpadfs/cache"
	"github.com/hack-pad/hackpadfs/mem"
)

// C11: a failed or concurrent cache fill never leaves or serves a partial file.

var errFill = errors.New("injected fill failure")

// faultPlan counts the calls of one fill and fails the chosen one.
type faultPlan struct {
	mu     sync.Mutex
	n      int
	failAt int
	fired  string
	log    []string
	outage bool // the source cannot be opened at all at the moment
	// persistent: from call failAt on, every call to the cache store fails (also its Remove/Stat/Rename/Chmod) until the
	// harness ends the outage - a store that is down for a while, not a single hiccup
	persistent bool
	down       bool
	// shortReads: the source delivers at most 200 bytes per Read (legal: fewer than asked, no error);
	// partialRead: the failing source Read delivers some bytes together with its error
	shortReads  bool
	partialRead bool
	// concurrency monitor
	writers    map[string]int
	maxWriters int
	gate       func(name string, chunk int) // called before each source Read during a copy
	// the next read-only Opens of the cache store fail with a transient error
	storeOpenHiccups, hiccupsFired int
	// seekFails: the source's files refuse to seek
	seekFails bool
	// flavour: which error value a failing SOURCE call reports (index into c11flavours; 0 = the harness's own value)
	flavour int
	// wgate, if set, is called before every Write to a file of the cache store
	wgate func(name string)
}

// c11flavours: error values a failing source call reports. What a failed fill must leave behind does not depend on which
// error ended it. (Store-side calls keep the harness's value: ErrExist from Mkdir, ErrNotExist from Remove and
// ErrNotImplemented from Chmod are answers the cache is right to tolerate.)
var c11flavours = []error{
	errFill,
	io.ErrUnexpectedEOF,
	fmt.Errorf("source: %w", hackpadfs.ErrNotImplemented),
	fmt.Errorf("request: %w", context.Canceled),
	fmt.Errorf("gone: %w", hackpadfs.ErrNotExist),
	fmt.Errorf("denied: %w", hackpadfs.ErrPermission),
	fmt.Errorf("conflict: %w", hackpadfs.ErrExist),
	fmt.Errorf("body: %w", io.EOF),
	io.ErrShortWrite,
	io.ErrClosedPipe,
}

func (p *faultPlan) errFor(site string) error {
	if strings.HasPrefix(site, "source.") {
		return c11flavours[p.flavour%len(c11flavours)]
	}
	return errFill
}

func (p *faultPlan) call(site string) error {
	p.mu.Lock()
	defer p.mu.Unlock()
	idx := p.n
	p.n++
	p.log = append(p.log, site)
	if idx == p.failAt {
		p.fired = site
		if p.persistent && strings.HasPrefix(site, "store.") {
			p.down = true
		}
		return p.errFor(site)
	}
	if p.down && strings.HasPrefix(site, "store.") {
		return errFill
	}
	return nil
}

func (p *faultPlan) isDown() bool {
	p.mu.Lock()
	defer p.mu.Unlock()
	return p.down
}

// faultSource: only Open; files fail Read at the planned index.
type faultSource struct {
	inner hackpadfs.FS
	plan  *faultPlan
}

func (s *faultSource) Open(name string) (hackpadfs.File, error) {
	s.plan.mu.Lock()
	outage := s.plan.outage
	s.plan.mu.Unlock()
	if outage {
		return nil, &hackpadfs.PathError{Op: "open", Path: name, Err: errFill}
	}
	if err := s.plan.call("source.Open"); err != nil {
		return nil, &hackpadfs.PathError{Op: "open", Path: name, Err: err}
	}
	f, err := s.inner.Open(name)
	if err != nil {
		return nil, err
	}
	return &faultSrcFile{f: f, plan: s.plan, name: name}, nil
}

type faultSrcFile struct {
	f     hackpadfs.File
	plan  *faultPlan
	name  string
	reads int
}

func (f *faultSrcFile) Read(p []byte) (int, error) {
	if g := f.plan.gate; g != nil {
		g(f.name, f.reads)
	}
	f.reads++
	if f.plan.shortReads && len(p) > 200 {
		p = p[:200]
	}
	if err := f.plan.call("source.Read"); err != nil {
		if f.plan.partialRead && len(p) > 1 {
			n, _ := f.f.Read(p[:len(p)/2])
			return n, err
		}
		return 0, err
	}
	return f.f.Read(p)
}
func (f *faultSrcFile) Stat() (hackpadfs.FileInfo, error) { return f.f.Stat() }
func (f *faultSrcFile) Close() error                      { return f.f.Close() }
func (f *faultSrcFile) Seek(off int64, wh int) (int64, error) {
	if f.plan.seekFails {
		// a source whose files have a Seek method that refuses (a pipe, a stream): an error of its own, not ErrNotImplemented
		return 0, &hackpadfs.PathError{Op: "seek", Path: f.name, Err: syscall.ESPIPE}
	}
	return hackpadfs.SeekFile(f.f, off, wh)
}
func (f *faultSrcFile) ReadDir(n int) ([]hackpadfs.DirEntry, error) {
	return hackpadfs.ReadDirFile(f.f, n)
}

// faultStore: the cache store (Open+OpenFile+Mkdir, optionally everything mem.FS has).
type faultStore struct {
	inner     *mem.FS
	plan      *faultPlan
	writeBack bool
}

func (s *faultStore) Open(name string) (hackpadfs.File, error) {
	s.plan.mu.Lock()
	hiccup := s.plan.storeOpenHiccups > 0
	if hiccup {
		s.plan.storeOpenHiccups--
		s.plan.hiccupsFired++
	}
	s.plan.mu.Unlock()
	if hiccup {
		return nil, &hackpadfs.PathError{Op: "open", Path: name, Err: errFill} // a transient failure, not "does not exist"
	}
	return s.inner.Open(name)
}
func (s *faultStore) Mkdir(name string, perm hackpadfs.FileMode) error {
	return s.inner.Mkdir(name, perm)
}
func (s *faultStore) OpenFile(name string, flag int, perm hackpadfs.FileMode) (hackpadfs.File, error) {
	if flag&(hackpadfs.FlagWriteOnly|hackpadfs.FlagReadWrite) == 0 {
		return s.inner.OpenFile(name, flag, perm)
	}
	if err := s.plan.call("store.OpenFile"); err != nil {
		return nil, &hackpadfs.PathError{Op: "open", Path: name, Err: err}
	}
	f, err := s.inner.OpenFile(name, flag, perm)
	if err != nil {
		return nil, err
	}
	s.plan.mu.Lock()
	if s.plan.writers == nil {
		s.plan.writers = map[string]int{}
	}
	s.plan.writers[name]++
	if s.plan.writers[name] > s.plan.maxWriters {
		s.plan.maxWriters = s.plan.writers[name]
	}
	s.plan.mu.Unlock()
	return &faultStoreFile{f: f, plan: s.plan, name: name, writeBack: s.writeBack}, nil
}

// fullFaultStore additionally exposes what mem.FS has natively (MkdirAll, Remove, Rename, Stat, Chmod ...).
type fullFaultStore struct {
	faultStore
}

func (s *fullFaultStore) MkdirAll(p string, perm hackpadfs.FileMode) error {
	if s.plan.isDown() {
		return &hackpadfs.PathError{Op: "mkdir", Path: p, Err: errFill}
	}
	return s.inner.MkdirAll(p, perm)
}
func (s *fullFaultStore) Remove(name string) error {
	if s.plan.isDown() {
		return &hackpadfs.PathError{Op: "remove", Path: name, Err: errFill}
	}
	return s.inner.Remove(name)
}
func (s *fullFaultStore) Rename(a, b string) error {
	if s.plan.isDown() {
		return &hackpadfs.LinkError{Op: "rename", Old: a, New: b, Err: errFill}
	}
	return s.inner.Rename(a, b)
}
func (s *fullFaultStore) Stat(name string) (hackpadfs.FileInfo, error) {
	if s.plan.isDown() {
		return nil, &hackpadfs.PathError{Op: "stat", Path: name, Err: errFill}
	}
	return s.inner.Stat(name)
}
func (s *fullFaultStore) Chmod(name string, m hackpadfs.FileMode) error {
	if s.plan.isDown() {
		return &hackpadfs.PathError{Op: "chmod", Path: name, Err: errFill}
	}
	return s.inner.Chmod(name, m)
}

type faultStoreFile struct {
	f      hackpadfs.File
	plan   *faultPlan
	name   string
	closed bool
	// write-back mode: writes are buffered and only reach the store when the file is closed;
	// a failing Close flushes only the first half of what was written (as a remote or buffered store may)
	writeBack bool
	pending   [][]byte
}

func (f *faultStoreFile) Read(p []byte) (int, error)        { return f.f.Read(p) }
func (f *faultStoreFile) Stat() (hackpadfs.FileInfo, error) { return f.f.Stat() }
func (f *faultStoreFile) Chmod(m hackpadfs.FileMode) error {
	if err := f.plan.call("store.file.Chmod"); err != nil {
		return &hackpadfs.PathError{Op: "chmod", Path: f.name, Err: err}
	}
	return hackpadfs.ChmodFile(f.f, m)
}
func (f *faultStoreFile) Write(p []byte) (int, error) {
	if g := f.plan.wgate; g != nil {
		g(f.name)
	}
	if err := f.plan.call("store.Write"); err != nil {
		return 0, err
	}
	if f.writeBack {
		f.pending = append(f.pending, append([]byte(nil), p...))
		return len(p), nil
	}
	return hackpadfs.WriteFile(f.f, p)
}
func (f *faultStoreFile) Close() error {
	if !f.closed {
		f.closed = true
		f.plan.mu.Lock()
		f.plan.writers[f.name]--
		f.plan.mu.Unlock()
		err := f.plan.call("store.Close")
		flush := f.pending
		if err != nil {
			flush = flush[:len(flush)/2]
		}
		for _, chunk := range flush {
			_, _ = hackpadfs.WriteFile(f.f, chunk)
		}
		if err != nil {
			_ = f.f.Close()
			return err
		}
	}
	return f.f.Close()
}

var c11sizes = []int{1, 511, 512, 513, 1500, 5000}

type c11case struct {
	Part  string `json:"part"`           // fault | gated | free
	Mode  uint32 `json:"mode,omitempty"` // mode of the source file (0 = 0644)
	Size  int    `json:"size,omitempty"`
	Store string `json:"store,omitempty"` // minimal | full
	Rep   int    `json:"rep,omitempty"`
	// Source: "" (fills every buffer) | "short" (at most 200 bytes per Read) | "partial" (the failing Read delivers bytes with its error)
	Source string `json:"source,omitempty"`
	// Flavour: the error value a failing source call reports (see c11flavours)
	Flavour int `json:"flavour,omitempty"`
}

func c11cases(env *core.Env) []c11case {
	var cs []c11case
	for _, size := range c11sizes {
		for _, store := range []string{"minimal", "full", "minimal-writeback", "full-writeback"} {
			cs = append(cs, c11case{Part: "fault", Size: size, Store: store})
			if size >= 513 && (store == "minimal" || store == "full") {
				cs = append(cs, c11case{Part: "fault", Size: size, Store: store, Source: "short"}, c11case{Part: "fault", Size: size, Store: store, Source: "partial"}, c11case{Part: "fault", Size: size, Store: store, Source: "seekfail"})
			}
			// special mode bits make the cache take its chmod-the-copy path
			for _, m := range []hackpadfs.FileMode{hackpadfs.ModeSetuid | 0o755, hackpadfs.ModeSticky | 0o644, hackpadfs.ModeSetgid | hackpadfs.ModeSticky | 0o700} {
				if size == 1 || size == 513 || size == 5000 {
					cs = append(cs, c11case{Part: "fault", Size: size, Store: store, Mode: uint32(m)})
				}
			}
		}
	}
	for fl := 1; fl < len(c11flavours); fl++ {
		for _, size := range []int{513, 1500, 5000} {
			for _, store := range []string{"minimal", "full"} {
				cs = append(cs, c11case{Part: "fault", Size: size, Store: store, Flavour: fl})
			}
		}
		cs = append(cs, c11case{Part: "fault", Size: 1500, Store: "full", Source: "partial", Flavour: fl}, c11case{Part: "fault", Size: 1500, Store: "minimal-writeback", Flavour: fl})
	}
	for _, size := range []int{1500, 5000} {
		for _, store := range []string{"minimal", "full"} {
			cs = append(cs, c11case{Part: "pair-after-failure", Size: size, Store: store})
		}
	}
	for i := 0; i < env.Pick(600, 6000); i++ {
		cs = append(cs, c11case{Part: "gated", Rep: i})
	}
	for i := 0; i < env.Pick(150, 1500); i++ {
		cs = append(cs, c11case{Part: "free", Rep: i})
	}
	for i := 0; i < env.Pick(120, 1500); i++ {
		cs = append(cs, c11case{Part: "faultgated", Rep: i})
	}
	for i := 0; i < env.Pick(16, 200); i++ {
		cs = append(cs, c11case{Part: "stampede", Rep: i})
	}
	return cs
}

func init() {
	core.Register(&core.Prop{
		ID:    "C11",
		Level: "fault_enumeration",
		Rule: "fault enumeration of one cache fill: for files of 1, 511, 512, 513, 1500, 5000 bytes and four cache stores (only Open+OpenFile+Mkdir / everything mem.FS has, each also as a write-back store whose failing Close keeps only half of the written data) the calls of a clean first Open are counted (source Read, store OpenFile, each store Write, store Close) and the Open is repeated on a fresh cache once per index with that call failing: the Open must report an error, and three later fault-free Opens must each either fail or deliver exactly the source bytes; the cache store's own copy is inspected as well. The failing SOURCE call reports, in further cases, one of nine other error values (io.ErrUnexpectedEOF, values wrapping ErrNotImplemented, context.Canceled, ErrNotExist, ErrPermission, ErrExist, io.EOF, io.ErrShortWrite, io.ErrClosedPipe); (pair-after-failure) after a fill failed at each of its copy calls, two other files are opened for the first time at once, their copies in lockstep at the store's Write: both are served and cached with their own bytes. " +
			"Concurrency (race detector on): 2..4 goroutines open one uncached name while a gate in the source's Read pauses the copy at a chosen chunk boundary until the others are inside Open (gated), or run freely (free); every successful Open is read to the end and compared with the source, and the number of simultaneously open write handles per name in the cache store (copies in progress) must never exceed 1. Non-trivial: fault runs in which the fault fired / concurrent groups with >=2 successful opens; distinct by case parameters and fault index",
		Assumptions: []string{"a single fault per fill", "the source is immutable"},
		NumCases:    func(env *core.Env) int { return len(c11cases(env)) },
		Batch:       12,
		Race:        true,
		Run:         c11run,
		Floor: func(env *core.Env, agg *core.Agg) string {
			if agg.Counters["fault_runs"] < 80 || agg.Counters["concurrent_groups"] < 100 {
				return fmt.Sprint(agg.Counters["fault_runs"], agg.Counters["concurrent_groups"])
			}
			return ""
		},
	})
}

func c11data(size int) []byte {
	b := make([]byte, size)
	for i := range b {
		b[i] = byte('a' + (i*11)%26)
	}
	return b
}

type c11world struct {
	src   *mem.FS
	store *mem.FS
	plan  *faultPlan
	cache *cache.ReadOnlyFS
}

func newC11World(storeKind string, files map[string][]byte, mode ...uint32) (*c11world, error) {
	w := &c11world{plan: &faultPlan{failAt: -1}}
	w.src, _ = mem.NewFS()
	_ = hackpadfs.MkdirAll(w.src, "d/e", 0o755)
	for name, data := range files {
		if err := hackpadfs.WriteFullFile(w.src, name, data, 0o644); err != nil {
			return nil, err
		}
		if len(mode) > 0 && mode[0] != 0 {
			if err := hackpadfs.Chmod(w.src, name, hackpadfs.FileMode(mode[0])); err != nil {
				return nil, err
			}
		}
	}
	w.store, _ = mem.NewFS()
	base := faultStore{inner: w.store, plan: w.plan, writeBack: strings.HasSuffix(storeKind, "-writeback")}
	var err error
	if strings.HasPrefix(storeKind, "full") {
		w.cache, err = cache.NewReadOnlyFS(&faultSource{w.src, w.plan}, &fullFaultStore{base}, cache.ReadOnlyOptions{})
	} else {
		w.cache, err = cache.NewReadOnlyFS(&faultSource{w.src, w.plan}, &base, cache.ReadOnlyOptions{})
	}
	return w, err
}

func readAll(fsys hackpadfs.FS, name string) ([]byte, error) {
	f, err := fsys.Open(name)
	if err != nil {
		return nil, err
	}
	defer func() { _ = f.Close() }()
	return io.ReadAll(f)
}

func c11run(env *core.Env, idx int) core.CaseResult {
	cs := c11cases(env)[idx]
	var res core.CaseResult
	res.Key = core.Hash(cs)
	switch cs.Part {
	case "fault":
		c11fault(env, cs, &res)
	case "faultgated":
		c11faultGated(env, cs, idx, &res)
	case "stampede":
		c11stampede(env, cs, idx, &res)
	case "pair-after-failure":
		c11pairAfterFailure(env, cs, &res)
	default:
		c11concurrent(env, cs, idx, &res)
	}
	if idx%17 == 0 && res.Sample == nil {
		res.Sample = cs
	}
	return res
}

func c11fault(env *core.Env, cs c11case, res *core.CaseResult) {
	name := "d/e/file"
	want := c11data(cs.Size)
	files := map[string][]byte{name: want}
	clean, err := newC11World(cs.Store, files, cs.Mode)
	if err != nil {
		res.Inconclusive = err.Error()
		return
	}
	clean.plan.shortReads, clean.plan.seekFails = cs.Source == "short", cs.Source == "seekfail"
	if got, err := readAll(clean.cache, name); err != nil || string(got) != string(want) {
		res.Violate(fmt.Sprintf("C11|%s|clean-fill|wrong", cs.Store), fmt.Sprintf("a fault-free first Open of a %d-byte file delivered %d bytes, err %v", cs.Size, len(got), err), cs)
		return
	}
	n := clean.plan.n
	sites := append([]string(nil), clean.plan.log...)
	res.Evals = n
	res.Sample = map[string]any{"case": cs, "calls_of_a_clean_fill": sites}
	c11storeHiccup(cs, name, want, files, sites, res)
	for kk := 0; kk < 3*n; kk++ {
		// second round: the first retry after the failed fill meets a source that cannot be opened;
		// third round: the cache store stays down from the failing call until the Open has returned (then recovers)
		k, outage, persistent := kk%n, kk >= n && kk < 2*n, kk >= 2*n
		if persistent && !strings.HasPrefix(sites[k], "store.") {
			continue
		}
		w, err := newC11World(cs.Store, files, cs.Mode)
		if err != nil {
			res.Inconclusive = err.Error()
			return
		}
		w.plan.failAt = k
		w.plan.flavour = cs.Flavour
		w.plan.persistent = persistent
		w.plan.shortReads, w.plan.partialRead, w.plan.seekFails = cs.Source == "short", cs.Source == "partial", cs.Source == "seekfail"
		var f hackpadfs.File
		var oerr error
		if p := core.Recover(func() { f, oerr = w.cache.Open(name) }); p != "" {
			res.Violate(fmt.Sprintf("C11|%s|fault:%s|panic", cs.Store, sites[k]), fmt.Sprintf("Open panicked when %s (call #%d of the fill) failed: %s", sites[k], k, p), cs)
			continue
		}
		if w.plan.fired == "" {
			if f != nil {
				_ = f.Close()
			}
			continue
		}
		res.Count("fault_runs", 1)
		res.NTKeys = append(res.NTKeys, core.Hash([]any{cs, k, outage, persistent}))
		if persistent {
			res.Count("store_outage_runs", 1)
		}
		res.Seen("fault_sites", cs.Store+"|"+w.plan.fired)
		wit := map[string]any{"case": cs, "fault_index": k, "site": w.plan.fired, "fill_calls": sites, "source_outage_during_first_retry": outage, "store_down_until_open_returned": persistent}
		if oerr == nil {
			// the Open claims success: it may only do so if what it hands out is complete
			got, rerr := io.ReadAll(f)
			_ = f.Close()
			if rerr != nil || string(got) != string(want) {
				res.Violate(fmt.Sprintf("C11|%s|fault:%s|open-succeeded-partial", cs.Store, w.plan.fired), fmt.Sprintf("the Open during which %s failed returned nil and delivered %d of %d bytes (read err %v)", w.plan.fired, len(got), len(want), rerr), wit)
			} else {
				res.Violate(fmt.Sprintf("C11|%s|fault:%s|error-not-reported", cs.Store, w.plan.fired), fmt.Sprintf("the Open during which %s (call #%d) failed reported no error", w.plan.fired, k), wit)
			}
		}
		// later, fault-free opens: complete bytes or an error
		w.plan.mu.Lock()
		w.plan.failAt = -1
		w.plan.outage = outage
		w.plan.down, w.plan.persistent = false, false // the store is back
		w.plan.mu.Unlock()
		if outage {
			got, err := readAll(w.cache, name)
			if err == nil && string(got) != string(want) {
				res.Violate(fmt.Sprintf("C11|%s|fault:%s|later-open-partial", cs.Store, w.plan.fired), fmt.Sprintf("after a fill that failed at %s (call #%d), a re-open while the source could not be opened delivered %d of %d bytes without an error", w.plan.fired, k, len(got), len(want)), wit)
			}
			res.Count("retries_during_source_outage", 1)
			w.plan.mu.Lock()
			w.plan.outage = false
			w.plan.mu.Unlock()
		}
		// (the first re-open goes through a Sub view of the cache: the same cache seen from one of its directories)
		if view, verr := hackpadfs.Sub(w.cache, "d"); verr == nil {
			got, err := readAll(view, strings.TrimPrefix(name, "d/"))
			res.Count("reopens_through_a_sub_view", 1)
			if err == nil && string(got) != string(want) {
				res.Violate(fmt.Sprintf("C11|%s|fault:%s|later-open-partial", cs.Store, w.plan.fired), fmt.Sprintf("after a fill that failed at %s (call #%d), a re-open through hackpadfs.Sub(cache, \"d\") delivered %d of %d bytes without an error", w.plan.fired, k, len(got), len(want)), wit)
			}
		}
		for again := 0; again < 3; again++ {
			got, err := readAll(w.cache, name)
			if err == nil && string(got) != string(want) {
				res.Violate(fmt.Sprintf("C11|%s|fault:%s|later-open-partial", cs.Store, w.plan.fired), fmt.Sprintf("after a fill that failed at %s (call #%d), re-open #%d delivered %d of %d bytes without an error", w.plan.fired, k, again+1, len(got), len(want)), wit)
				break
			}
		}
	}
}

// lockstep lets two copies advance chunk by chunk together: a party waits until the other one has arrived too (or a short
// while, in case the other copy is over or the two are not running at the same time at all - scheduling only, no verdict
// depends on the clock).
type lockstep struct {
	mu      sync.Mutex
	n, gen  int
	ch      chan struct{}
	meets   int
	timeout time.Duration
}

func (b *lockstep) wait() {
	b.mu.Lock()
	if b.ch == nil {
		b.ch = make(chan struct{})
	}
	gen := b.gen
	b.n++
	if b.n == 2 {
		b.n = 0
		b.gen++
		b.meets++
		close(b.ch)
		b.ch = make(chan struct{})
		b.mu.Unlock()
		return
	}
	ch := b.ch
	b.mu.Unlock()
	select {
	case <-ch:
	case <-time.After(b.timeout):
		b.mu.Lock()
		if b.gen == gen && b.n > 0 {
			b.n--
		}
		b.mu.Unlock()
	}
}

// c11pairAfterFailure: a fill that failed inside its copy (every source.Read and store.Write of it in turn, and no failure at
// all), then the first Opens of two OTHER files at the same time with their copies in lockstep (a copy's store Write waits
// until the other copy has read its chunk as well): each of the two is served, and cached, with its own bytes only.
func c11pairAfterFailure(env *core.Env, cs c11case, res *core.CaseResult) {
	size := cs.Size
	mk := func(base byte, mul, mod int) []byte {
		b := make([]byte, size)
		for i := range b {
			b[i] = base + byte((i*mul)%mod)
		}
		return b
	}
	files := map[string][]byte{"d/e/file": c11data(size), "d/e/x": mk('A', 3, 23), "d/e/y": mk('0', 7, 10)}
	clean, err := newC11World(cs.Store, files)
	if err != nil {
		res.Inconclusive = err.Error()
		return
	}
	if _, err := readAll(clean.cache, "d/e/file"); err != nil {
		res.Inconclusive = "fault-free fill failed: " + err.Error()
		return
	}
	sites := append([]string(nil), clean.plan.log...)
	for k := -1; k < len(sites); k++ {
		if k >= 0 && sites[k] != "source.Read" && sites[k] != "store.Write" && sites[k] != "store.Close" {
			continue
		}
		w, err := newC11World(cs.Store, files)
		if err != nil {
			res.Inconclusive = err.Error()
			return
		}
		w.plan.failAt = k
		if p := core.Recover(func() { _, _ = readAll(w.cache, "d/e/file") }); p != "" {
			continue // (the fault part reports panics of the faulted Open)
		}
		w.plan.mu.Lock()
		w.plan.failAt = -1
		w.plan.mu.Unlock()
		ls := &lockstep{timeout: 30 * time.Millisecond}
		w.plan.wgate = func(string) { ls.wait() }
		names := []string{"d/e/x", "d/e/y"}
		got := make([][]byte, 2)
		errs := make([]error, 2)
		panics := make([]string, 2)
		var wg sync.WaitGroup
		for i := range names {
			wg.Add(1)
			go func(i int) {
				defer wg.Done()
				panics[i] = core.Recover(func() { got[i], errs[i] = readAll(w.cache, names[i]) })
			}(i)
		}
		wg.Wait()
		w.plan.wgate = nil
		res.Evals++
		res.Count("pair_runs", 1)
		res.Count("pair_chunks_in_lockstep", ls.meets)
		if ls.meets > 0 {
			res.NTKeys = append(res.NTKeys, core.Hash([]any{cs, k}))
		}
		site := "none"
		if k >= 0 {
			site = sites[k]
		}
		wit := map[string]any{"case": cs, "failed_fill_fault_index": k, "site": site, "chunks_in_lockstep": ls.meets}
		for i, name := range names {
			want := files[name]
			if panics[i] != "" {
				res.Violate("C11|pair-after-failure|panic", fmt.Sprintf("the first Open of %q (at the same time as the first Open of the other file, after a fill of a third file failed at %s) panicked: %s", name, site, panics[i]), wit)
				continue
			}
			if errs[i] == nil && string(got[i]) != string(want) {
				res.Violate("C11|pair-after-failure|first-open-wrong-bytes", fmt.Sprintf("after a fill of d/e/file that failed at %s (call #%d), d/e/x and d/e/y were opened for the first time at the same time: the Open of %q delivered bytes that are not the file's (%d bytes, first difference at %d)", site, k, name, len(got[i]), firstDiff(string(got[i]), string(want))), wit)
			}
			for again := 0; again < 2; again++ {
				b, err := readAll(w.cache, name)
				if err == nil && string(b) != string(want) {
					res.Violate("C11|pair-after-failure|cached-wrong-bytes", fmt.Sprintf("after a fill of d/e/file that failed at %s (call #%d), d/e/x and d/e/y were opened for the first time at the same time: a later Open of %q serves bytes that are not the file's (%d bytes, first difference at %d)", site, k, name, len(b), firstDiff(string(b), string(want))), wit)
					break
				}
			}
		}
	}
}

// c11storeHiccup: the file is cached completely and an earlier handle on it is still unread when a later Open meets a
// cache store whose read-only Open fails once with a transient error. That Open fails or delivers everything; so does
// the earlier handle (read while a possible re-fill is running, or after a re-fill that failed half-way), and so do later opens.
func c11storeHiccup(cs c11case, name string, want []byte, files map[string][]byte, sites []string, res *core.CaseResult) {
	var reads []int
	for i, s := range sites {
		if s == "source.Read" {
			reads = append(reads, i)
		}
	}
	for _, variant := range []string{"held-handle-read-during-the-next-open", "next-open-meets-a-failing-source-read", "plain"} {
		w, err := newC11World(cs.Store, files, cs.Mode)
		if err != nil {
			return
		}
		w.plan.shortReads = cs.Source == "short"
		if got, err := readAll(w.cache, name); err != nil || string(got) != string(want) {
			return // (reported by the clean fill above)
		}
		held, err := w.cache.Open(name)
		if err != nil {
			res.Violate(fmt.Sprintf("C11|%s|store-open-hiccup|second-open-failed", cs.Store), fmt.Sprintf("a second fault-free Open of a completely cached %d-byte file failed: %v", len(want), err), cs)
			return
		}
		var heldData []byte
		var heldErr error
		heldRead := false
		readHeld := func() {
			if !heldRead {
				heldRead = true
				heldData, heldErr = io.ReadAll(held)
			}
		}
		w.plan.mu.Lock()
		w.plan.storeOpenHiccups = 1
		switch variant {
		case "held-handle-read-during-the-next-open":
			w.plan.gate = func(string, int) { readHeld() }
		case "next-open-meets-a-failing-source-read":
			if len(reads) > 0 {
				w.plan.failAt = w.plan.n + reads[len(reads)/2]
			}
		}
		w.plan.mu.Unlock()
		wit := map[string]any{"case": cs, "variant": variant}
		got, oerr := readAll(w.cache, name)
		res.Count("store_open_hiccup_runs", 1)
		if oerr == nil && string(got) != string(want) {
			res.Violate(fmt.Sprintf("C11|%s|store-open-hiccup|open-partial", cs.Store), fmt.Sprintf("[%s] the Open that met a transient error of the cache store's read-only Open delivered %d of %d bytes without an error", variant, len(got), len(want)), wit)
		}
		readHeld()
		_ = held.Close()
		if heldErr == nil && string(heldData) != string(want) {
			res.Violate(fmt.Sprintf("C11|%s|store-open-hiccup|earlier-handle-partial", cs.Store), fmt.Sprintf("[%s] a handle opened successfully on the completely cached file delivered %d of %d bytes after a later Open met a transient error of the cache store's read-only Open", variant, len(heldData), len(want)), wit)
		}
		w.plan.mu.Lock()
		w.plan.failAt, w.plan.gate, w.plan.storeOpenHiccups = -1, nil, 0
		w.plan.mu.Unlock()
		for again := 0; again < 3; again++ {
			got, err := readAll(w.cache, name)
			if err == nil && string(got) != string(want) {
				res.Violate(fmt.Sprintf("C11|%s|store-open-hiccup|later-open-partial", cs.Store), fmt.Sprintf("[%s] re-open #%d after the hiccup delivered %d of %d bytes without an error", variant, again+1, len(got), len(want)), wit)
				break
			}
		}
	}
}

// c11stampede: round after round, several goroutines spinning on one flag open the SAME fresh name at the same instant
// (the very first Open of that name: whatever is set up per name is set up now, by all of them at once). Every
// successful open is complete and at most one copy per name is ever in progress.
func c11stampede(env *core.Env, cs c11case, idx int, res *core.CaseResult) {
	rounds := 150
	files := map[string][]byte{}
	for i := 0; i < rounds; i++ {
		files[fmt.Sprintf("d/n%03d", i)] = c11data(600 + i%7*300)
	}
	w, err := newC11World([]string{"minimal", "full"}[cs.Rep%2], files)
	if err != nil {
		res.Inconclusive = err.Error()
		return
	}
	k := 3 + cs.Rep%4
	bad := ""
	var roundsDone int64
	hung, confirmed := hammerWatch(func() {
		for i := 0; i < rounds && bad == ""; i++ {
			atomic.AddInt64(&roundsDone, 1)
			name := fmt.Sprintf("d/n%03d", i)
			var ready, goFlag int32
			outs := make([][]byte, k)
			errs := make([]error, k)
			var wg sync.WaitGroup
			for g := 0; g < k; g++ {
				wg.Add(1)
				go func(g int) {
					defer wg.Done()
					atomic.AddInt32(&ready, 1)
					for atomic.LoadInt32(&goFlag) == 0 {
						runtime.Gosched() // (spinning without yielding starves the releasing goroutine when the machine is oversubscribed)
					}
					outs[g], errs[g] = readAll(w.cache, name)
				}(g)
			}
			for atomic.LoadInt32(&ready) < int32(k) {
				runtime.Gosched()
			}
			atomic.StoreInt32(&goFlag, 1)
			wg.Wait()
			for g := 0; g < k; g++ {
				if errs[g] == nil && string(outs[g]) != string(files[name]) {
					bad = fmt.Sprintf("round %d: opener %d of %d simultaneous first opens of %q got %d of %d bytes without an error", i, g, k, name, len(outs[g]), len(files[name]))
				}
			}
		}
	}, &roundsDone)
	wit := map[string]any{"case": cs, "openers": k, "rounds": rounds}
	switch {
	case hung && confirmed:
		res.Violate("C11|concurrent|hang", "simultaneous first opens did not return; goroutine dump shows them parked on a lock", wit)
		return
	case hung:
		res.Inconclusive = "simultaneous first opens did not finish"
		return
	}
	if bad != "" {
		res.Violate("C11|concurrent|stampede|partial", bad, wit)
	}
	if w.plan.maxWriters > 1 {
		res.Violate(fmt.Sprintf("C11|concurrent|stampede|copies-in-progress=%d", min(w.plan.maxWriters, 2)), fmt.Sprintf("%d copies of one name were in progress in the cache store at the same time (%d goroutines opening each fresh name at the same instant, %d names)", w.plan.maxWriters, k, rounds), wit)
	}
	res.Nontrivial = true
	res.Count("stampede_rounds", rounds)
	res.Count("concurrent_groups", rounds)
}

func c11concurrent(env *core.Env, cs c11case, idx int, res *core.CaseResult) {
	r := rand.New(rand.NewSource(env.Seed*17_000_023 + int64(idx)))
	size := []int{600, 1500, 5000, 20000}[r.Intn(4)]
	name := "d/shared"
	want := c11data(size)
	other := c11data(700)
	w, err := newC11World([]string{"minimal", "full"}[r.Intn(2)], map[string][]byte{name: want, "d/other": other})
	if err != nil {
		res.Inconclusive = err.Error()
		return
	}
	k := 2 + r.Intn(3)
	chunks := (size + 511) / 512
	pauseAt := r.Intn(chunks + 1)
	var inside int32
	release := make(chan struct{})
	var once sync.Once
	if cs.Part == "gated" {
		w.plan.gate = func(n string, chunk int) {
			if n != name || chunk != pauseAt {
				return
			}
			// hold the copy here until every opener has entered Open (or a generous number of yields passed)
			for i := 0; i < 2000 && atomic.LoadInt32(&inside) < int32(k); i++ {
				runtime.Gosched()
			}
			once.Do(func() { close(release) })
		}
	}
	type outcome struct {
		data []byte
		err  error
	}
	outs := make([]outcome, k+1)
	var wg sync.WaitGroup
	for i := 0; i <= k; i++ {
		wg.Add(1)
		go func(i int) {
			defer wg.Done()
			target := name
			if i == k {
				target = "d/other" // a distinct name opened concurrently
			}
			atomic.AddInt32(&inside, 1)
			if i%2 == 1 {
				runtime.Gosched()
			}
			var d []byte
			var err error
			if i%3 == 2 {
				d, err = hackpadfs.ReadFile(w.cache, target) // the helper takes whatever shortcut the FS offers for whole-file reads
			} else {
				d, err = readAll(w.cache, target)
			}
			outs[i] = outcome{d, err}
		}(i)
	}
	hung, confirmed := withWatchdog(wg.Wait)
	if hung {
		if confirmed {
			res.Violate("C11|concurrent|hang", "concurrent first opens did not return; goroutine dump shows them parked on a lock", cs)
		} else {
			res.Inconclusive = "concurrent opens did not finish"
		}
		return
	}
	_ = release
	okOpens := 0
	for i, o := range outs {
		exp := want
		if i == k {
			exp = other
		}
		if o.err == nil {
			okOpens++
			if string(o.data) != string(exp) {
				res.Violate(fmt.Sprintf("C11|concurrent|%s|partial", cs.Part), fmt.Sprintf("opener %d of %d got %d of %d bytes without an error (copy paused before chunk %d of %d)", i, k, len(o.data), len(exp), pauseAt, chunks), map[string]any{"case": cs, "size": size, "openers": k, "pause_at_chunk": pauseAt})
			}
		}
	}
	if w.plan.maxWriters > 1 {
		res.Violate(fmt.Sprintf("C11|concurrent|%s|copies-in-progress=%d", cs.Part, min(w.plan.maxWriters, 2)), fmt.Sprintf("%d copies of %q were in progress in the cache store at the same time", w.plan.maxWriters, name), map[string]any{"case": cs, "size": size, "openers": k, "pause_at_chunk": pauseAt})
	}
	res.Nontrivial = okOpens >= 2
	res.Count("concurrent_groups", 1)
	res.Count("concurrent_successful_opens", okOpens)
	res.Seen("pause_points", fmt.Sprintf("%d/%d", pauseAt, chunks))
	if idx%53 == 0 {
		res.Sample = map[string]any{"case": cs, "size": size, "openers": k, "pause_before_chunk": pauseAt, "successful": okOpens, "max_copies_in_progress": w.plan.maxWriters}
	}
	_ = time.Now
}

// c11faultGated: a failed fill combined with concurrency. A's fill fails on a source read while B is already waiting for
// the same name; B then re-fills, and C arrives while B's copy is in progress. Every open that succeeds must deliver the
// complete bytes and at no time may two copies of the file be in progress.
func c11faultGated(env *core.Env, cs c11case, idx int, res *core.CaseResult) {
	r := rand.New(rand.NewSource(env.Seed*17_000_041 + int64(idx)))
	size := []int{1500, 5000, 20000}[r.Intn(3)]
	name := "d/shared"
	want := c11data(size)
	w, err := newC11World([]string{"minimal", "full"}[r.Intn(2)], map[string][]byte{name: want})
	if err != nil {
		res.Inconclusive = err.Error()
		return
	}
	chunks := (size + 511) / 512
	failChunk := r.Intn(chunks)
	pause2 := r.Intn(chunks)
	var inside int32
	var fills int32
	startB, startC := make(chan struct{}), make(chan struct{})
	var onceB, onceC sync.Once
	waitFor := func(n int32) {
		for i := 0; i < 4000 && atomic.LoadInt32(&inside) < n; i++ {
			runtime.Gosched()
		}
		for i := 0; i < 50; i++ { // let the newcomer reach the lock
			runtime.Gosched()
		}
	}
	w.plan.gate = func(n string, chunk int) {
		if n != name {
			return
		}
		if chunk == 0 {
			atomic.AddInt32(&fills, 1)
		}
		switch atomic.LoadInt32(&fills) {
		case 1:
			onceB.Do(func() { close(startB) })
			if chunk == failChunk {
				waitFor(2) // B is inside Open, queued behind this fill
				w.plan.mu.Lock()
				w.plan.failAt = w.plan.n // the read that follows fails
				w.plan.mu.Unlock()
			}
		case 2:
			if chunk == pause2 {
				onceC.Do(func() { close(startC) })
				waitFor(3) // C arrives while this second copy is in progress
			}
		}
	}
	type outcome struct {
		data []byte
		err  error
	}
	outs := make([]outcome, 3)
	var wg sync.WaitGroup
	run := func(i int, start chan struct{}) {
		defer wg.Done()
		if start != nil {
			select {
			case <-start:
			case <-time.After(5 * time.Second): // the expected phase never came (e.g. the first fill did not fail): open anyway
			}
		}
		atomic.AddInt32(&inside, 1)
		var d []byte
		var err error
		if i == 2 {
			d, err = hackpadfs.ReadFile(w.cache, name)
		} else {
			d, err = readAll(w.cache, name)
		}
		outs[i] = outcome{d, err}
		if i == 0 {
			onceB.Do(func() { close(startB) })
		}
		if i == 1 {
			onceC.Do(func() { close(startC) })
		}
	}
	wg.Add(3)
	go run(0, nil)
	go run(1, startB)
	go run(2, startC)
	hung, confirmed := withWatchdog(wg.Wait)
	wit := map[string]any{"case": cs, "size": size, "first_fill_fails_before_chunk": failChunk, "second_fill_paused_before_chunk": pause2, "chunks": chunks}
	if hung {
		if confirmed {
			res.Violate("C11|concurrent|faultgated|hang", "the three opens did not return; goroutine dump shows them parked on a lock", wit)
		} else {
			res.Inconclusive = "concurrent opens did not finish"
		}
		return
	}
	okOpens := 0
	for i, o := range outs {
		if o.err == nil {
			okOpens++
			if string(o.data) != string(want) {
				res.Violate("C11|concurrent|faultgated|partial", fmt.Sprintf("opener %c got %d of %d bytes without an error (A's fill failed before chunk %d, B's re-fill was paused before chunk %d of %d while C opened)", 'A'+i, len(o.data), len(want), failChunk, pause2, chunks), wit)
			}
		}
	}
	if w.plan.maxWriters > 1 {
		res.Violate(fmt.Sprintf("C11|concurrent|faultgated|copies-in-progress=%d", min(w.plan.maxWriters, 2)), fmt.Sprintf("%d copies of %q were in progress in the cache store at the same time after a failed fill", w.plan.maxWriters, name), wit)
	}
	// afterwards, fault-free: complete bytes or an error
	w.plan.mu.Lock()
	w.plan.failAt, w.plan.gate = -1, nil
	w.plan.mu.Unlock()
	if got, err := readAll(w.cache, name); err == nil && string(got) != string(want) {
		res.Violate("C11|concurrent|faultgated|later-open-partial", fmt.Sprintf("a later open delivered %d of %d bytes without an error", len(got), len(want)), wit)
	}
	res.Nontrivial = atomic.LoadInt32(&fills) >= 2 && outs[0].err != nil
	res.Count("faultgated_groups", 1)
	res.Count("faultgated_first_fill_failed", map[bool]int{true: 1}[outs[0].err != nil])
	res.Count("faultgated_fills", int(atomic.LoadInt32(&fills)))
}
