package props

import (
	"errors"
	"fmt"
	"io/fs"
	"os"
	"strings"
	"time"

	"hpverif/internal/core"
	"hpverif/internal/fsx"

	"github.com/hack-pad/hackpadfs"
	"github.com/hack-pad/hackpadfs/mem"
	"github.com/hack-pad/hackpadfs/mount"
	hpos "github.com/hack-pad/hackpadfs/os"
)

// C06, part "crossfault": a cross-mount rename whose copy fails part-way must leave BOTH file systems as they were
// (in particular nothing else in the destination file system may be touched by the clean-up).

var errC06Fault = errors.New("injected I/O failure")

// c06faultFS is a mem.FS whose file handles fail the chosen Write (destination side) or Read (source side).
type c06faultFS struct {
	*mem.FS
	failWrite, failRead int  // call index that fails, -1 never
	short               bool // the failing Write stores half of its bytes first
	writes, reads       int
	failRemove          bool // Remove is refused (a read-only source)
	removes             int
	failOpen            string // Open of this name is refused although Stat answers (no read permission, or a fault in between)
	opensRefused        int
	failChmod           bool // Chmod is refused (a file system that does not take the source's mode bits)
	chmods              int
}

func (f *c06faultFS) Chmod(name string, mode hackpadfs.FileMode) error {
	if f.failChmod {
		f.chmods++
		return &hackpadfs.PathError{Op: "chmod", Path: name, Err: errC06Fault}
	}
	return f.FS.Chmod(name, mode)
}

func (f *c06faultFS) Remove(name string) error {
	if f.failRemove {
		f.removes++
		return &hackpadfs.PathError{Op: "remove", Path: name, Err: errC06Fault}
	}
	return f.FS.Remove(name)
}

func (f *c06faultFS) Open(name string) (hackpadfs.File, error) {
	if f.failOpen != "" && name == f.failOpen {
		f.opensRefused++
		return nil, &hackpadfs.PathError{Op: "open", Path: name, Err: errC06Fault}
	}
	file, err := f.FS.Open(name)
	if err != nil || f.failRead < 0 {
		return file, err
	}
	return &c06faultFile{File: file, fs: f}, nil
}

func (f *c06faultFS) OpenFile(name string, flag int, perm hackpadfs.FileMode) (hackpadfs.File, error) {
	file, err := f.FS.OpenFile(name, flag, perm)
	if err != nil {
		return file, err
	}
	return &c06faultFile{File: file, fs: f}, nil
}

type c06faultFile struct {
	hackpadfs.File
	fs *c06faultFS
}

func (f *c06faultFile) Read(p []byte) (int, error) {
	i := f.fs.reads
	f.fs.reads++
	if i == f.fs.failRead {
		return 0, errC06Fault
	}
	if len(p) > 4096 {
		p = p[:4096] // several reads per file
	}
	return f.File.Read(p)
}

func (f *c06faultFile) Write(p []byte) (int, error) {
	i := f.fs.writes
	f.fs.writes++
	if i == f.fs.failWrite {
		if f.fs.short && len(p) > 1 {
			n, _ := hackpadfs.WriteFile(f.File, p[:len(p)/2])
			return n, errC06Fault
		}
		return 0, errC06Fault
	}
	return hackpadfs.WriteFile(f.File, p)
}

// c06oslink: an os.FS holding symbolic links is mounted at a; Stat, Lstat and LstatOrStat through the mount FS must give
// what the same call gives on the mounted file system itself at the remainder path.
func c06oslink(env *core.Env, res *core.CaseResult) {
	d, err := os.MkdirTemp(env.Scratch, "c06os-")
	if err != nil {
		res.Inconclusive = err.Error()
		return
	}
	defer os.RemoveAll(d)
	_ = os.Chmod(d, 0o777)
	osfs, err := hpos.NewFS().Sub(d[1:])
	if err != nil {
		res.Inconclusive = err.Error()
		return
	}
	_ = hackpadfs.Mkdir(osfs, "dir", 0o755)
	_ = hackpadfs.WriteFullFile(osfs, "dir/target", []byte("0123456789"), 0o640)
	_ = hackpadfs.Symlink(osfs, "dir/target", "link")
	_ = hackpadfs.Symlink(osfs, "dir", "dirlink")
	_ = hackpadfs.Symlink(osfs, "nowhere", "dangling")
	// a mount.FS whose ROOT is the os.FS: a mount point may be a symbolic link to a directory (Open and Stat see a directory there)
	if m2, err := mount.NewFS(osfs); err == nil {
		onLink, _ := mem.NewFS()
		res.Count("addmount_at_symlinked_directory", 1)
		if aerr := m2.AddMount("dirlink", onLink); aerr != nil {
			res.Violate("C06|AddMount|symlinked-directory|got=fail,want=ok", fmt.Sprintf("AddMount(\"dirlink\") on a mount.FS rooted at an os.FS, dirlink being a symbolic link to the directory dir, failed: %v", aerr), nil)
		} else if werr := hackpadfs.WriteFullFile(m2, "dirlink/landed", []byte("x"), 0o644); werr != nil {
			res.Violate("C06|AddMount|symlinked-directory|new-mount-not-routed", fmt.Sprintf("after AddMount(\"dirlink\") writing below it failed: %v", werr), nil)
		} else if _, serr := hackpadfs.Stat(onLink, "landed"); serr != nil {
			res.Violate("C06|AddMount|symlinked-directory|new-mount-not-routed", "after AddMount(\"dirlink\") a file written below it did not land in the mounted file system", nil)
		}
	}
	root, _ := mem.NewFS()
	_ = hackpadfs.Mkdir(root, "a", 0o755)
	m, err := mount.NewFS(root)
	if err == nil {
		err = m.AddMount("a", osfs)
	}
	if err != nil {
		res.Violate("C06|oslink|setup", "cannot mount an os.FS: "+err.Error(), nil)
		return
	}
	var h1, h2 fsx.Handles
	for _, k := range []string{"Stat", "Lstat", "LstatOrStat", "ReadFile", "ReadDir"} {
		for _, p := range []string{"link", "dirlink", "dangling", "dir/target", "dir", "dirlink/target", "missing"} {
			via := fsx.Exec(m, fsx.Step{K: k, P: "a/" + p}, &h1, nil)
			direct := fsx.Exec(osfs, fsx.Step{K: k, P: p}, &h2, nil)
			res.Count("oslink_calls", 1)
			if via.Panic != "" || via.Err != direct.Err || via.Data != direct.Data {
				res.Violate(fmt.Sprintf("C06|%s|mounted-os,links|result:got=%s,want=%s", k, via.Outcome(), direct.Outcome()), fmt.Sprintf("%s(%q) through the mount FS returned %s; the same call on the file system mounted at a returns %s", k, "a/"+p, via, direct), nil)
			}
		}
	}
	res.Nontrivial = true
}

type c06faultCase struct {
	Src, Dst  string // names relative to their mounts (mounted at "a" and "b")
	DstExists bool
	Side      string // write | short-write | read | remove-source | none (no fault: the rename must succeed)
	At        int
	Mode      uint32 // mode of the source file (0 = 0640)
	// Caps: "" both mounts can Rename; "src-no-rename" / "dst-no-rename": that mount's file system has no Rename
	Caps string `json:",omitempty"`
	// LookAlike: the existing destination has the source's base name, size, mode and modification time (other bytes)
	LookAlike bool `json:",omitempty"`
}

// c06valueFS is a file system that is mounted BY VALUE and cannot be compared (it holds a slice): whoever compares two
// mounted file systems with == panics.
type c06valueFS struct {
	*c06faultFS
	tags []string
}

// c06noRename presents a c06faultFS without its Rename (everything else the mount FS may want is passed on).
type c06noRename struct{ in *c06faultFS }

func (n c06noRename) Open(name string) (hackpadfs.File, error) { return n.in.Open(name) }
func (n c06noRename) OpenFile(name string, flag int, perm hackpadfs.FileMode) (hackpadfs.File, error) {
	return n.in.OpenFile(name, flag, perm)
}
func (n c06noRename) Mkdir(name string, perm hackpadfs.FileMode) error { return n.in.Mkdir(name, perm) }
func (n c06noRename) MkdirAll(name string, perm hackpadfs.FileMode) error {
	return n.in.MkdirAll(name, perm)
}
func (n c06noRename) Remove(name string) error                         { return n.in.Remove(name) }
func (n c06noRename) Stat(name string) (hackpadfs.FileInfo, error)     { return n.in.Stat(name) }
func (n c06noRename) Chmod(name string, mode hackpadfs.FileMode) error { return n.in.Chmod(name, mode) }
func (n c06noRename) Chtimes(name string, a, m time.Time) error        { return n.in.Chtimes(name, a, m) }

func c06faultCases() []c06faultCase {
	var cs []c06faultCase
	for _, src := range []string{"report", "d/report"} {
		for _, dst := range []string{"archive", "d/archive", "report", "d/report"} {
			for _, ex := range []bool{false, true} {
				for _, side := range []string{"write", "short-write", "read"} {
					for at := 0; at < 3; at++ {
						cs = append(cs, c06faultCase{Src: src, Dst: dst, DstExists: ex, Side: side, At: at})
					}
				}
				cs = append(cs, c06faultCase{Src: src, Dst: dst, DstExists: ex, Side: "remove-source"})
				cs = append(cs, c06faultCase{Src: src, Dst: dst, DstExists: ex, Side: "open-source"})
				// the destination refuses the mode fix-up of the copy (the source carries a special bit, so one is needed)
				cs = append(cs, c06faultCase{Src: src, Dst: dst, DstExists: ex, Side: "chmod-destination", Mode: uint32(fs.ModeSticky|0o644) | 1<<31})
				// no fault: moved with the same bytes and the whole mode, special bits included
				for _, m := range []fs.FileMode{0o640, fs.ModeSticky | 0o644, fs.ModeSetuid | 0o755, fs.ModeSetgid | fs.ModeSticky | 0o700, 0} {
					cs = append(cs, c06faultCase{Src: src, Dst: dst, DstExists: ex, Side: "none", Mode: uint32(m) | 1<<31})
				}
				// mounts that differ in what they can do: a source without Rename (the destination still stages the copy next to
				// an existing file, so a failing copy leaves it alone); a destination without Rename (fault-free only: it is
				// overwritten in place, which cannot be undone)
				for _, side := range []string{"write", "read"} {
					cs = append(cs, c06faultCase{Src: src, Dst: dst, DstExists: ex, Side: side, At: 1, Caps: "src-no-rename"})
				}
				cs = append(cs, c06faultCase{Src: src, Dst: dst, DstExists: ex, Side: "none", Mode: uint32(0o640) | 1<<31, Caps: "src-no-rename"})
				cs = append(cs, c06faultCase{Src: src, Dst: dst, DstExists: ex, Side: "none", Mode: uint32(0o640) | 1<<31, Caps: "dst-no-rename"})
				cs = append(cs, c06faultCase{Src: src, Dst: dst, DstExists: ex, Side: "none", Mode: uint32(0o640) | 1<<31, Caps: "value-typed"})
				if ex {
					cs = append(cs, c06faultCase{Src: src, Dst: dst, DstExists: ex, Side: "none", Mode: uint32(0o640) | 1<<31, LookAlike: true})
				}
			}
		}
	}
	return cs
}

func c06crossfault(env *core.Env, cs c06case, idx int, res *core.CaseResult) {
	all := c06faultCases()
	fc := all[cs.Rep%len(all)]
	root, _ := mem.NewFS()
	srcIn, _ := mem.NewFS()
	dstIn, _ := mem.NewFS()
	srcFS := &c06faultFS{FS: srcIn, failRead: -1, failWrite: -1}
	dstFS := &c06faultFS{FS: dstIn, failRead: -1, failWrite: -1}
	switch fc.Side {
	case "write":
		dstFS.failWrite = fc.At
	case "short-write":
		dstFS.failWrite, dstFS.short = fc.At, true
	case "none":
	case "chmod-destination":
		dstFS.failChmod = true
	case "open-source":
		srcFS.failOpen = fc.Src // Stat of the source answers, opening it fails
	case "remove-source":
		srcFS.failRemove = true // the copy succeeds, then the source cannot be removed
	default:
		srcFS.failRead = fc.At
	}
	payload := strings.Repeat("0123456789abcdef", 1024) // 16 KiB: several reads and writes
	for _, f := range []hackpadfs.FS{srcIn, dstIn} {
		_ = hackpadfs.Mkdir(f, "d", 0o755)
	}
	srcMode := fs.FileMode(0o640)
	if fc.Mode&(1<<31) != 0 {
		srcMode = fs.FileMode(fc.Mode &^ (1 << 31))
	}
	_ = hackpadfs.WriteFullFile(srcIn, fc.Src, []byte(payload), 0o640)
	_ = hackpadfs.Chmod(srcIn, fc.Src, srcMode)
	// bystanders: entries of each file system at the OTHER side's relative names, and neighbours
	if fc.Src != fc.Dst {
		_ = hackpadfs.WriteFullFile(dstIn, fc.Src, []byte("bystander at the source's relative name"), 0o600)
		_ = hackpadfs.WriteFullFile(srcIn, fc.Dst, []byte("bystander at the destination's relative name"), 0o600)
	}
	_ = hackpadfs.WriteFullFile(dstIn, "neighbour", []byte("n"), 0o644)
	// files of the destination file system whose names look like the library's own temporary names
	_ = hackpadfs.WriteFullFile(dstIn, fc.Dst+".rename-0", []byte("not yours 0"), 0o600)
	_ = hackpadfs.WriteFullFile(dstIn, fc.Dst+".rename-1", []byte("not yours 1"), 0o600)
	_ = hackpadfs.WriteFullFile(dstIn, fc.Dst+".tmp", []byte("not yours tmp"), 0o600)
	if fc.DstExists && fc.Src != fc.Dst {
		_ = hackpadfs.WriteFullFile(dstIn, fc.Dst, []byte("previous contents of the destination"), 0o604)
	} else if fc.DstExists {
		_ = hackpadfs.WriteFullFile(dstIn, fc.Dst, []byte("previous contents of the destination"), 0o604)
	}
	if fc.LookAlike && fc.DstExists {
		// same base name (for equal relative names), same size, same mode, same modification time - and other bytes
		_ = hackpadfs.WriteFullFile(dstIn, fc.Dst, []byte(strings.Repeat("fedcba9876543210", 1024)), 0o640)
		_ = hackpadfs.Chmod(dstIn, fc.Dst, srcMode)
		when := time.Unix(1_600_000_000, 0)
		_ = hackpadfs.Chtimes(srcIn, fc.Src, when, when)
		_ = hackpadfs.Chtimes(dstIn, fc.Dst, when, when)
	}
	m, err := mount.NewFS(root)
	if err == nil {
		_ = hackpadfs.Mkdir(root, "a", 0o755)
		_ = hackpadfs.Mkdir(root, "b", 0o755)
		var srcMount, dstMount hackpadfs.FS = srcFS, dstFS
		switch fc.Caps {
		case "src-no-rename":
			srcMount = c06noRename{srcFS}
		case "dst-no-rename":
			dstMount = c06noRename{dstFS}
		case "value-typed":
			srcMount, dstMount = c06valueFS{srcFS, []string{"a"}}, c06valueFS{dstFS, []string{"b"}}
		}
		if err = m.AddMount("a", srcMount); err == nil {
			err = m.AddMount("b", dstMount)
		}
	}
	if err != nil {
		res.Violate("C06|crossfault|setup", "cannot build the mount configuration: "+err.Error(), fc)
		return
	}
	before := map[string]fsx.Snap{}
	parts := map[string]hackpadfs.FS{"root": root, "source mount": srcIn, "destination mount": dstIn}
	for k, f := range parts {
		before[k], _ = fsx.Snapshot(f, nil)
	}
	dk := "dst=missing"
	if fc.DstExists {
		dk = "dst=file"
	}
	st := fsx.Step{K: "Rename", P: "a/" + fc.Src, P2: "b/" + fc.Dst}
	var hs fsx.Handles
	r := fsx.Exec(m, st, &hs, nil)
	fired := dstFS.writes > dstFS.failWrite && dstFS.failWrite >= 0 || srcFS.reads > srcFS.failRead && srcFS.failRead >= 0 || srcFS.removes > 0 || srcFS.opensRefused > 0 || dstFS.chmods > 0
	res.Count("crossfault_cases", 1)
	if fc.Caps != "" {
		dk += "," + fc.Caps
	}
	if fc.LookAlike {
		dk += ",look-alike"
	}
	sig := func(what string) string {
		return fmt.Sprintf("C06|Rename|cross-mount,copy-fault=%s,%s|%s", fc.Side, dk, what)
	}
	wit := map[string]any{"case": fc, "step": st.String(), "result": r.String(), "fault_reached": fired}
	if fc.Side == "none" {
		res.Count("crossmount_moves_checked", 1)
		res.Nontrivial = true
		sigm := func(what string) string {
			special := "plain-mode"
			if srcMode&^fs.ModePerm != 0 {
				special = "special-mode-bits"
			}
			return fmt.Sprintf("C06|Rename|cross-mount,%s,%s|%s", special, dk, what)
		}
		if !r.OK() {
			res.Violate(sigm("got=fail,want=ok"), fmt.Sprintf("%s failed (%s) although nothing prevents the move", st, r), wit)
			return
		}
		wantSrc, wantDst := fsx.Snap{}, fsx.Snap{}
		for p, e := range before["source mount"] {
			if p != fc.Src {
				wantSrc[p] = e
			}
		}
		for p, e := range before["destination mount"] {
			wantDst[p] = e
		}
		wantDst[fc.Dst] = fsx.Entry{Kind: "f", Mode: uint32(srcMode & fsx.ModeBits), Size: int64(len(payload)), Data: payload}
		for _, k := range []string{"root", "source mount", "destination mount"} {
			want := before[k]
			switch k {
			case "source mount":
				want = wantSrc
			case "destination mount":
				want = wantDst
			}
			after, _ := fsx.Snapshot(parts[k], nil)
			if kind, detail := fsx.Diff(after, want); kind != "" {
				res.Violate(sigm("moved-wrong:"+strings.Fields(k)[0]+":"+kind), fmt.Sprintf("after %s (source mode %s) the %s is not what 'moved with the same bytes and mode' gives: %s", st, srcMode, k, detail), wit)
				return
			}
		}
		return
	}
	if !fired {
		res.Count("crossfault_fault_not_reached", 1)
		return
	}
	res.Count("crossfault_faults_fired", 1)
	res.Nontrivial = true
	res.Seen("crossfault_shapes", fmt.Sprintf("%v|%v|%s|%d|same=%v", strings.Contains(fc.Src, "/"), strings.Contains(fc.Dst, "/"), fc.Side, fc.At, fc.Src == fc.Dst))
	if r.Panic != "" {
		res.Violate(sig("panic"), st.String()+" panicked: "+r.Panic, wit)
		return
	}
	if r.OK() {
		res.Violate(sig("got=ok,want=fail"), fmt.Sprintf("%s reported success although the copy into the destination failed (%s fault at call %d)", st, fc.Side, fc.At), wit)
		return
	}
	for _, k := range []string{"root", "source mount", "destination mount"} {
		after, _ := fsx.Snapshot(parts[k], nil)
		if kind, detail := fsx.Diff(after, before[k]); kind != "" {
			what := "failed-but-changed:" + strings.Fields(k)[0] + ":" + kind
			if fc.Side == "remove-source" && fc.DstExists && strings.HasPrefix(k, "destination") {
				what = "failed-but-changed:destination:replaced" // one situation (F70): which attribute of the replaced file differs first does not matter
			}
			res.Violate(sig(what), fmt.Sprintf("%s failed (%s) after a %s fault at call %d, but the %s is not what it was before: %s", st, r, fc.Side, fc.At, k, detail), wit)
			return
		}
	}
}
