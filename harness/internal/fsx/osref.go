package fsx

import (
	"errors"
	"io/fs"
	"os"
	"path/filepath"
	"strings"
	"syscall"
	"time"

	"github.com/hack-pad/hackpadfs"
)

// OSRef is the reference: the standard os package rooted in a directory. It is written
// against the os package directly (not against hackpadfs/os) so that the library's own
// wrapper can be a subject. Error paths are made root-relative.
type OSRef struct{ Root string }

// NewOSRef creates a fresh empty directory under scratch.
func NewOSRef(scratch string) (*OSRef, error) {
	d, err := os.MkdirTemp(scratch, "ref-")
	if err != nil {
		return nil, err
	}
	if err := os.Chmod(d, 0o777); err != nil {
		return nil, err
	}
	return &OSRef{Root: d}, nil
}

func (o *OSRef) Cleanup() { _ = os.RemoveAll(o.Root) }

func (o *OSRef) p(name string) string {
	if name == "." {
		return o.Root
	}
	return o.Root + "/" + name // names are valid FS paths: no cleaning wanted
}

func (o *OSRef) rel(p string) string {
	if p == o.Root {
		return "."
	}
	if strings.HasPrefix(p, o.Root+"/") {
		return p[len(o.Root)+1:]
	}
	return p
}

func (o *OSRef) fix(err error) error {
	switch e := err.(type) {
	case *fs.PathError:
		return &fs.PathError{Op: e.Op, Path: o.rel(e.Path), Err: refInvalid(e.Err)}
	case *os.LinkError:
		return &hackpadfs.LinkError{Op: e.Op, Old: o.rel(e.Old), New: o.rel(e.New), Err: refInvalid(e.Err)}
	}
	return err
}

// refInvalid keeps the reference's verdict "invalid argument" independent of how the library spells its sentinel: an
// EINVAL from the kernel (or the os package's own ErrInvalid) IS the situation hackpadfs.ErrInvalid stands for.
func refInvalid(err error) error {
	if (errors.Is(err, syscall.EINVAL) || errors.Is(err, fs.ErrInvalid)) && !errors.Is(err, hackpadfs.ErrInvalid) {
		return invalidRef{err}
	}
	return err
}

type invalidRef struct{ error }

func (i invalidRef) Unwrap() error        { return i.error }
func (i invalidRef) Is(target error) bool { return target == hackpadfs.ErrInvalid }

func (o *OSRef) Open(name string) (fs.File, error) {
	f, err := os.Open(o.p(name))
	if err != nil {
		return nil, o.fix(err)
	}
	return f, nil
}

func (o *OSRef) OpenFile(name string, flag int, perm fs.FileMode) (fs.File, error) {
	f, err := os.OpenFile(o.p(name), flag, perm)
	if err != nil {
		return nil, o.fix(err)
	}
	return f, nil
}

func (o *OSRef) Create(name string) (fs.File, error) {
	f, err := os.Create(o.p(name))
	if err != nil {
		return nil, o.fix(err)
	}
	return f, nil
}

func (o *OSRef) Mkdir(name string, perm fs.FileMode) error { return o.fix(os.Mkdir(o.p(name), perm)) }
func (o *OSRef) MkdirAll(name string, perm fs.FileMode) error {
	return o.fix(os.MkdirAll(o.p(name), perm))
}
func (o *OSRef) Remove(name string) error    { return o.fix(os.Remove(o.p(name))) }
func (o *OSRef) RemoveAll(name string) error { return o.fix(os.RemoveAll(o.p(name))) }
func (o *OSRef) Rename(a, b string) error    { return o.fix(os.Rename(o.p(a), o.p(b))) }
func (o *OSRef) Symlink(a, b string) error   { return o.fix(os.Symlink(o.p(a), o.p(b))) }
func (o *OSRef) Stat(name string) (fs.FileInfo, error) {
	i, err := os.Stat(o.p(name))
	return i, o.fix(err)
}
func (o *OSRef) Lstat(name string) (fs.FileInfo, error) {
	i, err := os.Lstat(o.p(name))
	return i, o.fix(err)
}
func (o *OSRef) Chmod(name string, m fs.FileMode) error { return o.fix(os.Chmod(o.p(name), m)) }
func (o *OSRef) Chown(name string, u, g int) error      { return o.fix(os.Chown(o.p(name), u, g)) }
func (o *OSRef) Chtimes(name string, a, m time.Time) error {
	return o.fix(os.Chtimes(o.p(name), a, m))
}
func (o *OSRef) ReadDir(name string) ([]fs.DirEntry, error) {
	e, err := os.ReadDir(o.p(name))
	return e, o.fix(err)
}
func (o *OSRef) ReadFile(name string) ([]byte, error) {
	b, err := os.ReadFile(o.p(name))
	return b, o.fix(err)
}
func (o *OSRef) WriteFile(name string, data []byte, perm fs.FileMode) error {
	return o.fix(os.WriteFile(o.p(name), data, perm))
}

var _ = filepath.Join
