package fsx

import (
	"fmt"
	"io"
	"io/fs"
	"path"
	"sort"
	"strings"

	"hpverif/internal/core"

	"github.com/hack-pad/hackpadfs"
)

// Entry is one node of a tree snapshot.
type Entry struct {
	Kind  string `json:"k"`
	Mode  uint32 `json:"m"`
	Size  int64  `json:"s,omitempty"`
	Data  string `json:"d,omitempty"`
	MTime int64  `json:"t,omitempty"` // only for paths in the MTimeSet
}

// Snap is a tree snapshot: path -> entry ('.' itself is recorded with kind only).
type Snap map[string]Entry

// Snapshot walks fsys from the root. Problems met on the way are returned as a string (empty = clean walk).
func Snapshot(fsys hackpadfs.FS, mt MTimeSet) (snap Snap, problem string) {
	snap = Snap{}
	total, entries := 0, 0
	defer func() {
		if r := recover(); r != nil {
			problem = fmt.Sprint("panic during walk: ", r)
		}
	}()
	err := hackpadfs.WalkDir(fsys, ".", func(p string, d fs.DirEntry, err error) error {
		if err != nil {
			if problem == "" {
				problem = fmt.Sprintf("walk %s: %v", p, err)
			}
			return nil
		}
		entries++
		if entries > 200000 || total > 256<<20 {
			if problem == "" {
				problem = "tree too large to snapshot (more than 200000 entries or 256 MiB): the subject is not looking at the harness's tree"
			}
			return fs.SkipAll
		}
		info, serr := hackpadfs.Stat(fsys, p)
		if serr != nil {
			if problem == "" {
				problem = fmt.Sprintf("stat %s: %v", p, serr)
			}
			return nil
		}
		e := Entry{Kind: kindOf(info.Mode()), Mode: uint32(info.Mode() & ModeBits)}
		if p == "." {
			e.Mode = 0
		}
		if info.Mode().IsRegular() {
			b, rerr := hackpadfs.ReadFile(fsys, p)
			if rerr != nil && problem == "" {
				problem = fmt.Sprintf("readfile %s: %v", p, rerr)
			}
			e.Size = info.Size()
			e.Data = string(b)
			total += len(b)
		}
		if mt != nil && mt[p] {
			e.MTime = info.ModTime().UnixNano()
		}
		if d != nil && p != "." && d.IsDir() != info.IsDir() && problem == "" {
			problem = fmt.Sprintf("%s: listing says dir=%v, stat says dir=%v", p, d.IsDir(), info.IsDir())
		}
		snap[p] = e
		return nil
	})
	if err != nil && problem == "" {
		problem = "walk: " + err.Error()
	}
	return snap, problem
}

// Hash identifies a tree state.
func (s Snap) Hash() string {
	keys := make([]string, 0, len(s))
	for k := range s {
		keys = append(keys, k)
	}
	sort.Strings(keys)
	var sb strings.Builder
	for _, k := range keys {
		e := s[k]
		fmt.Fprintf(&sb, "%s|%s|%o|%d|%s\n", k, e.Kind, e.Mode, e.Size, e.Data)
	}
	return core.HashBytes([]byte(sb.String()))
}

// Shape identifies the tree's structure only (paths and kinds).
func (s Snap) Shape() string {
	keys := make([]string, 0, len(s))
	for k, e := range s {
		keys = append(keys, k+e.Kind)
	}
	sort.Strings(keys)
	return core.HashBytes([]byte(strings.Join(keys, "\n")))
}

// Diff returns the kind of the first difference (by sorted path) and a description; "" when equal.
func Diff(got, want Snap) (kind, detail string) {
	keys := map[string]bool{}
	for k := range got {
		keys[k] = true
	}
	for k := range want {
		keys[k] = true
	}
	sorted := make([]string, 0, len(keys))
	for k := range keys {
		sorted = append(sorted, k)
	}
	sort.Strings(sorted)
	for _, k := range sorted {
		g, gok := got[k]
		w, wok := want[k]
		switch {
		case !gok:
			return "missing-" + w.Kind, fmt.Sprintf("%s (%s) is missing", k, w.Kind)
		case !wok:
			return "extra-" + g.Kind, fmt.Sprintf("%s (%s) should not exist", k, g.Kind)
		case g.Kind != w.Kind:
			return "kind", fmt.Sprintf("%s is %s, want %s", k, g.Kind, w.Kind)
		case g.Mode != w.Mode:
			return "perm-" + g.Kind, fmt.Sprintf("%s has mode %s, want %s", k, fs.FileMode(g.Mode), fs.FileMode(w.Mode))
		case g.Size != w.Size:
			return "size", fmt.Sprintf("%s has size %d, want %d", k, g.Size, w.Size)
		case g.Data != w.Data:
			return "data", fmt.Sprintf("%s holds %q, want %q", k, clip(g.Data), clip(w.Data))
		case g.MTime != w.MTime:
			return "mtime", fmt.Sprintf("%s has mtime %d, want %d", k, g.MTime, w.MTime)
		}
	}
	return "", ""
}

func clip(s string) string {
	if len(s) > 60 {
		return s[:60] + "..."
	}
	return s
}

// Candidates is the closed alphabet of paths: names over depth 1..3 plus '.'.
func Candidates(names []string, depth int) []string {
	out := []string{"."}
	level := []string{""}
	for d := 0; d < depth; d++ {
		var next []string
		for _, p := range level {
			for _, n := range names {
				q := n
				if p != "" {
					q = p + "/" + n
				}
				next = append(next, q)
			}
		}
		out = append(out, next...)
		level = next
	}
	return out
}

// Closure probes every candidate path (not only listed ones) and checks that the namespace is a well-formed
// tree. It returns the violations as (kind, detail) pairs and the number of probes made.
func Closure(fsys hackpadfs.FS, candidates []string) (problems [][2]string, probes int) {
	add := func(kind, detail string) { problems = append(problems, [2]string{kind, detail}) }
	defer func() {
		if r := recover(); r != nil {
			add("panic", fmt.Sprint("panic while probing: ", r))
		}
	}()
	type node struct {
		exists bool
		dir    bool
		listed map[string]bool // for dirs: names in listing -> isDir
		names  []string
	}
	nodes := map[string]*node{}
	// include every listed child as a candidate too (names outside the alphabet, deeper levels)
	queue := append([]string(nil), candidates...)
	seen := map[string]bool{}
	for len(queue) > 0 {
		p := queue[0]
		queue = queue[1:]
		if seen[p] {
			continue
		}
		seen[p] = true
		n := &node{}
		nodes[p] = n
		info, err := hackpadfs.Stat(fsys, p)
		probes++
		if err != nil {
			// Open must agree with Stat
			if f, oerr := fsys.Open(p); oerr == nil {
				_ = f.Close()
				add("open-without-stat", fmt.Sprintf("%s can be opened but Stat fails: %v", p, err))
			}
			probes++
			continue
		}
		n.exists, n.dir = true, info.IsDir()
		f, oerr := fsys.Open(p)
		probes++
		if oerr != nil {
			add("stat-without-open", fmt.Sprintf("%s can be Stat'ed but not opened: %v", p, oerr))
			continue
		}
		hinfo, herr := f.Stat()
		if herr != nil {
			add("handle-stat", fmt.Sprintf("%s: handle Stat fails: %v", p, herr))
		} else if hinfo.IsDir() != info.IsDir() {
			add("kind-mismatch", fmt.Sprintf("%s: Stat says dir=%v, handle says dir=%v", p, info.IsDir(), hinfo.IsDir()))
		}
		if n.dir {
			entries, rerr := hackpadfs.ReadDirFile(f, -1)
			probes++
			if rerr != nil && rerr != io.EOF {
				add("unlistable-dir", fmt.Sprintf("%s: directory cannot be listed: %v", p, rerr))
			}
			n.listed = map[string]bool{}
			for _, e := range entries {
				if _, dup := n.listed[e.Name()]; dup {
					add("duplicate-entry", fmt.Sprintf("%s lists %q twice", p, e.Name()))
				}
				n.listed[e.Name()] = e.IsDir()
				if t := e.Type(); t.IsDir() != e.IsDir() || t&^fs.ModeType != 0 || (!e.IsDir() && t != 0) {
					// (no symbolic links or devices are ever created: a listed entry is a directory or a regular file, and Type()
					// carries the kind only - never permission or setuid/setgid/sticky bits)
					add("entry-type", fmt.Sprintf("%s lists %q with Type() %v (IsDir=%v)", p, e.Name(), t, e.IsDir()))
				}
				n.names = append(n.names, e.Name())
				if len(seen) < 4000 {
					queue = append(queue, path.Join(p, e.Name()))
				}
			}
		}
		_ = f.Close()
	}
	root := nodes["."]
	if root == nil || !root.exists || !root.dir {
		add("root", "the root does not exist or is not a directory")
	}
	var ps []string
	for p := range nodes {
		ps = append(ps, p)
	}
	sort.Strings(ps)
	for _, p := range ps {
		n := nodes[p]
		if p == "." {
			continue
		}
		parent := nodes[path.Dir(p)]
		base := path.Base(p)
		if n.exists {
			switch {
			case parent == nil || !parent.exists:
				add("orphan", fmt.Sprintf("%s exists but its parent does not", p))
			case !parent.dir:
				add("below-file", fmt.Sprintf("%s exists but its parent is not a directory", p))
			default:
				isDir, ok := parent.listed[base]
				if !ok {
					add("hidden", fmt.Sprintf("%s exists but its parent's listing does not contain it", p))
				} else if isDir != n.dir {
					add("kind-mismatch", fmt.Sprintf("%s: listing says dir=%v, Stat says dir=%v", p, isDir, n.dir))
				}
			}
		} else if parent != nil && parent.exists && parent.dir {
			if _, ok := parent.listed[base]; ok {
				add("dangling-entry", fmt.Sprintf("%s is listed by its parent but cannot be Stat'ed", p))
			}
		}
	}
	return problems, probes
}
