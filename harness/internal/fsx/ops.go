// Package fsx is the differential engine: operation steps, their execution on any
// hackpadfs.FS through the package helpers, error classification, tree snapshots, the
// closure walker, the raw-os reference and the situation classifier.
package fsx

import (
	"errors"
	"fmt"
	"io"
	"io/fs"
	"os"
	"sort"
	"strings"
	"sync"
	"sync/atomic"
	"time"

	"github.com/hack-pad/hackpadfs"
)

// Step is one operation of a history. Namespace steps name paths; handle steps (K starting
// with "H.") address the handle in Slot that an earlier "Open" step filled.
type Step struct {
	K      string `json:"k"`
	P      string `json:"p,omitempty"`
	P2     string `json:"p2,omitempty"`
	Flag   int    `json:"flag,omitempty"`
	Perm   uint32 `json:"perm,omitempty"`
	Data   string `json:"data,omitempty"`
	MTime  int64  `json:"mtime,omitempty"`
	Slot   int    `json:"slot,omitempty"`
	N      int    `json:"n,omitempty"`
	Off    int64  `json:"off,omitempty"`
	Whence int    `json:"wh,omitempty"`
}

func FlagString(flag int) string {
	var s string
	switch flag & (os.O_RDONLY | os.O_WRONLY | os.O_RDWR) {
	case os.O_WRONLY:
		s = "wo"
	case os.O_RDWR:
		s = "rw"
	default:
		s = "ro"
	}
	if flag&os.O_CREATE != 0 {
		s += "+creat"
	}
	if flag&os.O_EXCL != 0 {
		s += "+excl"
	}
	if flag&os.O_TRUNC != 0 {
		s += "+trunc"
	}
	if flag&os.O_APPEND != 0 {
		s += "+app"
	}
	return s
}

func (s Step) String() string {
	switch s.K {
	case "Mkdir", "MkdirAll":
		return fmt.Sprintf("%s(%q,%#o)", s.K, s.P, s.Perm)
	case "OpenClose", "Open":
		if s.K == "Open" {
			return fmt.Sprintf("h%d=Open(%q,%s,%#o)", s.Slot, s.P, FlagString(s.Flag), s.Perm)
		}
		return fmt.Sprintf("OpenClose(%q,%s,%#o,%q)", s.P, FlagString(s.Flag), s.Perm, s.Data)
	case "WriteFullFile":
		return fmt.Sprintf("WriteFullFile(%q,%q,%#o)", s.P, s.Data, s.Perm)
	case "Rename":
		return fmt.Sprintf("Rename(%q,%q)", s.P, s.P2)
	case "Chmod":
		return fmt.Sprintf("Chmod(%q,%s)", s.P, fs.FileMode(s.Perm))
	case "Chtimes":
		if s.N == 1 {
			return fmt.Sprintf("Chtimes(%q,atime=zero,%d)", s.P, s.MTime)
		}
		return fmt.Sprintf("Chtimes(%q,%d)", s.P, s.MTime)
	case "H.Read", "H.ReadDir":
		return fmt.Sprintf("h%d.%s(%d)", s.Slot, s.K[2:], s.N)
	case "H.ReadAt":
		return fmt.Sprintf("h%d.ReadAt(%d,%d)", s.Slot, s.N, s.Off)
	case "H.Write":
		return fmt.Sprintf("h%d.Write(%q)", s.Slot, s.Data)
	case "H.WriteAt":
		return fmt.Sprintf("h%d.WriteAt(%q,%d)", s.Slot, s.Data, s.Off)
	case "H.Seek":
		return fmt.Sprintf("h%d.Seek(%d,%d)", s.Slot, s.Off, s.Whence)
	case "H.Truncate":
		return fmt.Sprintf("h%d.Truncate(%d)", s.Slot, s.Off)
	case "H.Chmod":
		return fmt.Sprintf("h%d.Chmod(%s)", s.Slot, fs.FileMode(s.Perm))
	}
	if strings.HasPrefix(s.K, "H.") {
		return fmt.Sprintf("h%d.%s()", s.Slot, s.K[2:])
	}
	return fmt.Sprintf("%s(%q)", s.K, s.P)
}

func HistoryString(h []Step) string {
	var parts []string
	for _, s := range h {
		parts = append(parts, s.String())
	}
	return strings.Join(parts, "; ")
}

// Result is what one step returned, normalised.
type Result struct {
	Err     string `json:"err"`           // class: ok, EOF, ErrNotExist, ..., other
	Typ     string `json:"typ,omitempty"` // PathError | LinkError | untyped
	EOp     string `json:"eop,omitempty"`
	EPath   string `json:"epath,omitempty"`
	EOld    string `json:"eold,omitempty"`
	ENew    string `json:"enew,omitempty"`
	ErrText string `json:"etext,omitempty"`
	N       int64  `json:"n,omitempty"`
	Data    string `json:"data,omitempty"`
	Panic   string `json:"panic,omitempty"`
	Skip    bool   `json:"skip,omitempty"` // nothing to do (empty handle slot)
}

func (r Result) OK() bool { return r.Err == "ok" && r.Panic == "" }

func (r Result) Outcome() string {
	if r.Panic != "" {
		return "panic"
	}
	return r.Err
}

func (r Result) String() string {
	if r.Panic != "" {
		return "panic: " + r.Panic
	}
	s := r.Err
	if r.Err != "ok" {
		s += fmt.Sprintf(" [%s %s]", r.Typ, r.ErrText)
	}
	if r.N != 0 || r.Data != "" {
		s += fmt.Sprintf(" n=%d data=%q", r.N, r.Data)
	}
	return s
}

// Class maps an error to the sentinel it matches.
func Class(err error) string {
	switch {
	case err == nil:
		return "ok"
	case err == io.EOF:
		return "EOF"
	case errors.Is(err, hackpadfs.ErrInvalid):
		return "ErrInvalid"
	case errors.Is(err, hackpadfs.ErrNotEmpty):
		return "ErrNotEmpty"
	case errors.Is(err, hackpadfs.ErrNotDir):
		return "ErrNotDir"
	case errors.Is(err, hackpadfs.ErrIsDir):
		return "ErrIsDir"
	case errors.Is(err, hackpadfs.ErrNotExist):
		return "ErrNotExist"
	case errors.Is(err, hackpadfs.ErrExist):
		return "ErrExist"
	case errors.Is(err, hackpadfs.ErrClosed):
		return "ErrClosed"
	case errors.Is(err, hackpadfs.ErrNotImplemented):
		return "ErrNotImplemented"
	case errors.Is(err, hackpadfs.ErrPermission):
		return "ErrPermission"
	case errors.Is(err, io.EOF):
		// io.Reader, io.ReaderAt and fs.ReadDirFile promise io.EOF itself (callers compare with ==; io.ReadAll, io.Copy and
		// bufio do): an error that merely wraps it is a different answer
		return "wrapped-EOF"
	}
	return "other"
}

// Returned errors belong to the caller: the library must not change them afterwards (a later call rewriting a shared
// error object changes what an earlier caller holds). With RecordErrors on, every error a step returned is kept with
// its text at that moment; ChangedErrors reports the ones that read differently now.
var (
	RecordErrors atomic.Bool
	errLogMu     sync.Mutex
	errLog       []heldErr
)

type heldErr struct {
	err  error
	text string
	step string
}

func holdErr(err error, step string) {
	errLogMu.Lock()
	if len(errLog) >= 4096 {
		errLog = errLog[2048:]
	}
	errLog = append(errLog, heldErr{err, err.Error(), step})
	errLogMu.Unlock()
}

// ChangedErrors returns "step: text then -> text now" for every held error whose text changed, and forgets all.
func ChangedErrors() []string {
	errLogMu.Lock()
	defer errLogMu.Unlock()
	var out []string
	for _, h := range errLog {
		if now := h.err.Error(); now != h.text {
			out = append(out, fmt.Sprintf("%s returned %q, which now reads %q", h.step, h.text, now))
		}
	}
	errLog = errLog[:0]
	return out
}

// A FileInfo is a value: what Stat returned describes the file at that moment and keeps saying so (os.FileInfo is a
// snapshot; callers compare an earlier info with a later one). With RecordInfos on, every info a Stat step returned is
// kept with what it said; ChangedInfos reports the ones that say something else now.
var (
	RecordInfos atomic.Bool
	infoLogMu   sync.Mutex
	infoLog     []heldInfo
)

type heldInfo struct {
	info fs.FileInfo
	said string
	step string
}

func infoSays(info fs.FileInfo) string {
	return fmt.Sprintf("%s size=%d mode=%s mtime=%d dir=%v", info.Name(), info.Size(), info.Mode(), info.ModTime().UnixNano(), info.IsDir())
}

func holdInfo(info fs.FileInfo, step string) {
	if !RecordInfos.Load() || info == nil {
		return
	}
	defer func() { _ = recover() }()
	infoLogMu.Lock()
	if len(infoLog) >= 4096 {
		infoLog = infoLog[2048:]
	}
	infoLog = append(infoLog, heldInfo{info, infoSays(info), step})
	infoLogMu.Unlock()
}

// entryAsInfo lets a DirEntry's own answers (name, kind) be held like a FileInfo: an entry is what the listing saw.
type entryAsInfo struct{ e fs.DirEntry }

func (e entryAsInfo) Name() string       { return e.e.Name() }
func (e entryAsInfo) Size() int64        { return 0 }
func (e entryAsInfo) Mode() fs.FileMode  { return e.e.Type() }
func (e entryAsInfo) ModTime() time.Time { return time.Time{} }
func (e entryAsInfo) IsDir() bool        { return e.e.IsDir() }
func (e entryAsInfo) Sys() any           { return nil }

// holdEntries keeps the entries of a listing, and the FileInfo each hands out right now, for ChangedInfos.
func holdEntries(entries []fs.DirEntry, step string) {
	if !RecordInfos.Load() {
		return
	}
	for _, e := range entries {
		if e == nil {
			continue
		}
		func() {
			defer func() { _ = recover() }()
			holdInfo(entryAsInfo{e}, step+" entry "+e.Name())
			if info, err := e.Info(); err == nil && info != nil {
				holdInfo(info, step+" entry "+e.Name()+" .Info()")
			}
		}()
	}
}

// ChangedInfos returns "step: said then -> says now" for every held info whose answers changed, and forgets all.
func ChangedInfos() []string {
	infoLogMu.Lock()
	defer infoLogMu.Unlock()
	var out []string
	for _, h := range infoLog {
		func() {
			defer func() {
				if r := recover(); r != nil {
					out = append(out, fmt.Sprintf("the info returned by %s (%s) panics when asked again: %v", h.step, h.said, r))
				}
			}()
			if now := infoSays(h.info); now != h.said {
				out = append(out, fmt.Sprintf("the info returned by %s said %q and now says %q", h.step, h.said, now))
			}
		}()
	}
	infoLog = infoLog[:0]
	return out
}

func fillErr(r *Result, err error) {
	r.Err = Class(err)
	if err == nil {
		return
	}
	r.ErrText = err.Error()
	if RecordErrors.Load() {
		holdErr(err, "a call")
	}
	if len(r.ErrText) > 160 {
		r.ErrText = r.ErrText[:160]
	}
	switch e := err.(type) {
	case *hackpadfs.PathError:
		r.Typ, r.EOp, r.EPath = "PathError", e.Op, e.Path
	case *hackpadfs.LinkError:
		r.Typ, r.EOp, r.EOld, r.ENew = "LinkError", e.Op, e.Old, e.New
	case *os.LinkError:
		r.Typ, r.EOp, r.EOld, r.ENew = "LinkError", e.Op, e.Old, e.New
	default:
		r.Typ = "untyped"
	}
}

// ModeBits are the mode bits the comparison looks at.
const ModeBits = fs.ModePerm | fs.ModeSetuid | fs.ModeSetgid | fs.ModeSticky

func kindOf(m fs.FileMode) string {
	switch {
	case m.IsDir():
		return "d"
	case m.IsRegular():
		return "f"
	}
	return "?" + m.Type().String()
}

// InfoString normalises a FileInfo: name, kind, mode bits, size of regular files, and the mtime when asked for.
func InfoString(info fs.FileInfo, withMTime bool) string {
	if info == nil {
		return "<nil info>"
	}
	s := fmt.Sprintf("%s %s %s", info.Name(), kindOf(info.Mode()), (info.Mode() & ModeBits).String())
	if info.Mode().IsRegular() {
		s += fmt.Sprintf(" size=%d", info.Size())
	}
	if withMTime {
		s += fmt.Sprintf(" mtime=%d", info.ModTime().UnixNano())
	}
	return s
}

// Handles is the handle table of one side of a history.
type Handles struct {
	F []hackpadfs.File
	// closed[slot]: an H.Close step has been issued on the handle. The handle stays in its slot (calls on closed handles are
	// steps, too), but the harness's own housekeeping does not close it again: how often a handle is closed is the history's
	// business alone.
	closed []bool
}

func (h *Handles) get(slot int) hackpadfs.File {
	if slot < 0 || slot >= len(h.F) {
		return nil
	}
	return h.F[slot]
}

func (h *Handles) set(slot int, f hackpadfs.File) {
	for len(h.F) <= slot {
		h.F = append(h.F, nil)
	}
	for len(h.closed) <= slot {
		h.closed = append(h.closed, false)
	}
	h.F[slot] = f
	h.closed[slot] = false
}

func (h *Handles) isClosed(slot int) bool { return slot >= 0 && slot < len(h.closed) && h.closed[slot] }

// CloseAll closes what is still open (errors ignored, panics contained).
func (h *Handles) CloseAll() {
	for i, f := range h.F {
		if f != nil && h.isClosed(i) {
			h.F[i] = nil
			continue
		}
		if f != nil {
			func() {
				defer func() { _ = recover() }()
				_ = f.Close()
			}()
			h.F[i] = nil
		}
	}
}

// MTimeSet is the set of paths whose mtime was set by Chtimes and not disturbed since.
type MTimeSet map[string]bool

// Touch forgets every tracked path that is p, an ancestor of p or below p.
func (m MTimeSet) Touch(p string) {
	for k := range m {
		if k == p || strings.HasPrefix(k, p+"/") || strings.HasPrefix(p, k+"/") || k == "." || p == "." {
			delete(m, k)
		}
	}
}

// Exec runs one step on fsys through the package-level helpers.
func Exec(fsys hackpadfs.FS, st Step, hs *Handles, mt MTimeSet) (res Result) {
	defer func() {
		if r := recover(); r != nil {
			res.Panic = fmt.Sprint(r)
			if len(res.Panic) > 200 {
				res.Panic = res.Panic[:200]
			}
			res.Err = "panic"
		}
	}()
	switch st.K {
	case "Mkdir":
		fillErr(&res, hackpadfs.Mkdir(fsys, st.P, fs.FileMode(st.Perm)))
	case "MkdirAll":
		fillErr(&res, hackpadfs.MkdirAll(fsys, st.P, fs.FileMode(st.Perm)))
	case "Create":
		f, err := hackpadfs.Create(fsys, st.P)
		fillErr(&res, err)
		if err == nil {
			_ = f.Close()
		}
	case "OpenClose":
		f, err := hackpadfs.OpenFile(fsys, st.P, st.Flag, fs.FileMode(st.Perm))
		fillErr(&res, err)
		if err != nil {
			return
		}
		defer func() { _ = f.Close() }()
		if info, serr := f.Stat(); serr != nil || info.IsDir() {
			return // byte I/O on directory handles belongs to C02
		}
		acc := st.Flag & (os.O_WRONLY | os.O_RDWR)
		if acc != 0 && st.Data != "" {
			buf := []byte(st.Data)
			n, werr := hackpadfs.WriteFile(f, buf)
			scribble(buf)
			res.N = int64(n)
			res.Data = "write:" + okFail(werr)
		} else if acc == 0 {
			buf := make([]byte, 24)
			// (not io.ReadFull: its own io.ErrUnexpectedEOF for a short file cannot be told from a handle that failed with that value)
			n := 0
			var rerr error
			for tries := 0; n < len(buf) && rerr == nil && tries < 64; tries++ {
				var m int
				m, rerr = f.Read(buf[n:])
				n += m
			}
			res.Data = "read:" + string(buf[:n])
			if rerr != nil && rerr != io.EOF {
				res.Data = "read:fail"
			}
		}
	case "WriteFullFile":
		buf := []byte(st.Data)
		fillErr(&res, hackpadfs.WriteFullFile(fsys, st.P, buf, fs.FileMode(st.Perm)))
		scribble(buf)
	case "Remove":
		fillErr(&res, hackpadfs.Remove(fsys, st.P))
	case "RemoveAll":
		fillErr(&res, hackpadfs.RemoveAll(fsys, st.P))
	case "Rename":
		fillErr(&res, hackpadfs.Rename(fsys, st.P, st.P2))
	case "Symlink":
		fillErr(&res, hackpadfs.Symlink(fsys, st.P, st.P2))
	case "Chmod":
		fillErr(&res, hackpadfs.Chmod(fsys, st.P, fs.FileMode(st.Perm)))
	case "Chown":
		uid, gid := 0, 0
		if st.N != 0 {
			uid, gid = st.N, int(st.Off) // (N, Off) = (uid, gid)
		}
		fillErr(&res, hackpadfs.Chown(fsys, st.P, uid, gid))
	case "Chtimes":
		t := time.Unix(st.MTime, 0)
		at := t
		if st.N == 1 {
			at = time.Time{} // the zero time: "leave the access time alone" for os.Chtimes; the modification time is still set
		}
		if st.N == 2 {
			at, t = time.Time{}, time.Time{} // both left alone: nothing to do, but the name is looked at all the same
		}
		fillErr(&res, hackpadfs.Chtimes(fsys, st.P, at, t))
	case "Stat", "Lstat", "LstatOrStat":
		var info fs.FileInfo
		var err error
		switch st.K {
		case "Stat":
			info, err = hackpadfs.Stat(fsys, st.P)
		case "Lstat":
			info, err = hackpadfs.Lstat(fsys, st.P)
		default:
			info, err = hackpadfs.LstatOrStat(fsys, st.P)
		}
		fillErr(&res, err)
		if err == nil {
			holdInfo(info, st.String())
			res.Data = InfoString(info, mt != nil && mt[st.P])
			if st.P == "." {
				res.Data = "root " + kindOf(info.Mode())
			}
		}
	case "ReadDir":
		entries, err := hackpadfs.ReadDir(fsys, st.P)
		fillErr(&res, err)
		if err == nil {
			res.Data = EntriesString(entries)
			holdEntries(entries, st.String())
			for i := range entries {
				entries[i] = nil // the returned slice is the caller's
			}
		} else if len(entries) > 0 {
			res.Data = "partial:" + EntriesString(entries) // like os.ReadDir: what was read before the failure comes with the error
		}
	case "ReadFile":
		b, err := hackpadfs.ReadFile(fsys, st.P)
		fillErr(&res, err)
		if err == nil {
			res.Data = string(b)
			scribble(b) // so are the returned bytes
		}
	case "Sub":
		_, err := hackpadfs.Sub(fsys, st.P)
		fillErr(&res, err)
	case "SubRename": // Rename P2 -> P2+"-renamed" inside a view of directory P
		view, err := hackpadfs.Sub(fsys, st.P)
		if err != nil {
			fillErr(&res, err)
			res.Data = "first-level-failed"
			break
		}
		fillErr(&res, hackpadfs.Rename(view, st.P2, st.P2+"-renamed"))
	case "SubSymlink": // inside a view of directory P: a link P2+"-lnk" to P2; then the link is read through the view
		view, err := hackpadfs.Sub(fsys, st.P)
		if err != nil {
			fillErr(&res, err)
			res.Data = "first-level-failed"
			break
		}
		err = hackpadfs.Symlink(view, st.P2, st.P2+"-lnk")
		fillErr(&res, err)
		if err == nil {
			// where the link leads: what it names is the view's own P2, so reading it gives that file's bytes
			if b, rerr := hackpadfs.ReadFile(view, st.P2+"-lnk"); rerr == nil {
				res.Data = "link reads: " + string(b)
			} else {
				res.Data = "link reads: " + Class(rerr)
			}
		}
	case "SubSub": // a view of directory P2 taken from a view of directory P; the result is that of the second call
		view, err := hackpadfs.Sub(fsys, st.P)
		if err != nil {
			fillErr(&res, err)
			res.Data = "first-level-failed"
			break
		}
		inner, err := hackpadfs.Sub(view, st.P2)
		fillErr(&res, err)
		if err == nil && st.N == 0 { // (N=1: only the two Sub calls, no listing)
			// what the nested view shows at its top (names only): it must be the directory P/P2
			if entries, lerr := hackpadfs.ReadDir(inner, "."); lerr == nil {
				res.Data = EntriesString(entries)
			} else {
				res.Data = "list:" + okFail(lerr)
			}
		}
	case "Open":
		if old := hs.get(st.Slot); old != nil {
			if !hs.isClosed(st.Slot) {
				_ = old.Close()
			}
			hs.set(st.Slot, nil)
		}
		f, err := hackpadfs.OpenFile(fsys, st.P, st.Flag, fs.FileMode(st.Perm))
		fillErr(&res, err)
		if err == nil {
			hs.set(st.Slot, f)
		}
	default:
		if strings.HasPrefix(st.K, "H.") {
			f := hs.get(st.Slot)
			if f == nil {
				res.Skip = true
				res.Err = "ok"
				return
			}
			execHandle(f, st, &res)
			if st.K == "H.Close" {
				for len(hs.closed) <= st.Slot {
					hs.closed = append(hs.closed, false)
				}
				hs.closed[st.Slot] = true
			}
			return
		}
		panic("fsx: unknown step kind " + st.K)
	}
	return
}

// CreateKeep is the Create step without the Close: the caller goes on with the handle (see HandleRoundTrip).
func CreateKeep(fsys hackpadfs.FS, name string) (res Result, f hackpadfs.File) {
	defer func() {
		if r := recover(); r != nil {
			res.Panic, res.Err = fmt.Sprint(r), "panic"
		}
	}()
	f, err := hackpadfs.Create(fsys, name)
	fillErr(&res, err)
	return res, f
}

// HandleRoundTrip writes two bytes through a fresh handle, moves back and reads them again: what a handle that is open
// for reading AND writing (os.Create's) can do.
func HandleRoundTrip(f hackpadfs.File) (out string) {
	defer func() {
		if r := recover(); r != nil {
			out = "panic: " + fmt.Sprint(r)
		}
	}()
	_, werr := hackpadfs.WriteFile(f, []byte("cr"))
	_, serr := hackpadfs.SeekFile(f, 0, io.SeekStart)
	buf := make([]byte, 4)
	n, rerr := f.Read(buf)
	if rerr == io.EOF {
		rerr = nil
	}
	return fmt.Sprintf("handle: write=%s seek=%s read=%q,%s", okFail(werr), okFail(serr), buf[:n], okFail(rerr))
}

// scribble overwrites a buffer that was handed to a write call: like the os package, a file system must have copied
// what it needs by the time the call returns (callers reuse their buffers).
func scribble(buf []byte) {
	for i := range buf {
		buf[i] = '#'
	}
}

func okFail(err error) string {
	if err == nil {
		return "ok"
	}
	return "fail"
}

// EntriesString lists entries in the order returned: "name:kind".
func EntriesString(entries []fs.DirEntry) string {
	var parts []string
	for _, e := range entries {
		k := "f"
		if e.IsDir() {
			k = "d"
		}
		parts = append(parts, e.Name()+":"+k)
	}
	return strings.Join(parts, ",")
}

func execHandle(f hackpadfs.File, st Step, res *Result) {
	switch st.K {
	case "H.Read":
		buf := make([]byte, st.N)
		n, err := f.Read(buf)
		fillErr(res, err)
		res.N = int64(n)
		if n >= 0 && n <= len(buf) {
			res.Data = string(buf[:n])
		}
	case "H.ReadAt":
		buf := make([]byte, st.N)
		n, err := hackpadfs.ReadAtFile(f, buf, st.Off)
		fillErr(res, err)
		res.N = int64(n)
		if n >= 0 && n <= len(buf) {
			res.Data = string(buf[:n])
		}
	case "H.Write":
		buf := []byte(st.Data)
		n, err := hackpadfs.WriteFile(f, buf)
		scribble(buf)
		fillErr(res, err)
		res.N = int64(n)
	case "H.WriteAt":
		buf := []byte(st.Data)
		n, err := hackpadfs.WriteAtFile(f, buf, st.Off)
		scribble(buf)
		fillErr(res, err)
		res.N = int64(n)
	case "H.Seek":
		n, err := hackpadfs.SeekFile(f, st.Off, st.Whence)
		fillErr(res, err)
		if err == nil {
			res.N = n
		}
	case "H.Truncate":
		fillErr(res, hackpadfs.TruncateFile(f, st.Off))
	case "H.Stat":
		info, err := f.Stat()
		fillErr(res, err)
		if err == nil {
			holdInfo(info, st.String())
			res.Data = InfoString(info, false)
		}
	case "H.ReadDir":
		entries, err := hackpadfs.ReadDirFile(f, st.N)
		fillErr(res, err)
		res.N = int64(len(entries))
		names := []string{}
		for _, e := range entries {
			k := "f"
			if e.IsDir() {
				k = "d"
			}
			names = append(names, e.Name()+":"+k)
		}
		sort.Strings(names) // page order is unspecified for handle reads (os returns directory order)
		res.Data = strings.Join(names, ",")
		holdEntries(entries, st.String())
		for i := range entries {
			entries[i] = nil // the returned slice is the caller's: callers filter and reorder it in place
		}
	case "H.Sync":
		fillErr(res, hackpadfs.SyncFile(f))
	case "H.Chmod":
		fillErr(res, hackpadfs.ChmodFile(f, fs.FileMode(st.Perm)))
	case "H.Close":
		fillErr(res, f.Close())
	case "H.Chtimes":
		t := time.Unix(st.MTime, 0)
		fillErr(res, hackpadfs.ChtimesFile(f, t, t))
	default:
		panic("fsx: unknown handle step " + st.K)
	}
}
