package fsx

import (
	"fmt"
	"math/rand"
	"os"
	"path"
	"sort"
	"strings"

	"hpverif/internal/kvs"

	"github.com/hack-pad/hackpadfs"
	"github.com/hack-pad/hackpadfs/keyvalue"
	"github.com/hack-pad/hackpadfs/mem"
)

// Names is the path alphabet: a, b, c, the string-prefix look-alike ab and a dot-leading name.
var Names = []string{"a", "b", "c", "ab", ".a"}

// Perms are the permission arguments used for creation.
var Perms = []uint32{0, 0o400, 0o600, 0o644, 0o755, 0o777}

// ChmodModes are the Chmod arguments (including the special bits Chmod may set). Setgid is left out: on Linux
// directories created inside a setgid directory inherit the bit, an OS policy outside the property.
var ChmodModes = []uint32{0, 0o400, 0o600, 0o644, 0o755, 0o777, uint32(os.ModeSticky) | 0o755, uint32(os.ModeSetuid) | 0o755}

// AllFlags returns the 48 OpenFile flag sets.
func AllFlags() []int {
	var out []int
	for _, acc := range []int{os.O_RDONLY, os.O_WRONLY, os.O_RDWR} {
		for bits := 0; bits < 16; bits++ {
			f := acc
			if bits&1 != 0 {
				f |= os.O_CREATE
			}
			if bits&2 != 0 {
				f |= os.O_EXCL
			}
			if bits&4 != 0 {
				f |= os.O_TRUNC
			}
			if bits&8 != 0 {
				f |= os.O_APPEND
			}
			out = append(out, f)
		}
	}
	return out
}

// PathSit classifies a path against the (reference) file system: root, noparent, belowfile, missing, file, emptydir, dir.
func PathSit(ref hackpadfs.FS, p string) string {
	if p == "." {
		return "root"
	}
	elems := strings.Split(p, "/")
	for i := 1; i < len(elems); i++ {
		anc := strings.Join(elems[:i], "/")
		info, err := hackpadfs.Stat(ref, anc)
		if err != nil {
			return "noparent"
		}
		if !info.IsDir() {
			return "belowfile"
		}
	}
	info, err := hackpadfs.Stat(ref, p)
	if err != nil {
		return "missing"
	}
	if !info.IsDir() {
		return "file"
	}
	entries, err := hackpadfs.ReadDir(ref, p)
	if err == nil && len(entries) == 0 {
		return "emptydir"
	}
	return "dir"
}

// Relation of the two names of a rename.
func Relation(a, b string) string {
	switch {
	case a == b:
		return "same"
	case a == "." || strings.HasPrefix(b, a+"/"):
		return "dst-in-src"
	case b == "." || strings.HasPrefix(a, b+"/"):
		return "src-in-dst"
	}
	return "unrelated"
}

// Situation is the abstract situation of a step, a function of the reference state before the call.
func Situation(ref hackpadfs.FS, st Step) string {
	switch st.K {
	case "Rename", "Symlink":
		return fmt.Sprintf("src=%s,dst=%s,rel=%s", PathSit(ref, st.P), PathSit(ref, st.P2), Relation(st.P, st.P2))
	case "OpenClose", "Open":
		return fmt.Sprintf("%s,target=%s", FlagString(st.Flag), PathSit(ref, st.P))
	}
	return "target=" + PathSit(ref, st.P)
}

// Subject is one file system under test.
type Subject struct {
	Name   string
	FS     hackpadfs.FS
	Budget *kvs.Budget // nil when store calls cannot be counted (the unwrapped mem.FS)
	Plain  *kvs.Plain
}

// StoreCallBudget is the number of store calls one operation on a tree of <= 40 entries may make.
const StoreCallBudget = 3000

// NewSubject builds: "mem" (mem.FS as shipped), "memc" (keyvalue.FS over the real mem store behind a
// call-counting wrapper), "kvplain" (keyvalue.FS over the harness's plain Store, counted).
func NewSubject(name string) (*Subject, error) {
	switch name {
	case "mem":
		m, err := mem.NewFS()
		return &Subject{Name: name, FS: m}, err
	case "memc":
		b := &kvs.Budget{Max: StoreCallBudget}
		k, err := keyvalue.NewFS(kvs.WrapTxn(mem.NewStoreVerif(), b.Hook))
		return &Subject{Name: name, FS: k, Budget: b}, err
	case "kvplain":
		b := &kvs.Budget{Max: StoreCallBudget}
		p := kvs.NewPlain()
		p.Hook = b.Hook
		k, err := keyvalue.NewFS(p)
		return &Subject{Name: name, FS: k, Budget: b, Plain: p}, err
	}
	return nil, fmt.Errorf("unknown subject %q", name)
}

// Gen generates steps.
type Gen struct {
	R     *rand.Rand
	Depth int
	Tag   string // makes file contents unique per history
	n     int
}

func NewGen(seed int64, tag string) *Gen {
	return &Gen{R: rand.New(rand.NewSource(seed)), Depth: 3, Tag: tag}
}

// Content returns contents that identify the write that produced them.
func (g *Gen) Content() string {
	g.n++
	s := fmt.Sprintf("%s.%d", g.Tag, g.n)
	switch g.R.Intn(6) {
	case 0:
		return ""
	case 1:
		return s + strings.Repeat("x", g.R.Intn(40))
	}
	return s
}

func (g *Gen) name() string { return Names[g.R.Intn(len(Names))] }

// Path picks a path: mostly an existing one or a new child of an existing directory.
func (g *Gen) Path(tree Snap) string {
	var all, dirs []string
	for p, e := range tree {
		all = append(all, p)
		if e.Kind == "d" {
			dirs = append(dirs, p)
		}
	}
	sort.Strings(all)
	sort.Strings(dirs)
	join := func(d, n string) string {
		if d == "." {
			return n
		}
		return d + "/" + n
	}
	switch k := g.R.Intn(20); {
	case k < 9 && len(all) > 0:
		return all[g.R.Intn(len(all))]
	case k < 15 && len(dirs) > 0:
		return join(dirs[g.R.Intn(len(dirs))], g.name())
	case k < 17 && len(all) > 0: // below anything (also below files)
		return join(all[g.R.Intn(len(all))], g.name())
	default:
		d := 1 + g.R.Intn(g.Depth)
		var el []string
		for i := 0; i < d; i++ {
			el = append(el, g.name())
		}
		return strings.Join(el, "/")
	}
}

func (g *Gen) perm() uint32 { return Perms[g.R.Intn(len(Perms))] }

// Namespace returns a random namespace step (C01 alphabet). allowRoot also permits removing/renaming the root (C03).
func (g *Gen) Namespace(tree Snap, allowRoot bool) Step {
	for {
		st := g.namespace(tree)
		if !allowRoot {
			if (st.K == "Remove" || st.K == "RemoveAll" || st.K == "Rename") && st.P == "." {
				continue
			}
			if st.K == "Rename" && st.P2 == "." {
				continue
			}
		}
		return st
	}
}

func (g *Gen) namespace(tree Snap) Step {
	p := g.Path(tree)
	switch k := g.R.Intn(100); {
	case k < 12:
		return Step{K: "Mkdir", P: p, Perm: g.perm()}
	case k < 19:
		return Step{K: "MkdirAll", P: p, Perm: g.perm()}
	case k < 39:
		fl := AllFlags()
		f := fl[g.R.Intn(len(fl))]
		if g.R.Intn(3) == 0 {
			f |= os.O_CREATE
		}
		return Step{K: "OpenClose", P: p, Flag: f, Perm: g.perm(), Data: g.Content()}
	case k < 51:
		return Step{K: "WriteFullFile", P: p, Data: g.Content(), Perm: g.perm()}
	case k < 59:
		return Step{K: "Remove", P: p}
	case k < 63:
		return Step{K: "RemoveAll", P: p}
	case k < 78:
		p2 := g.Path(tree)
		switch g.R.Intn(8) {
		case 0:
			p2 = p
		case 1:
			if p != "." {
				p2 = p + "/" + g.name()
			}
		case 2:
			if d := path.Dir(p); d != "." {
				p2 = d
			}
		}
		return Step{K: "Rename", P: p, P2: p2}
	case k < 83:
		return Step{K: "Chmod", P: p, Perm: ChmodModes[g.R.Intn(len(ChmodModes))]}
	case k < 87:
		g.n++
		return Step{K: "Chtimes", P: p, MTime: 1_000_000_000 + int64(g.n)*3600 + int64(g.R.Intn(3000)), N: g.R.Intn(3) / 2}
	case k < 92:
		return Step{K: "Stat", P: p}
	case k < 96:
		return Step{K: "ReadDir", P: p}
	default:
		return Step{K: "ReadFile", P: p}
	}
}

// Mutates reports whether a step may change the tree, and which paths it names.
func Mutates(st Step) bool {
	switch st.K {
	case "Stat", "Lstat", "LstatOrStat", "ReadDir", "ReadFile", "Sub":
		return false
	case "OpenClose", "Open":
		return st.Flag&(os.O_WRONLY|os.O_RDWR|os.O_CREATE|os.O_TRUNC) != 0
	}
	return true
}

// Setup histories that reach each target situation; the target path is returned.
func SituationSetup(sit string, base string) ([]Step, string) {
	b := base
	switch sit {
	case "root":
		return nil, "."
	case "missing":
		return nil, b
	case "file":
		return []Step{{K: "WriteFullFile", P: b, Data: "F-" + b, Perm: 0o644}}, b
	case "emptydir":
		return []Step{{K: "Mkdir", P: b, Perm: 0o755}}, b
	case "dir":
		return []Step{{K: "Mkdir", P: b, Perm: 0o755}, {K: "WriteFullFile", P: b + "/c", Data: "C-" + b, Perm: 0o600}}, b
	case "deepdir":
		return []Step{{K: "Mkdir", P: b, Perm: 0o755}, {K: "Mkdir", P: b + "/b", Perm: 0o755}, {K: "WriteFullFile", P: b + "/b/c", Data: "D-" + b, Perm: 0o600}}, b
	case "belowfile":
		return []Step{{K: "WriteFullFile", P: b, Data: "F-" + b, Perm: 0o644}}, b + "/b"
	case "noparent":
		return nil, b + "/b"
	case "nested-missing":
		return []Step{{K: "Mkdir", P: b, Perm: 0o755}}, b + "/b"
	case "nested-file":
		return []Step{{K: "Mkdir", P: b, Perm: 0o755}, {K: "WriteFullFile", P: b + "/b", Data: "N-" + b, Perm: 0o644}}, b + "/b"
	case "nested-dir":
		return []Step{{K: "Mkdir", P: b, Perm: 0o755}, {K: "Mkdir", P: b + "/b", Perm: 0o700}}, b + "/b"
	}
	panic("unknown situation " + sit)
}

// TargetSituations is the list the matrix iterates over.
var TargetSituations = []string{"root", "missing", "file", "emptydir", "dir", "deepdir", "belowfile", "noparent", "nested-missing", "nested-file", "nested-dir"}
