// Package blobprog generates blob programs, holds the []byte reference model with explicit
// aliasing and executes programs against any blob.Blob implementation. It has no dependency
// on the rest of the harness so that the same code runs natively and under GOOS=js.
package blobprog

import (
	"bytes"
	"fmt"
	"math"
	"math/rand"
	"runtime"
	"strings"
	"sync/atomic"
	"time"

	"github.com/hack-pad/hackpadfs/keyvalue/blob"
)

// Call is one blob operation. H names the receiver handle; H2 the source handle of a Set (-1: a fresh literal of Lit bytes).
type Call struct {
	Op   string `json:"op"` // View Slice Set Grow Truncate Bytes
	H    int    `json:"h"`
	H2   int    `json:"h2,omitempty"`
	Lit  int    `json:"lit,omitempty"`
	A, B int64
}

func (c Call) String() string {
	switch c.Op {
	case "View", "Slice":
		return fmt.Sprintf("h%d.%s(%d,%d)", c.H, c.Op, c.A, c.B)
	case "Set":
		if c.H2 < 0 {
			return fmt.Sprintf("h%d.Set(lit%d,%d)", c.H, c.Lit, c.A)
		}
		return fmt.Sprintf("h%d.Set(h%d,%d)", c.H, c.H2, c.A)
	case "Bytes":
		return fmt.Sprintf("h%d.Bytes()", c.H)
	}
	return fmt.Sprintf("h%d.%s(%d)", c.H, c.Op, c.A)
}

// Program: handle 0 is a fresh blob of Len bytes (10, 11, ...); View/Slice results get the next handle numbers.
type Program struct {
	Len   int    `json:"len"`
	Calls []Call `json:"calls"`
}

func (p Program) String() string {
	var parts []string
	for _, c := range p.Calls {
		parts = append(parts, c.String())
	}
	return fmt.Sprintf("len=%d: %s", p.Len, strings.Join(parts, "; "))
}

func initial(n int) []byte {
	b := make([]byte, n)
	for i := range b {
		b[i] = byte(10 + i)
	}
	return b
}

func literal(n int) []byte {
	b := make([]byte, n)
	for i := range b {
		b[i] = byte(200 + i%50)
	}
	return b
}

// ---- model

type mroot struct {
	// exact (byte-slice implementation only): data is the whole backing array, its length the known capacity; handles are
	// [start,end) windows into it, exactly like Go slices (a Truncate re-slices, a Grow within the capacity writes zeros
	// into the array - also where other windows show it - and a Grow beyond it moves the handle to a new array of
	// unknown capacity, leaving the old one untouched)
	exact bool
	data  []byte
	// kin: arrays that this one may or may not still share memory with (a blob that was resized may have moved to a new
	// array, or not). Nothing is known about how a LATER write shows through to them; until such a write, their
	// handles keep exactly what they had - in particular their own lengths.
	kin []*mroot
}

type mhandle struct {
	root       *mroot
	start, end int
	detached   bool // an aliasing handle was resized: contents unspecified from here on
	invalid    bool // the call that should have produced this handle failed (as it had to)
}

func (h *mhandle) content() []byte { return h.root.data[h.start:h.end] }

// Issue is a refutation found while executing a program.
type Issue struct {
	Sig    string
	Detail string
}

// Options describe the subject implementation.
type Options struct {
	Impl      string                 // "bytes" | "idbblob" | "minimal"
	New       func([]byte) blob.Blob // constructs the subject from a private copy of the bytes
	StrictErr bool                   // bad arguments must produce an error (byte-slice implementation)
	NoAlias   bool                   // handle 0 is a minimal Blob (Bytes+Len only): helpers work on copies, so results are independent and mutations of h0 are no-ops
	Timeout   time.Duration          // watchdog for calls that may self-deadlock
}

// Stats counts what the monitor observed.
type Stats struct {
	Calls, InRange, BadArgs, AliasChecks, SelfSets, ContentChecks, ExactResizes int
}

func argClass(c Call, l int) string {
	cl := func(v int64) string {
		switch {
		case v < 0:
			return "neg"
		case v > int64(l):
			return "past"
		case v == int64(l):
			return "len"
		case v == 0:
			return "0"
		}
		return "mid"
	}
	switch c.Op {
	case "View", "Slice":
		s := cl(c.A) + "," + cl(c.B)
		if c.A > c.B {
			s += ",rev"
		}
		return s
	case "Set", "Truncate":
		return cl(c.A)
	case "Grow":
		if c.A < 0 {
			return "neg"
		}
		if c.A == 0 {
			return "0"
		}
		return "pos"
	}
	return ""
}

var hangSeen atomic.Bool

type callOutcome struct {
	b     blob.Blob
	n     int
	err   error
	bytes []byte
	panic string
	hung  bool
	dump  string
}

func invoke(f func(*callOutcome), guard bool, timeout time.Duration) (o callOutcome) {
	run := func(o *callOutcome) {
		defer func() {
			if r := recover(); r != nil {
				o.panic = fmt.Sprint(r)
			}
		}()
		f(o)
	}
	if !guard {
		run(&o)
		return o
	}
	done := make(chan callOutcome, 1)
	go func() {
		var o callOutcome
		run(&o)
		done <- o
	}()
	if timeout <= 0 {
		timeout = 3 * time.Second
	}
	select {
	case o = <-done:
		return o
	case <-time.After(timeout):
		buf := make([]byte, 1<<16)
		n := runtime.Stack(buf, true)
		o.hung = true
		o.dump = string(buf[:n])
		return o
	}
}

// Exec runs the program on the subject next to the model and returns every disagreement.
func Exec(p Program, opt Options, st *Stats) []Issue {
	var issues []Issue
	add := func(c Call, l int, got, want, detail string) {
		sig := fmt.Sprintf("C19|%s|%s|%s|got=%s,want=%s", opt.Impl, c.Op, argClass(c, l), got, want)
		for _, i := range issues {
			if i.Sig == sig {
				return
			}
		}
		issues = append(issues, Issue{Sig: sig, Detail: detail + " in program " + p.String()})
	}
	exactMode := opt.Impl == "bytes" && !opt.NoAlias
	root := &mroot{data: initial(p.Len), exact: exactMode}
	model := []*mhandle{{root: root, start: 0, end: p.Len}}
	subj := []blob.Blob{opt.New(initial(p.Len))}

	// verify compares every live, attached handle with the model.
	verify := func(c Call, l int, when string) bool {
		ok := true
		for i, h := range model {
			if h.invalid || subj[i] == nil {
				continue
			}
			o := invoke(func(o *callOutcome) { o.n = subj[i].Len(); o.bytes = subj[i].Bytes() }, false, 0)
			if o.panic != "" {
				add(c, l, "panic", "bytes", fmt.Sprintf("%s: h%d.Len/Bytes panicked: %s", when, i, o.panic))
				return false
			}
			if h.detached {
				continue
			}
			if st != nil {
				st.ContentChecks++
			}
			want := h.content()
			if o.n != len(want) || !bytes.Equal(o.bytes, want) {
				add(c, l, "data", "model", fmt.Sprintf("%s: h%d holds len=%d %v, model len=%d %v", when, i, o.n, o.bytes, len(want), want))
				ok = false
			}
		}
		return ok
	}

	for _, c := range p.Calls {
		if c.H >= len(model) || model[c.H].invalid || subj[c.H] == nil {
			continue
		}
		h := model[c.H]
		recv := subj[c.H]
		isMin := opt.NoAlias && c.H == 0
		l := h.end - h.start
		if h.detached {
			l = recv.Len()
		}
		if st != nil {
			st.Calls++
		}
		switch c.Op {
		case "View", "Slice":
			inRange := c.A >= 0 && c.B >= 0 && c.A <= int64(l) && c.B <= int64(l) && c.A <= c.B
			o := invoke(func(o *callOutcome) {
				if c.Op == "View" {
					o.b, o.err = blob.View(recv, c.A, c.B)
				} else {
					o.b, o.err = blob.Slice(recv, c.A, c.B)
				}
			}, false, 0)
			nh := &mhandle{root: h.root, invalid: true}
			var nb blob.Blob
			switch {
			case o.panic != "":
				want := "error"
				if inRange {
					want = "ok"
				}
				add(c, l, "panic", want, fmt.Sprintf("%s panicked: %s", c, o.panic))
			case inRange:
				if st != nil {
					st.InRange++
				}
				if o.err != nil || o.b == nil {
					add(c, l, "error", "ok", fmt.Sprintf("%s failed: %v", c, o.err))
					break
				}
				nb = o.b
				switch {
				case h.detached:
					nh = &mhandle{root: h.root, detached: true}
				case c.Op == "View" && !isMin:
					nh = &mhandle{root: h.root, start: h.start + int(c.A), end: h.start + int(c.B)}
				default:
					cp := append([]byte(nil), h.content()[c.A:c.B]...)
					nh = &mhandle{root: &mroot{data: cp, exact: exactMode}, start: 0, end: len(cp)} // (a copy is allocated at exactly its length)
				}
			default:
				if st != nil {
					st.BadArgs++
				}
				if o.err == nil {
					if opt.StrictErr {
						add(c, l, "ok", "error", fmt.Sprintf("%s with out-of-range arguments returned no error", c))
					} else if o.b != nil {
						// relaxed implementation: whatever it returned is only required not to panic later
						nb = o.b
						nh = &mhandle{root: h.root, detached: true}
					}
				}
			}
			model = append(model, nh)
			subj = append(subj, nb)
		case "Set":
			var src blob.Blob
			var srcBytes []byte
			alias := false
			if c.H2 >= 0 {
				if c.H2 >= len(model) || model[c.H2].invalid || subj[c.H2] == nil || model[c.H2].detached {
					continue
				}
				src = subj[c.H2]
				srcBytes = append([]byte(nil), model[c.H2].content()...)
				alias = model[c.H2].root == h.root
			} else {
				srcBytes = literal(c.Lit)
				src = opt.New(literal(c.Lit))
			}
			if h.detached {
				continue // mutating through a detached handle has unspecified reach
			}
			if alias && hangSeen.Load() {
				continue // a self-aliasing Set already wedged a blob in this process; the violation is recorded
			}
			if alias && st != nil {
				st.SelfSets++
			}
			o := invoke(func(o *callOutcome) { o.n, o.err = blob.Set(recv, src, c.A) }, alias, opt.Timeout)
			if o.hung {
				hangSeen.Store(true)
				w := "returns"
				detail := fmt.Sprintf("%s did not return within the watchdog", c)
				if strings.Contains(o.dump, "sync.(*Mutex).Lock") || strings.Contains(o.dump, "sync.Mutex.Lock") {
					add(c, l, "hang", w, detail+"; goroutine dump shows the call parked in sync.Mutex.Lock with no other holder")
				} else {
					add(c, l, "hang-unconfirmed", w, detail)
				}
				return issues // the blob is wedged; nothing more can be observed
			}
			inRange := c.A >= 0 && c.A <= int64(l)
			boundary := c.A == int64(l) && len(srcBytes) > 0 // copy of 0 bytes: n=0,nil and an error are both accepted
			switch {
			case o.panic != "":
				want := "error"
				if inRange {
					want = "ok"
				}
				add(c, l, "panic", want, fmt.Sprintf("%s panicked: %s", c, o.panic))
				return issues // a panic may have left the shared mutex locked
			case inRange && !boundary:
				if st != nil {
					st.InRange++
				}
				if o.err != nil {
					add(c, l, "error", "ok", fmt.Sprintf("%s failed: %v", c, o.err))
					break
				}
				wantN := 0
				for _, k := range h.root.kin {
					for _, o := range model {
						if o.root == k && !o.invalid {
							o.detached = true
						}
					}
				}
				if !isMin {
					wantN = copy(h.content()[c.A:], srcBytes)
				} else {
					wantN = len(srcBytes)
					if m := l - int(c.A); m < wantN {
						wantN = m
					}
				}
				if o.n != wantN && !(opt.Impl == "idbblob") {
					add(c, l, fmt.Sprintf("n=%d", o.n), fmt.Sprintf("n=%d", wantN), fmt.Sprintf("%s returned n=%d, copy gives %d", c, o.n, wantN))
				}
			case boundary:
				if o.err == nil && o.n != 0 {
					add(c, l, fmt.Sprintf("n=%d", o.n), "n=0", fmt.Sprintf("%s at the end of the blob returned n=%d", c, o.n))
				}
			default:
				if st != nil {
					st.BadArgs++
				}
				if o.err == nil && opt.StrictErr {
					add(c, l, "ok", "error", fmt.Sprintf("%s with an out-of-range offset returned no error", c))
				}
			}
		case "Grow", "Truncate":
			if h.detached {
				continue
			}
			o := invoke(func(o *callOutcome) {
				if c.Op == "Grow" {
					o.err = blob.Grow(recv, c.A)
				} else {
					o.err = blob.Truncate(recv, c.A)
				}
			}, false, 0)
			inRange := c.A >= 0 && (c.Op == "Grow" || c.A <= int64(l))
			if o.panic != "" {
				want := "error"
				if inRange {
					want = "ok"
				}
				add(c, l, "panic", want, fmt.Sprintf("%s panicked: %s", c, o.panic))
				return issues
			}
			if inRange {
				if st != nil {
					st.InRange++
				}
				if o.err != nil {
					add(c, l, "error", "ok", fmt.Sprintf("%s failed: %v", c, o.err))
					break
				}
				if isMin {
					break
				}
				changes := !(c.Op == "Grow" && c.A == 0) && !(c.Op == "Truncate" && c.A == int64(l))
				if changes && h.root.exact && !h.detached {
					// Go slice semantics, followed exactly while the capacity is known
					switch {
					case c.Op == "Truncate":
						h.end = h.start + int(c.A)
					case h.end+int(c.A) <= len(h.root.data):
						for i := h.end; i < h.end+int(c.A); i++ {
							h.root.data[i] = 0
						}
						h.end += int(c.A)
					default:
						nd := append(append([]byte(nil), h.content()...), make([]byte, c.A)...)
						h.root = &mroot{data: nd} // capacity after a re-allocation is the runtime's business: not exact any more
						h.start, h.end = 0, len(nd)
					}
					changes = false
					if st != nil {
						st.ExactResizes++
					}
				}
				if changes {
					var nd []byte
					if c.Op == "Grow" {
						nd = append(append([]byte(nil), h.content()...), make([]byte, c.A)...)
					} else {
						nd = append([]byte(nil), h.content()[:c.A]...)
					}
					old := h.root
					if opt.Impl == "idbblob" || c.Op == "Grow" {
						// (typed arrays: a whole-range View is the blob itself, so even lengths of aliases follow a resize;
						// Grow: like append on a sub-slice it may write its zeros into memory the other handles still show)
						for _, o := range model {
							if o == h || o.invalid {
								continue
							}
							related := o.root == old
							for _, k := range old.kin {
								related = related || o.root == k
							}
							if related {
								o.detached = true
							}
						}
					}
					// Truncate, like re-slicing one []byte header, writes nothing: every other handle keeps its own length and what
					// it shows, until somebody writes (then who sees the write is unspecified, see kin)
					nr := &mroot{data: nd, kin: append(append([]*mroot(nil), old.kin...), old)}
					for _, k := range nr.kin {
						k.kin = append(k.kin, nr)
					}
					h.root = nr
					h.start, h.end = 0, len(nd)
				}
			} else {
				if st != nil {
					st.BadArgs++
				}
				// Truncate(size > len) is accepted as a no-op or as an error; negative arguments must be refused.
				if o.err == nil && opt.StrictErr && c.A < 0 {
					add(c, l, "ok", "error", fmt.Sprintf("%s with a negative argument returned no error", c))
				}
			}
		case "Bytes":
			o := invoke(func(o *callOutcome) { o.bytes = recv.Bytes() }, false, 0)
			if o.panic != "" {
				add(c, l, "panic", "bytes", fmt.Sprintf("%s panicked: %s", c, o.panic))
				return issues
			}
			for i := range o.bytes { // the returned slice must be an independent copy
				o.bytes[i] ^= 0xff
			}
			if st != nil {
				st.AliasChecks++
			}
		}
		if !verify(c, l, "after "+c.String()) {
			return issues
		}
	}
	return issues
}

// ---- enumeration

func argRange(l int) []int64 {
	var r []int64
	for v := -2; v <= l+2; v++ {
		r = append(r, int64(v))
	}
	return r
}

// CallsOn enumerates every call on handle h of length l, given the other handles (index -> length; <0 = unusable).
func CallsOn(h, l int, handles []int) []Call {
	var cs []Call
	for _, a := range argRange(l) {
		for _, b := range argRange(l) {
			cs = append(cs, Call{Op: "View", H: h, A: a, B: b}, Call{Op: "Slice", H: h, A: a, B: b})
		}
	}
	for _, a := range argRange(l) {
		for _, lit := range []int{0, 1, l, l + 1} {
			cs = append(cs, Call{Op: "Set", H: h, H2: -1, Lit: lit, A: a})
		}
		for j, hl := range handles {
			if hl >= 0 {
				cs = append(cs, Call{Op: "Set", H: h, H2: j, A: a})
			}
		}
		cs = append(cs, Call{Op: "Truncate", H: h, A: a})
	}
	for _, a := range []int64{-2, -1, 0, 1, 3} {
		cs = append(cs, Call{Op: "Grow", H: h, A: a})
	}
	cs = append(cs, Call{Op: "Bytes", H: h})
	return cs
}

// SingleCall returns every one-call program on blobs of length 0..maxLen.
func SingleCall(maxLen int) []Program {
	var ps []Program
	for l := 0; l <= maxLen; l++ {
		for _, c := range CallsOn(0, l, []int{l}) {
			ps = append(ps, Program{Len: l, Calls: []Call{c}})
		}
	}
	return ps
}

// resultLen predicts the length of the handle a first call creates (-1 none).
func resultLen(c Call, l int) int {
	if (c.Op == "View" || c.Op == "Slice") && c.A >= 0 && c.B >= c.A && c.B <= int64(l) {
		return int(c.B - c.A)
	}
	return -1
}

func afterLen(c Call, l int) int {
	switch {
	case c.Op == "Grow" && c.A > 0:
		return l + int(c.A)
	case c.Op == "Truncate" && c.A >= 0 && c.A <= int64(l):
		return int(c.A)
	}
	return l
}

// TwoCall returns every two-call program on blobs of length 0..maxLen, the second call addressed
// to the original or to the handle the first call produced (aliasing combinations included).
func TwoCall(maxLen int) []Program {
	var ps []Program
	for l := 0; l <= maxLen; l++ {
		for _, c1 := range CallsOn(0, l, []int{l}) {
			l0 := afterLen(c1, l)
			rl := resultLen(c1, l)
			handles := []int{l0}
			if c1.Op == "View" || c1.Op == "Slice" {
				handles = append(handles, rl)
			}
			for _, c2 := range CallsOn(0, l0, handles) {
				ps = append(ps, Program{Len: l, Calls: []Call{c1, c2}})
			}
			if rl >= 0 {
				for _, c2 := range CallsOn(1, rl, handles) {
					ps = append(ps, Program{Len: l, Calls: []Call{c1, c2}})
				}
			}
		}
	}
	return ps
}

// Extreme returns one- and two-call programs whose arguments lie at the edges of int64 (differences and sums of such
// arguments wrap around), alone and next to ordinary ones. Grow is left out: a huge Grow is a request for memory.
func Extreme() []Program {
	big := []int64{math.MinInt64, math.MinInt64 + 1, math.MinInt64 + 2, -1 << 62, -1 << 32, -1 << 31, 1 << 31, 1 << 32, 1 << 62, math.MaxInt64 - 2, math.MaxInt64 - 1, math.MaxInt64}
	var ps []Program
	for _, l := range []int{0, 1, 3, 8} {
		small := []int64{-1, 0, 1, int64(l), int64(l) + 1}
		var calls []Call
		for _, x := range big {
			for _, y := range append(append([]int64(nil), small...), big...) {
				calls = append(calls, Call{Op: "View", H: 0, A: x, B: y}, Call{Op: "View", H: 0, A: y, B: x}, Call{Op: "Slice", H: 0, A: x, B: y}, Call{Op: "Slice", H: 0, A: y, B: x})
			}
			for _, lit := range []int{0, 1, l + 1} {
				calls = append(calls, Call{Op: "Set", H: 0, H2: -1, Lit: lit, A: x})
			}
			calls = append(calls, Call{Op: "Set", H: 0, H2: 0, A: x}, Call{Op: "Truncate", H: 0, A: x})
		}
		for _, c := range calls {
			ps = append(ps, Program{Len: l, Calls: []Call{c}}, Program{Len: l, Calls: []Call{c, {Op: "Bytes", H: 0}}})
			if l > 1 {
				// the same call on a view that does not start at 0 (offsets are added to the arguments there)
				c1 := c
				c1.H = 1
				if c1.Op == "Set" && c1.H2 == 0 {
					c1.H2 = 1
				}
				ps = append(ps, Program{Len: l, Calls: []Call{{Op: "View", H: 0, A: 1, B: int64(l)}, c1, {Op: "Bytes", H: 0}}})
			}
		}
	}
	return ps
}

// Big returns programs over blobs whose lengths sit on and around multiples of 64 KiB (and 4 KiB, 32 KiB, 1 MiB): whole
// and partial copies out (Bytes, Slice), views, writes in the last block.
func Big() []Program {
	var ps []Program
	for _, base := range []int{4096, 32768, 65536, 2 * 65536, 3 * 65536, 4 * 65536, 8 * 65536, 1 << 20} {
		for _, d := range []int{-1, 0, 1} {
			l := base + d
			L := int64(l)
			ps = append(ps,
				Program{Len: l, Calls: []Call{{Op: "Bytes", H: 0}}},
				Program{Len: l, Calls: []Call{{Op: "Slice", H: 0, A: 0, B: L}, {Op: "Bytes", H: 1}}},
				Program{Len: l, Calls: []Call{{Op: "Slice", H: 0, A: 1, B: L}, {Op: "Bytes", H: 1}}},
				Program{Len: l, Calls: []Call{{Op: "Slice", H: 0, A: 0, B: L - 1}, {Op: "Bytes", H: 1}}},
				Program{Len: l, Calls: []Call{{Op: "View", H: 0, A: 0, B: L}, {Op: "Bytes", H: 1}, {Op: "Slice", H: 1, A: 0, B: L}, {Op: "Bytes", H: 2}}},
				Program{Len: l, Calls: []Call{{Op: "Set", H: 0, H2: -1, Lit: 100, A: L - 100}, {Op: "Bytes", H: 0}, {Op: "Slice", H: 0, A: 0, B: L}, {Op: "Bytes", H: 1}}},
				Program{Len: l, Calls: []Call{{Op: "Slice", H: 0, A: 0, B: L}, {Op: "Set", H: 1, H2: 0, A: 0}, {Op: "Bytes", H: 1}}},
				Program{Len: l, Calls: []Call{{Op: "Truncate", H: 0, A: L - 1}, {Op: "Bytes", H: 0}}},
				Program{Len: l + 4096, Calls: []Call{{Op: "Slice", H: 0, A: 0, B: L}, {Op: "Bytes", H: 1}, {Op: "Slice", H: 0, A: 4096, B: L + 4096}, {Op: "Bytes", H: 2}}},
				Program{Len: l + 4096, Calls: []Call{{Op: "Truncate", H: 0, A: L}, {Op: "Bytes", H: 0}, {Op: "Slice", H: 0, A: 0, B: L}, {Op: "Bytes", H: 1}}},
			)
		}
	}
	return ps
}

// Random returns a random program of up to maxCalls calls over a blob of length 0..maxLen.
func Random(r *rand.Rand, maxLen, maxCalls int) Program {
	l := r.Intn(maxLen + 1)
	if r.Intn(4) == 0 {
		l = r.Intn(5)
	}
	p := Program{Len: l}
	lens := []int{l} // predicted handle lengths (-1 unusable)
	n := 1 + r.Intn(maxCalls)
	arg := func(l int) int64 {
		if r.Intn(6) == 0 {
			return int64(r.Intn(l+5) - 2)
		}
		if l == 0 {
			return 0
		}
		switch r.Intn(4) {
		case 0:
			return 0
		case 1:
			return int64(l)
		}
		return int64(r.Intn(l + 1))
	}
	for i := 0; i < n; i++ {
		var usable []int
		for j, hl := range lens {
			if hl >= 0 {
				usable = append(usable, j)
			}
		}
		h := usable[r.Intn(len(usable))]
		hl := lens[h]
		var c Call
		switch k := r.Intn(10); {
		case k < 3:
			a, b := arg(hl), arg(hl)
			if a > b && r.Intn(5) != 0 {
				a, b = b, a
			}
			c = Call{Op: "View", H: h, A: a, B: b}
			lens = append(lens, resultLen(c, hl))
		case k < 4:
			a, b := arg(hl), arg(hl)
			if a > b && r.Intn(5) != 0 {
				a, b = b, a
			}
			c = Call{Op: "Slice", H: h, A: a, B: b}
			lens = append(lens, resultLen(c, hl))
		case k < 7:
			c = Call{Op: "Set", H: h, H2: -1, Lit: r.Intn(hl + 3), A: arg(hl)}
			if r.Intn(2) == 0 {
				c.H2 = usable[r.Intn(len(usable))]
			}
		case k < 8:
			c = Call{Op: "Grow", H: h, A: int64(r.Intn(6) - 1)}
			if r.Intn(8) == 0 {
				c.A = int64(50 + r.Intn(5000))
			}
			lens[h] = afterLen(c, hl)
		case k < 9:
			c = Call{Op: "Truncate", H: h, A: arg(hl)}
			lens[h] = afterLen(c, hl)
		default:
			c = Call{Op: "Bytes", H: h}
		}
		p.Calls = append(p.Calls, c)
	}
	return p
}

// Minimal is a Blob exposing only Bytes and Len, so that the package-level helpers take their fallbacks.
type Minimal struct{ B []byte }

func (m *Minimal) Bytes() []byte { return append([]byte(nil), m.B...) }
func (m *Minimal) Len() int      { return len(m.B) }
