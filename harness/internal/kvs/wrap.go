package kvs

import (
	"context"
	"sync"

	"github.com/hack-pad/hackpadfs/keyvalue"
	"github.com/hack-pad/hackpadfs/keyvalue/blob"
)

// Txn wraps a TransactionStore: every store-level call first goes to Hook, which may count it,
// yield, or return an error to be reported exactly the way the real stores report failures
// (Transaction(): returned error; Get/Set inside a transaction: that operation's OpResult.Err;
// Commit: returned error; lazy Data()/ReadDirNames(): returned error).
type Txn struct {
	Inner keyvalue.TransactionStore
	Hook  Hook
	// Notify, if set, is told when a transaction has been opened ("opened") and when it has ended ("closed").
	Notify func(what string)
	// Deferred: the store queues the calls of a transaction and applies them at Commit (the way a request-based store
	// such as IndexedDB does): a failing Get/Set is not reported in that operation's result but rejects the whole
	// transaction - Commit returns the per-call results without errors TOGETHER WITH the error, and nothing is applied.
	Deferred bool
}

func (w *Txn) notify(what string) {
	if w.Notify != nil {
		w.Notify(what)
	}
}

func WrapTxn(inner keyvalue.TransactionStore, hook Hook) *Txn { return &Txn{Inner: inner, Hook: hook} }

func (w *Txn) hook(op, path string) error {
	if w.Hook != nil {
		return w.Hook(Event{Op: op, Path: path})
	}
	return nil
}

func (w *Txn) Get(ctx context.Context, path string) (keyvalue.FileRecord, error) {
	if err := w.hook("Get", path); err != nil {
		return nil, err
	}
	r, err := w.Inner.Get(ctx, path)
	return w.wrapRec(r, path), err
}

func (w *Txn) Set(ctx context.Context, path string, src keyvalue.FileRecord) error {
	if err := w.hook("Set", path); err != nil {
		return err
	}
	return w.Inner.Set(ctx, path, src)
}

func (w *Txn) Transaction(o keyvalue.TransactionOptions) (keyvalue.Transaction, error) {
	if err := w.hook("Transaction", ""); err != nil {
		return nil, err
	}
	t, err := w.Inner.Transaction(o)
	if err != nil {
		return nil, err
	}
	w.notify("opened")
	return &wtxn{w: w, inner: t}, nil
}

type wcall struct {
	synthetic bool
	err       error
	path      string
}

type wtxn struct {
	w     *Txn
	inner keyvalue.Transaction
	mu    sync.Mutex
	calls []wcall
	// rejected: (Deferred stores) the failure that Commit will report
	rejected error
}

// deferFailure notes err as the reason Commit will fail; true when the store is a deferred one.
func (t *wtxn) deferFailure(err error, path string) (keyvalue.OpID, bool) {
	if !t.w.Deferred {
		return 0, false
	}
	t.mu.Lock()
	if t.rejected == nil {
		t.rejected = err
	}
	t.mu.Unlock()
	return t.record(wcall{synthetic: true, path: path}), true
}

func (t *wtxn) record(c wcall) keyvalue.OpID {
	t.mu.Lock()
	defer t.mu.Unlock()
	t.calls = append(t.calls, c)
	return keyvalue.OpID(len(t.calls) - 1)
}

func (t *wtxn) Get(path string) keyvalue.OpID {
	if err := t.w.hook("Get", path); err != nil {
		if id, ok := t.deferFailure(err, path); ok {
			return id
		}
		return t.record(wcall{synthetic: true, err: err, path: path})
	}
	id := t.record(wcall{path: path})
	t.inner.Get(path)
	return id
}

func (t *wtxn) GetHandler(path string, h keyvalue.OpHandler) keyvalue.OpID {
	if err := t.w.hook("Get", path); err != nil {
		id := t.record(wcall{synthetic: true, err: err, path: path})
		_ = h.Handle(t, keyvalue.OpResult{Op: id, Err: err})
		return id
	}
	id := t.record(wcall{path: path})
	t.inner.GetHandler(path, keyvalue.OpHandlerFunc(func(_ keyvalue.Transaction, r keyvalue.OpResult) error {
		r.Op = id
		r.Record = t.w.wrapRec(r.Record, path)
		return h.Handle(t, r)
	}))
	return id
}

func (t *wtxn) Set(path string, src keyvalue.FileRecord, contents blob.Blob) keyvalue.OpID {
	if err := t.w.hook("Set", path); err != nil {
		if id, ok := t.deferFailure(err, path); ok {
			return id
		}
		return t.record(wcall{synthetic: true, err: err, path: path})
	}
	id := t.record(wcall{path: path})
	t.inner.Set(path, src, contents)
	return id
}

func (t *wtxn) SetHandler(path string, src keyvalue.FileRecord, contents blob.Blob, h keyvalue.OpHandler) keyvalue.OpID {
	if err := t.w.hook("Set", path); err != nil {
		id := t.record(wcall{synthetic: true, err: err, path: path})
		_ = h.Handle(t, keyvalue.OpResult{Op: id, Err: err})
		return id
	}
	id := t.record(wcall{path: path})
	t.inner.SetHandler(path, src, contents, keyvalue.OpHandlerFunc(func(_ keyvalue.Transaction, r keyvalue.OpResult) error {
		r.Op = id
		return h.Handle(t, r)
	}))
	return id
}

func (t *wtxn) Commit(ctx context.Context) ([]keyvalue.OpResult, error) {
	if err := t.w.hook("Commit", ""); err != nil {
		_ = t.inner.Abort()
		t.w.notify("closed")
		return nil, err
	}
	t.mu.Lock()
	rejected := t.rejected
	t.mu.Unlock()
	if rejected != nil {
		_ = t.inner.Abort()
		t.w.notify("closed")
		t.mu.Lock()
		defer t.mu.Unlock()
		out := make([]keyvalue.OpResult, 0, len(t.calls))
		for i := range t.calls {
			out = append(out, keyvalue.OpResult{Op: keyvalue.OpID(i)})
		}
		return out, rejected
	}
	inner, err := t.inner.Commit(ctx)
	t.w.notify("closed")
	if err != nil {
		return nil, err
	}
	t.mu.Lock()
	defer t.mu.Unlock()
	out := make([]keyvalue.OpResult, 0, len(t.calls))
	j := 0
	for i, c := range t.calls {
		if c.synthetic {
			out = append(out, keyvalue.OpResult{Op: keyvalue.OpID(i), Err: c.err})
			continue
		}
		if j < len(inner) {
			r := inner[j]
			j++
			r.Op = keyvalue.OpID(i)
			r.Record = t.w.wrapRec(r.Record, c.path)
			out = append(out, r)
		}
	}
	return out, nil
}

func (t *wtxn) Abort() error {
	err := t.inner.Abort()
	t.w.notify("closed")
	return err
}

type wrec struct {
	keyvalue.FileRecord
	w    *Txn
	path string
}

func (w *Txn) wrapRec(r keyvalue.FileRecord, path string) keyvalue.FileRecord {
	if r == nil {
		return nil
	}
	return &wrec{FileRecord: r, w: w, path: path}
}

func (r *wrec) Data() (blob.Blob, error) {
	if err := r.w.hook("Data", r.path); err != nil {
		return nil, err
	}
	return r.FileRecord.Data()
}

func (r *wrec) ReadDirNames() ([]string, error) {
	if err := r.w.hook("ReadDirNames", r.path); err != nil {
		return nil, err
	}
	return r.FileRecord.ReadDirNames()
}

// Budget is a hook that panics with ErrBudget when one file-system operation makes more than
// Max store calls (bounded-progress rule for runaway recursion). Call Reset before each operation.
type Budget struct {
	mu    sync.Mutex
	n     int
	Max   int
	Total int
}

type BudgetExceeded struct{}

func (BudgetExceeded) Error() string { return "store-call budget exceeded" }

func (b *Budget) TotalCalls() int { b.mu.Lock(); defer b.mu.Unlock(); return b.Total }

func (b *Budget) Reset() { b.mu.Lock(); b.n = 0; b.mu.Unlock() }

func (b *Budget) Hook(Event) error {
	b.mu.Lock()
	b.n++
	b.Total++
	over := b.Max > 0 && b.n > b.Max
	b.mu.Unlock()
	if over {
		panic(BudgetExceeded{})
	}
	return nil
}
