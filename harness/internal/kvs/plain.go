// Package kvs holds the harness's key-value stores: a plain map Store patterned on the
// repository's S3 example (snapshot blobs, listing by prefix at call time) and wrappers that
// count, fail or yield at the library's own extension interfaces.
package kvs

import (
	"context"
	"sort"
	"strings"
	"sync"
	"time"

	"github.com/hack-pad/hackpadfs"
	"github.com/hack-pad/hackpadfs/keyvalue"
	"github.com/hack-pad/hackpadfs/keyvalue/blob"
)

// Event is one store-level call observed by a hook.
type Event struct {
	Op   string // Get Set Data ReadDirNames Transaction Commit
	Path string
}

// Hook is called before the store acts; a non-nil error is returned to the library instead of acting.
type Hook func(Event) error

type rec struct {
	mode    hackpadfs.FileMode
	modTime time.Time
	data    []byte
}

// Plain is a keyvalue.Store without transactions.
type Plain struct {
	mu   sync.Mutex
	recs map[string]*rec
	Hook Hook
	// CacheRecords: repeated Gets of a path hand out the SAME record object until the path is set again (a store with a
	// record / metadata cache in front of it); its lazy loaders are re-run by every caller that asks
	CacheRecords bool
	cache        map[string]keyvalue.FileRecord
}

// DropCache forgets the cached record objects.
func (p *Plain) DropCache() { p.mu.Lock(); p.cache = nil; p.mu.Unlock() }

func NewPlain() *Plain { return &Plain{recs: map[string]*rec{}} }

func (p *Plain) hook(op, path string) error {
	if p.Hook != nil {
		return p.Hook(Event{Op: op, Path: path})
	}
	return nil
}

func (p *Plain) Get(ctx context.Context, path string) (keyvalue.FileRecord, error) {
	if err := p.hook("Get", path); err != nil {
		return nil, err
	}
	p.mu.Lock()
	r, ok := p.recs[path]
	var cp rec
	if ok {
		cp = *r
	}
	cached := p.cache[path]
	p.mu.Unlock()
	if !ok {
		return nil, hackpadfs.ErrNotExist
	}
	if p.CacheRecords && cached != nil {
		return cached, nil
	}
	var getData func() (blob.Blob, error)
	var getDirNames func() ([]string, error)
	if cp.mode.IsDir() {
		getDirNames = func() ([]string, error) {
			if err := p.hook("ReadDirNames", path); err != nil {
				return nil, err
			}
			return p.children(path), nil
		}
	} else {
		getData = func() (blob.Blob, error) {
			if err := p.hook("Data", path); err != nil {
				return nil, err
			}
			// snapshot taken at Get time (Set replaces the slice, never mutates it)
			return blob.NewBytes(append([]byte(nil), cp.data...)), nil
		}
	}
	out := keyvalue.NewBaseFileRecord(int64(len(cp.data)), cp.modTime, cp.mode, nil, getData, getDirNames)
	if p.CacheRecords {
		p.mu.Lock()
		if p.cache == nil {
			p.cache = map[string]keyvalue.FileRecord{}
		}
		p.cache[path] = out
		p.mu.Unlock()
	}
	return out, nil
}

func (p *Plain) children(dir string) []string {
	prefix := dir + "/"
	if dir == "." {
		prefix = ""
	}
	p.mu.Lock()
	defer p.mu.Unlock()
	var names []string
	for k := range p.recs {
		if k == "." || !strings.HasPrefix(k, prefix) {
			continue
		}
		rest := k[len(prefix):]
		if rest != "" && !strings.Contains(rest, "/") {
			names = append(names, rest)
		}
	}
	sort.Strings(names)
	return names
}

func (p *Plain) Set(ctx context.Context, path string, src keyvalue.FileRecord) error {
	if err := p.hook("Set", path); err != nil {
		return err
	}
	if src == nil {
		p.mu.Lock()
		delete(p.recs, path)
		delete(p.cache, path)
		p.mu.Unlock()
		return nil
	}
	r := &rec{mode: src.Mode(), modTime: src.ModTime()}
	if !src.Mode().IsDir() {
		b, err := src.Data()
		if err != nil {
			return err
		}
		r.data = b.Bytes()
	}
	p.mu.Lock()
	p.recs[path] = r
	delete(p.cache, path)
	p.mu.Unlock()
	return nil
}

// Dump returns what the store holds: path -> "d <mode>" or "f <mode> <bytes>".
func (p *Plain) Dump() map[string]string {
	p.mu.Lock()
	defer p.mu.Unlock()
	out := map[string]string{}
	for k, r := range p.recs {
		if r.mode.IsDir() {
			out[k] = "d " + r.mode.Perm().String()
		} else {
			out[k] = "f " + r.mode.Perm().String() + " " + string(r.data)
		}
	}
	return out
}

// Keys returns the number of records.
func (p *Plain) Keys() int {
	p.mu.Lock()
	defer p.mu.Unlock()
	return len(p.recs)
}
