// Package tarx builds tar archives for the tar monitors and holds the reference model of an archive's logical tree.
package tarx

import (
	"archive/tar"
	"bytes"
	"io/fs"
	"path"
	"strings"
)

// Entry is one archive member.
type Entry struct {
	Name string `json:"name"` // as spelled in the header
	Dir  bool   `json:"dir,omitempty"`
	Perm uint32 `json:"perm"`
	Size int    `json:"size,omitempty"` // body length; the body is generated from the entry index
	Tag  byte   `json:"tag,omitempty"`
	Cont bool   `json:"cont,omitempty"` // a regular file stored with typeflag '7' (contiguous file)
}

// Body returns the deterministic body of an entry.
func (e Entry) Body() []byte {
	b := make([]byte, e.Size)
	for i := range b {
		b[i] = e.Tag + byte(i%251)
	}
	return b
}

// Build writes the archive.
func Build(entries []Entry) []byte {
	var buf bytes.Buffer
	w := tar.NewWriter(&buf)
	for _, e := range entries {
		h := &tar.Header{Name: e.Name, Mode: int64(e.Perm), Format: tar.FormatPAX}
		if e.Dir {
			h.Typeflag = tar.TypeDir
		} else {
			h.Typeflag = tar.TypeReg
			if e.Cont {
				h.Typeflag = tar.TypeCont
			}
			h.Size = int64(e.Size)
		}
		if err := w.WriteHeader(h); err != nil {
			panic(err)
		}
		if !e.Dir {
			if _, err := w.Write(e.Body()); err != nil {
				panic(err)
			}
		}
	}
	if err := w.Close(); err != nil {
		panic(err)
	}
	return buf.Bytes()
}

// Resolve is the harness's independent implementation of "normalise an entry name to a rooted FS path":
// split on '/', drop empty and '.' elements, resolve '..' against the elements so far (escaping = false).
func Resolve(name string) (p string, ok bool) {
	var out []string
	rooted := strings.HasPrefix(name, "/") // an absolute member name: the parent of the root is the root ("/../x" is "/x")
	for _, el := range strings.Split(name, "/") {
		switch el {
		case "", ".":
		case "..":
			if len(out) == 0 {
				if rooted {
					continue
				}
				return "", false
			}
			out = out[:len(out)-1]
		default:
			out = append(out, el)
		}
	}
	if len(out) == 0 {
		return ".", true
	}
	return strings.Join(out, "/"), true
}

// Node of the expected tree.
type Node struct {
	Dir      bool
	Perm     fs.FileMode
	PermSet  bool // false for implied ancestors: their mode is not compared
	Body     []byte
	EntryIdx int
}

// Model returns the logical tree of an archive (path -> node), or escaping=true if a name resolves outside the root.
func Model(entries []Entry) (tree map[string]*Node, escaping bool) {
	tree = map[string]*Node{}
	for i, e := range entries {
		p, ok := Resolve(e.Name)
		if !ok {
			return nil, true
		}
		for d := path.Dir(p); d != "." && d != "/"; d = path.Dir(d) {
			if _, ok := tree[d]; !ok {
				tree[d] = &Node{Dir: true}
			}
		}
		if p == "." {
			if e.Dir { // an explicit entry for the root itself: its permission bits apply to the root
				tree["."] = &Node{Dir: true, Perm: fs.FileMode(e.Perm) & fs.ModePerm, PermSet: true, EntryIdx: i}
			}
			continue
		}
		if e.Dir {
			n := tree[p]
			if n == nil {
				n = &Node{Dir: true}
				tree[p] = n
			}
			n.Perm, n.PermSet, n.EntryIdx = fs.FileMode(e.Perm)&fs.ModePerm, true, i
		} else {
			tree[p] = &Node{Perm: fs.FileMode(e.Perm) & fs.ModePerm, PermSet: true, Body: e.Body(), EntryIdx: i}
		}
	}
	return tree, false
}

// BuildVerbatim writes an archive whose regular entries carry the given bodies.
func BuildVerbatim(names []string, dirs []bool, perms []uint32, bodies [][]byte) []byte {
	var buf bytes.Buffer
	w := tar.NewWriter(&buf)
	for i, n := range names {
		h := &tar.Header{Name: n, Mode: int64(perms[i]), Format: tar.FormatPAX}
		if dirs[i] {
			h.Typeflag = tar.TypeDir
			h.Name += "/"
		} else {
			h.Typeflag = tar.TypeReg
			h.Size = int64(len(bodies[i]))
		}
		if err := w.WriteHeader(h); err != nil {
			panic(err)
		}
		if !dirs[i] {
			_, _ = w.Write(bodies[i])
		}
	}
	_ = w.Close()
	return buf.Bytes()
}
