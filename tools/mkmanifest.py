#!/usr/bin/env python3
# Regenerates /verif/MANIFEST.json from the table below (kept in one place so it stays valid).
import json
CLAIMED = {
 "C19": dict(level="exploration", design="4/C19",
   text="Every one-call blob program on lengths 0..8 and every two-call program on lengths 0..3 (arguments -2..len+2, aliasing included) is enumerated, plus 20k (quick) / 400k (thorough) random programs of up to 12 calls, each executed on the real blob.Bytes and on a minimal Blob through the package helpers and compared call by call with a []byte model with explicit aliasing; self-aliasing Set is run under a watchdog whose firing counts only with a goroutine dump showing the mutex self-deadlock. Exploration is the right level: the claim is about all call sequences, and a monitor over generated executions is what this family offers.",
   note="Trusts the harness's []byte model (internal/blobprog). The typed-array blob (GOOS=js) is not covered by this check yet; detached handles (after a resize of an aliasing blob) are only checked for no-panic.",
   technique="differential runtime monitor against an executable []byte model over enumerated and random call programs"),
 "C18": dict(level="exploration", design="4/C18",
   text="All call sequences up to length 3 over {Get,GetHandler,Set,SetHandler,Abort,Commit} x keys {x,y} x handlers {ok,fail,abort-then-ok,abort-then-fail} are enumerated and 8k (quick) / 200k (thorough) random sequences of length 4..8 are sampled; each runs on the real mem transaction (verif hook) and on the serial fallback over a plain store and is compared with a map model: one result per call, ids in call order, Get values, handler errors, no effect after abort, and afterwards a fresh transaction must open, commit and show the model's state (watchdog + goroutine dump decide a leaked lock; a fatal double unlock kills the child process and is reported from its log). Groups of 2..3 free-running concurrent transactions on the mem store run under the race detector with a pair-of-keys isolation oracle.",
   note="Trusts the harness's map model and plain store. Concurrent isolation is observed on free-running schedules only (no systematic interleaving at this level); Sets before an Abort are not expected to roll back.",
   technique="runtime monitor against a map model over enumerated/random transaction call sequences; race detector + isolation oracle on concurrent transactions"),
 "C01": dict(level="exploration", design="4/C01",
   text="Differential runtime monitor against the real os package: the complete situation matrix (every namespace operation x every target situation x argument variants incl. all 48 OpenFile flag sets; Rename over source x destination situations and name relations; ~1500 histories) plus 4k (quick) / 300k (thorough) seeded random histories of up to 40/60 steps run step by step on an empty os directory and on mem.FS, keyvalue.FS over the real mem store (call-counted) and keyvalue.FS over a plain Store; after every step success/failure, returned data and the whole tree are compared. Exploration is the strongest statement this family can make about 'all histories'; the matrix makes the reachable divergence signatures known rather than found by luck.",
   note="Reference is Go's os package on Linux/tmpfs as root with umask 0 (harness's own thin os wrapper, not hackpadfs/os). Known divergences (known_findings.json: ReadFile of a directory, RemoveAll below a file) are exercised by the matrix and not issued inside random histories.",
   technique="differential testing against the os package with per-step tree snapshots (runtime oracle over generated histories)"),
 "C03": dict(level="exploration", design="4/C03",
   text="Invariant walker evaluated after every step (successful or failed) of every history on the subject alone: the full closure of candidate paths (alphabet to depth 3 plus everything listed) is probed with Stat/Open/handle Stat/ReadDir and must form a well-formed tree (root is a directory, every existing path has a directory parent that lists it, every listed entry resolves with agreeing kinds, no duplicates). Termination is decided on logical steps (<=3000 store calls per operation) with the child-process watchdog behind it. Subjects: keyvalue.FS over the real mem store and over a plain Store, mount.FS with four mount points (nested and look-alike), Sub views incl. nested and of mounts. Cases: C01 matrix + root/own-subtree directed histories on every subject + 250 (quick) / 8000 (thorough) random histories per subject.",
   note="The store-call budget stands in for 'every operation terminates'. Sub-view histories do not remove/rename the view's top directory. Known findings F52/F28 (mount-point directories can be removed or moved away) are keyed by the coarse situation 'covers-mountpoint' and not issued inside random histories.",
   technique="runtime invariant monitor (closure walker) over generated histories with a logical-step termination budget"),
 "C02": dict(level="exploration", design="4/C02",
   text="Differential runtime monitor against *os.File: the handle matrix (9 handle kinds x every call x argument classes around offset and size, each also after another handle grew or shrank the file; ~5700 scripts) and 20k (quick) / 200k (thorough) random scripts of up to 40/80 calls over 1..3 handles. After every call: n, bytes, success/failure with end-of-file normalised as io.Reader/io.ReaderAt allow (EOF flagged as early if bytes remain; short ReadAt with nil error flagged), every open handle's offset, handle Stat, and the file's fresh contents are compared with the os package.",
   note="Reference is *os.File on Linux tmpfs. Zero-length transfers and Seek/Stat on directory handles are compared by resulting state only (os does not consult the access mode for zero-length calls; directory seeking is OS-specific). keyvalue.FS over a plain Store runs single-handle scripts only (each handle owns a snapshot by the FileRecord contract). Known: directory handle Read reports EOF (F14).",
   technique="differential testing of handle call scripts against os.File with EOF normalisation and per-call state comparison"),
 "C16": dict(level="exploration", design="4/C16",
   text="Directories with 0,1,2,3,10,300,1200 children of mixed kinds (ground truth: what the harness created) are presented through nine FS kinds (mem, keyvalue over a plain Store, mount with mount-point children, Sub, cache with full/minimal store, tar with default/minimal destination, os.FS). The by-name listing is checked for completeness, duplicates, order and Info-vs-Stat agreement; a directory handle is read with systematic page-size sequences (1, 2, N-1, N, N+1, 10^9, mixed with 0/-1) and random ones against the fs.ReadDirFile contract (no empty page with nil error, io.EOF exactly at the end, n<=0 returns all remaining with nil); listing a regular file must fail with ErrNotDir.",
   note="Directories are never mutated between pages. Mount-point children are compared by name and kind only. os.FS listing uses the host kernel's directory order.",
   technique="runtime contract monitor for listings and paged directory reads against harness-known ground truth"),
 "C17": dict(level="exploration", design="4/C17",
   text="Closed-handle matrix: 9 FS kinds x 5 handle kinds x every ordered pair of the 11 methods called after Close (each must fail, never panic, and match ErrClosed wherever a closed *os.File does); sibling scripts record every other handle's offset and usability around each call; lifecycle histories (40/1500 per FS kind) interleave Remove/Rename/re-create of the path with writes through handles opened earlier and compare the set of existing names with the os package after every step.",
   note="Reference is *os.File / os on Linux. Known: writing through a handle after Remove/Rename re-creates the old name (F20, keyed by handle operation).",
   technique="runtime monitor of handle life-cycle (post-Close calls, sibling isolation, unlink-then-write) differential against os.File"),
 "C04": dict(level="exploration", design="4/C04",
   text="Every helper/method (17 single-name operations; Rename and Symlink with the invalid name first, second or both) x 8 FS kinds (mem, keyvalue over a plain Store, mount incl. names invalid only after a mount point, generic Sub, Sub of os.FS, cache, tar, os.FS) x 2 pre-states x an enumerated corpus around the ValidPath boundary plus 120 (quick) / 2000 (thorough) fuzzed byte strings filtered by !ValidPath: each call must match ErrInvalid and leave the snapshots of all constituent file systems unchanged; valid names with backslash/colon/dots must never be refused or split. For os.FS the same calls also run in a helper process under strace -e trace=%file with marker syscalls and positive controls: no file syscall may appear between the markers of an invalid-name call.",
   note="Operations a subject does not support at all (ErrNotImplemented for valid names) are skipped for that subject. The strace monitor follows the helper's locked OS thread; valid-name control calls must show file syscalls or the run is inconclusive. Windows conventions are not exercised here (no Windows kernel).",
   technique="runtime monitor over an enumerated+fuzzed invalid-name corpus with whole-composition snapshots, plus strace as an external kernel-boundary monitor"),
 "C05": dict(level="exploration", design="4/C05",
   text="Differential monitor restricted to failing calls: every case of the C01 situation matrix, four invalid-name variants of its main operation, and 60 (quick) / 3000 (thorough) random histories per writable stack are issued with the caller's top-level name through 19 layer stacks (mem; mount with the target 0/1/2 mounts deep and below a mounted directory; generic Sub of mem, of a mount, above a mount, of a Sub; os.FS under 1..3 Sub roots; cache; tar) and on a flattened mirror in one os directory. Every subject failure must be *PathError/*LinkError, carry the path os names (never empty, absolute or inner), and match os's sentinel when that is one of the seven.",
   note="Reference paths are Go os error paths made relative to the mirror root; for invalid names the expectation is ErrInvalid naming the name passed. Cache and tar stacks issue read operations only. Known: look-ups through a regular file answer ErrNotExist instead of ErrNotDir (F03), keyed by operation and coarse situation.",
   technique="differential runtime monitor of error type, path fields and sentinel class against the os package across composition layers"),
 "C06": dict(level="exploration", design="4/C06",
   text="Twin execution under the race detector: every constituent FS exists twice (inside the mount FS / stand-alone clone); each operation of a seeded history through the mount FS is mirrored on the stand-alone twin that an independent longest-whole-element-prefix model selects, at the remainder path, and afterwards ALL twins must be equal and the results must agree, so a wrong target, a wrong remainder or a side effect elsewhere is visible at the step it happens. Cross-mount renames are checked against 'moved with the same bytes and mode, or failed with both sides unchanged'. All subsets of six mount points (nested and string-prefix look-alikes) up to size 2 plus 20 larger (quick) / up to size 4 (thorough), repeated because the mount table's iteration order is randomised. AddMount preconditions follow a model; 2..8 goroutines mounting one point are released inside the check-then-insert window (150 / 3000 groups): exactly one wins.",
   note="Constituents are mem.FS. A cross-mount rename that fails where the model could complete it is counted, not flagged. Distinct MountPoints() orders observed are reported in the evidence.",
   technique="twin-execution runtime monitor with an independent routing model; race detector and gated concurrent AddMount groups"),
 "C07": dict(level="exploration", design="4/C07",
   text="Twin execution: two identical parents (mem; mount.FS with the view's directory being a mount point, above one, inside one, both, or unrelated; os.FS with native Sub; a parent exposing only Open; chains of two Sub calls) are driven through the view at n and directly at dir/n with seeded histories of namespace operations, Rename, Sub and reads (40 / 900 histories per configuration, 18 configurations). After every step result class and data, the composed namespace AND every constituent file system of both parents must be equal, and everything outside dir must be unchanged, so a write that bypasses a nested mount or escapes the directory is seen at the step it happens.",
   note="Only the error class is compared (paths are C05's concern). Histories do not remove/rename the view's top directory. Symbolic links are never created.",
   technique="twin-execution runtime monitor (view vs direct) with whole-composition state comparison"),
 "C08": dict(level="fault_enumeration", design="4/C08",
   text="Twin execution full vs masked with generated wrapper types (one Go type per exposed method set, 88 FS types and 32 file types from tools/gen_capfs.py): for every helper, every subset of the interfaces its dispatch can consult (transitively), three bases (os.FS which natively implements everything, mem.FS, mount.FS over mem) and nine targets, the masked run must reproduce the full run's result class, data and final tree or fail with ErrNotImplemented leaving the tree unchanged; handles expose subsets of the file interfaces for the *File helpers and the fallbacks that rely on them. Fault enumeration: for every masked run the primitives it called are counted and the helper is re-run once per primitive index with that primitive failing; reported success is accepted only with the fault-free data and state.",
   note="Only interfaces a base implements natively can be exposed or hidden. Symlink runs on os.FS only. Known: WriteFullFile's fallback truncates before discovering that handles cannot Write (F56).",
   technique="twin execution over generated capability-masking wrappers plus single-fault injection at every primitive call index"),
 "C09": dict(level="exploration", design="4/C09",
   text="An independent lexical model (split/resolve/compare by elements) is compared with os.FS's name<->OS-path mapping over a completely enumerated finite space: 5 conventions (linux; windows with volumes '', C:, D:, a UNC share, driven on Linux through the verif shims) x 9 Sub-root chains (look-alike prefixes, a space, multi-element Sub) x every string of up to 3 elements over {a, root, rootx, tmp, ., .., '', a\\b, ..\\x, C:} with leading/trailing separator variants (about 3 million evaluations): exact root-joined-name result, lexical containment, refusal of invalid names, round trip, and for FromOSPath 'fails, or returns a valid FS path for the same location; must fail for relative paths, other volumes and paths outside the root'. A helper process per chain runs real calls under strace: every path that reaches the kernel lies inside the root and OS errors name the caller's relative path.",
   note="Windows conventions are exercised lexically only (no Windows kernel; errors_windows.go never runs). Non-absolute Windows inputs are not given to the shim because the public function filters them with the host's IsAbs. Known: names containing a backslash under the Windows convention (F32).",
   technique="exhaustive enumeration of a finite string space against an independent lexical model; strace as kernel-boundary monitor"),
 "C14": dict(level="fault_enumeration", design="4/C14",
   text="Single-fault enumeration at the store boundary: every history (a stride of the C01 situation matrix and of the C02 handle matrix in quick, all of them in thorough, plus 60/1500 seeded random histories incl. handle I/O) runs fault-free once on keyvalue.FS over the harness's plain Store and over the real mem TransactionStore behind a wrapper that reports injected failures the way real stores do, counting store-level calls (Get, Set, Transaction, Commit, lazy Data, lazy ReadDirNames); it is then re-run once per call index with that call failing. The operation in which the fault fired must return a non-nil error unless it demonstrably did not need the call (same result and final state as the fault-free run), nothing may panic or hang afterwards (watchdog + goroutine dump), and the faulted FS's view must equal a fresh keyvalue.FS over the same store.",
   note="One fault per run; the error is a distinct non-sentinel value. The S3 example store cannot be built offline; a harness store patterned on it takes the plain-Store path.",
   technique="exhaustive single-fault injection over counted store-call indices with a work-done oracle and store-vs-view comparison"),
}
NOT_YET = "monitor not built yet in this session (see DESIGN.md section 4 for the planned runtime monitor)"
props = [json.loads(l)["id"] for l in open("/verif/properties.jsonl")]
checks, na = [], []
RACE = {"C06","C11","C12","C13","C15","C18"}
for p in props:
    c = CLAIMED.get(p)
    if not c:
        na.append({"property_id": p, "reason": NOT_YET}); continue
    checks.append({
      "property_id": p,
      "quick_cmd": f"./check {p} quick",
      "thorough_cmd": f"./check {p} thorough",
      "evidence_file": f"evidence/{p}.json",
      "replay_cmd_template": f"./check {p} quick --replay {{path}}",
      "engine": "hpverif",
      "level_claimed": {"category": c["level"], "text": c["text"], "design_ref": "DESIGN.md " + c["design"]},
      "level_note": c["note"],
      "technique": c["technique"],
    })
m = {
 "version": 1,
 "setup_cmd": "./check --setup",
 "hooks": {"guard": "verif (Go build tag)", "enable": "go build -tags verif (done by ./check)",
           "baseline_off_cmd": "cd /repo && GOFLAGS=-mod=mod GOPROXY=off GOSUMDB=off GOTOOLCHAIN=local go test -json -vet=off -count=1 -timeout 25m ./...",
           "source_commits": [l.strip() for l in open("/verif/MANIFEST.hooks") if l.strip() and not l.startswith("#")],
           "add_only": True},
 "engines": [{"name": "hpverif", "path": "harness/cmd/hpverif", "serves_properties": [c["property_id"] for c in checks],
              "kind_free_text": "Go binary built against /repo's working tree with -tags verif; parent generates cases and aggregates, child processes execute them against the real library next to reference models / the os package; writes evidence and replay files"}],
 "checks": checks,
 "not_applicable": na,
 "notes": "Runtime monitoring only. Known genuine defects are listed in known_findings.json (status known) or were repaired by 'fix:' commits in /repo (status fixed). See DESIGN.md.",
}
json.dump(m, open("/verif/MANIFEST.json", "w"), indent=1)
print("claimed:", [c["property_id"] for c in checks])
