#!/bin/bash
# usage: tools/sweep.sh <quick|thorough> <seed> [<seed>...]   — runs every registered check at each seed, one summary line per run
cd "$(dirname "$0")/.."
TIER="$1"; shift
for seed in "$@"; do
  for c in C01 C02 C03 C04 C05 C06 C07 C08 C09 C10 C11 C12 C13 C14 C15 C16 C17 C18 C19 C20; do
    start=$(date +%s)
    VERIF_SEED=$seed ./check $c $TIER > /tmp/sweep.$$.out 2>&1; rc=$?
    echo "seed=$seed $c $TIER exit=$rc $(( $(date +%s) - start ))s $(grep -c '^VIOLATION' /tmp/sweep.$$.out) violations $(grep -c '^INCONCLUSIVE\|^UNUSABLE' /tmp/sweep.$$.out) inconclusive | $(grep '^\[C.*evaluations' /tmp/sweep.$$.out | tail -1 | cut -c1-120)"
    if [ $rc -ne 0 ]; then grep -A2 '^VIOLATION\|^UNUSABLE\|^INCONCLUSIVE' /tmp/sweep.$$.out | head -12 | sed 's/^/    /' | cut -c1-300; fi
  done
done
rm -f /tmp/sweep.$$.out
