#!/bin/bash
# usage: tools/seedimport.sh <Cxx> <k> "<seedeval summary line>"  -> copies a confirmed seeded mutation into /verif/seeded/<Cxx>-<k>/
P="$1"; K="$2"; LINE="$3"
SRC=${SEED_ROOT:-/tmp/seed}/out/$P/$K; DST=/verif/seeded/$P-${SEED_TAG:-}$K
mkdir -p "$DST" && cp "$SRC"/patch.diff "$SRC"/demo_cmd.txt "$SRC"/*_test.go "$DST"/ 2>/dev/null
# demo files stored only mirrored (os/seed_demo_test.go ...) are kept flat; demo_cmd.txt names the package they belong to
for f in $(cd "$SRC" && find . -mindepth 2 -name '*_test.go'); do [ -f "$DST/$(basename "$f")" ] || cp "$SRC/$f" "$DST/"; done
python3 - "$SRC/meta.json" "$DST/meta.json" "$LINE" "$(git -C /repo rev-parse --short HEAD)" <<'PY'
import json,sys
m=json.load(open(sys.argv[1]))
m["confirmed"]={"how":"tools/seedeval.sh: scratch worktree of /repo, demo test run without and with the patch, repository suite with the patch, then the registered quick check(s) against the patched tree via VERIF_REPO","result":sys.argv[3],"repo_head":sys.argv[4]}
json.dump(m,open(sys.argv[2],"w"),indent=1)
PY
