#!/usr/bin/env python3
# usage: mkmutant.py <name> <file> <old> <new> [<file> <old> <new> ...]   -> writes /verif/mutants/<name>.diff
import sys, subprocess, tempfile, os, shutil
name = sys.argv[1]; edits = sys.argv[2:]
w = tempfile.mkdtemp(prefix='hpmk.', dir='/tmp'); os.rmdir(w)
subprocess.check_call(['git', '-C', '/repo', 'worktree', 'add', '-q', '--detach', w, 'HEAD'])
try:
    for i in range(0, len(edits), 3):
        f, old, new = edits[i:i+3]
        p = os.path.join(w, f); s = open(p).read()
        if old not in s: sys.exit('old text not found in ' + f)
        open(p, 'w').write(s.replace(old, new, 1))
    d = subprocess.check_output(['git', '-C', w, 'diff'], text=True)
    open('/verif/mutants/%s.diff' % name, 'w').write(d)
    print('wrote mutants/%s.diff (%d lines)' % (name, d.count('\n')))
finally:
    subprocess.call(['git', '-C', '/repo', 'worktree', 'remove', '--force', w]); shutil.rmtree(w, ignore_errors=True)
    subprocess.call(['git', '-C', '/repo', 'worktree', 'prune'])
