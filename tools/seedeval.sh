#!/bin/bash
# usage: tools/seedeval.sh <Cxx> <k> [checks...]   (default check = Cxx)
# Confirms a sub-agent's seeded mutation in a scratch worktree (patch applies, repo suite passes, demo fails with / passes
# without the patch), then runs the given checks (quick) against the mutated tree via VERIF_REPO. Prints one summary line.
set -u
P="$1"; K="$2"; shift 2; CHECKS="${*:-$P}"
SRC=${SEED_ROOT:-/tmp/seed}/out/$P/$K
[ -d "$SRC" ] || SRC=/verif/seeded/$P-$K
export GOFLAGS=-mod=mod GOPROXY=off GOSUMDB=off GOTOOLCHAIN=local
W="$(mktemp -d /tmp/hpseed.XXXXXX)"; rmdir "$W"
git -C /repo worktree add -q --detach "$W" HEAD || exit 2
cleanup() { git -C /repo worktree remove --force "$W" 2>/dev/null; rm -rf "$W"; git -C /repo worktree prune; }
trap cleanup EXIT
eval "$(python3 - "$SRC" "$P" <<'PY'
import re,sys,shlex
src,prop=sys.argv[1],sys.argv[2]
lines=[l.strip() for l in open(src+'/demo_cmd.txt') if l.strip() and not l.strip().startswith('#')]
cmd=[l for l in lines if 'go test' in l or 'go run' in l][-1]
cmd=re.sub(r'\s+#.*$','',cmd)
dest=None
m=re.search(r'cp\s+\S*seed\S*_test\.go\s+(\S+)',cmd)
if m:
    d=m.group(1)
    d=re.sub(r'^/tmp/seed\d*/'+prop+'/?','',d)      # absolute path into the agent's worktree -> relative
    dest=d.rsplit('/',1)[0] if '/' in d else '.'
    if dest=='' : dest='.'
# keep only the go test part, drop cp / cd / mkdir preambles
cmd=cmd[cmd.index('go test') if 'go test' in cmd else cmd.index('go run'):]
pre=re.findall(r'((?:GOOS|GOARCH)=\S+)',lines[-1])
cmd=' '.join(pre)+' '+cmd if pre else cmd
if dest is None:
    toks=cmd.split()
    pk=[t for t in toks if t=='.' or t.startswith('./')]
    dest=(pk[-1] if pk else toks[-1]).rstrip('/')
    if dest in ('./...','.'): dest='.'
print('DEMO_CMD=%s; PKG=%s' % (shlex.quote(cmd), shlex.quote(dest)))
PY
)"
mkdir -p "$W/$PKG"
for f in "$SRC"/*_test.go; do [ -f "$f" ] && cp "$f" "$W/$PKG/"; done
# demo files stored mirrored below the output directory (os/seed_demo_test.go ...) go to the same relative path
MIRRORED="$(cd "$SRC" && find . -mindepth 2 -name '*_test.go' | sed 's|^\./||')"
for rel in $MIRRORED; do mkdir -p "$W/$(dirname "$rel")"; cp "$SRC/$rel" "$W/$rel"; done
run_demo() { (cd "$W" && eval "$DEMO_CMD") > "$W/.demo.out" 2>&1; }
run_demo; base=$?
git -C "$W" apply "$SRC/patch.diff" 2>"$W/.apply.err" || { echo "SEED $P/$K: PATCH-DOES-NOT-APPLY $(head -1 $W/.apply.err)"; exit 2; }
run_demo; mut=$?
rm -f "$W"/$PKG/seed_demo*_test.go "$W"/$PKG/*seed*_test.go
for rel in $MIRRORED; do rm -f "$W/$rel"; done
(cd "$W" && go build ./... && go test -vet=off -count=1 ./... > "$W/.suite.out" 2>&1); suite=$?
res=""
for c in $CHECKS; do
  (cd /verif && VERIF_REPO="$W" ./check "$c" quick > "$W/.check.$c.out" 2>&1); rc=$?
  sig="$(grep -m1 '^  sig:' "$W/.check.$c.out" | cut -c8-120)"
  res="$res $c=exit$rc[$sig]"
done
echo "SEED $P/$K: demo_clean=$base demo_mutated=$mut suite=$suite |$res"
[ "$suite" != 0 ] && grep -v '^ok\|no test files' "$W/.suite.out" | head -8
