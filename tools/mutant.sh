#!/bin/bash
# usage: tools/mutant.sh <patch.diff> <Cxx> [tier] [--skip-tests]
# Self-validation: applies a patch to a scratch worktree of /repo (outside /repo and /verif), confirms the
# repository's own suite still passes there, runs one check against it through VERIF_REPO and removes the worktree.
set -u
PATCH="$(readlink -f "$1")"; PROP="$2"; TIER="${3:-quick}"; SKIP="${4:-}"
export GOFLAGS=-mod=mod GOPROXY=off GOSUMDB=off GOTOOLCHAIN=local
W="$(mktemp -d /tmp/hpmut.XXXXXX)"; rmdir "$W"
git -C /repo worktree add -q --detach "$W" HEAD || exit 2
cleanup() { git -C /repo worktree remove --force "$W" 2>/dev/null; rm -rf "$W"; git -C /repo worktree prune; }
trap cleanup EXIT
git -C "$W" apply "$PATCH" || { echo "PATCH DOES NOT APPLY"; exit 2; }
if [ "$SKIP" != "--skip-tests" ]; then
  if ! (cd "$W" && go build ./... && go test -vet=off -count=1 ./... >"$W/.test.out" 2>&1); then
    echo "MUTANT-FAILS-REPO-TESTS"; grep -m5 -- "--- FAIL" "$W/.test.out"; exit 3
  fi
  echo "repo tests pass with the mutant"
fi
cd /verif && VERIF_REPO="$W" ./check "$PROP" "$TIER" > "$W/.check.out" 2>&1; rc=$?
grep -m3 -A2 "^VIOLATION" "$W/.check.out"; tail -1 "$W/.check.out"
echo "check exit=$rc"
exit $rc
