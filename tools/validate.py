#!/usr/bin/env python3
# validates MANIFEST.json and every evidence file against the schemas in /root/.vp
import json, sys, glob
import jsonschema
ok = True
m = json.load(open('/verif/MANIFEST.json'))
jsonschema.validate(m, json.load(open('/root/.vp/MANIFEST.schema.json')))
props = [json.loads(l)['id'] for l in open('/verif/properties.jsonl')]
claimed = [c['property_id'] for c in m['checks']]
na = [c['property_id'] for c in m.get('not_applicable', [])]
for p in props:
    if (p in claimed) == (p in na):
        print('property', p, 'must be exactly one of claimed / not_applicable'); ok = False
es = json.load(open('/root/.vp/EVIDENCE.schema.json'))
for c in m['checks']:
    f = '/verif/' + c['evidence_file'] if not c['evidence_file'].startswith('/') else c['evidence_file']
    try:
        e = json.load(open(f)); jsonschema.validate(e, es)
        if e['level'] != c['level_claimed']['category']:
            print(f, 'level mismatch'); ok = False
    except Exception as ex:
        print(f, 'INVALID', str(ex)[:300]); ok = False
print('OK' if ok else 'FAILED'); sys.exit(0 if ok else 1)
